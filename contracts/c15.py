"""C15 -- every proposed simplification is applicable and lexically closed.

Bounded: harness/c15_native.py applies every proposal of every mutator on
every node of a corpus over all theories (and of partially reduced forms)
and re-reads the rendering with ddSMT's parser and the reference reader.
"""
from pyvc.api import Contract, NativeCheck

PROPERTY = 'C15'


def contracts(tier):
    from . import mutsym, c11
    # where requested declarations go (contract shared with C11)
    iv = [c for c in c11.contracts(tier)
          if c.name == 'introduce_variables[any list]']
    return mutsym.contracts(tier) + iv


def native_checks(tier):
    r = 3 if tier == 'thorough' else 2
    return [
        NativeCheck('C15/native/proposals',
                    ['ddsmt.mutator_utils.apply_simp',
                     'ddsmt.smtlib.introduce_variables'] + [
                         f'ddsmt.mutators_{t}' for t in
                         ('core', 'smtlib', 'strings', 'bv', 'boolean',
                          'arithmetic', 'datatypes', 'fp')],
                    'harness/c15_native.py', [r],
                    bound=f'12 inputs over all theories, every node x every '
                    f'mutator x <= 12 proposals, {r} rounds of partially '
                    'reduced forms'),
    ]
