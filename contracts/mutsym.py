"""Per-mutator contracts on lazy symbolic nodes (shared by C15, C03, C04).

For every mutator class that has a ``mutations`` method, the real ``filter``
and ``mutations`` run on an arbitrary node (lazy symbolic tree, havocked
symbol tables, get_sort/get_bv_width through their contract).  For every
proposal delivered:

* ``C15/<M>/ids-in-input`` -- every identity key is the id of the node or of
  one of its (materialised) descendants;
* ``C03/<M>/no-op-free`` -- the replacement of the node itself is a deletion
  or structurally different from the node (a proposal that leaves the input
  unchanged is a one-step cycle);
* ``C15/<M>/proposal-is-a-Simplification``.

Loops over the children of the node are unrolled (6): obligations on such
paths are labelled bounded.
"""
import z3

from pyvc import mk, sym
from pyvc.api import Contract, outcome
from pyvc.interp import ObjVal, PyRaise, SymDict
from pyvc.sym import SNum, SStr, SOpt, mk_bool, cur
from . import env, nodemodel as nm
from . import c04

# (module suffix, class) -- mutators whose proposals come from mutations().
# Not in the list (the engine does not finish them within the budget or meets
# an unsupported construct -- iteration over a symbolic string, symbolic
# index): Constants, SortChildren, MergeWithChildren, BVElimBVComp,
# BVIteToBVComp, BVZeroExtendPredicate, BVExtractZeroExtend, BvMergeExtend,
# BVTransformToBool, BVConcatToZeroExtend, RemoveConstructor,
# RemoveDatatypeIdentity; they are covered by the corpus-bounded check (and
# the rewriting ones by C17's schemas).
MUTATORS = [
    ('core', 'EraseNode'),
    ('core', 'ReplaceByChild'),
    ('smtlib', 'CheckSatAssuming'), ('smtlib', 'LetElimination'),
    ('smtlib', 'RemoveAnnotation'), ('smtlib', 'RemoveRecursiveFunction'),
    ('smtlib', 'SimplifyQuotedSymbols'),
    ('boolean', 'BoolDeMorgan'), ('boolean', 'BoolDoubleNegation'),
    ('boolean', 'BoolEliminateFalseEquality'),
    ('boolean', 'BoolEliminateImplication'),
    ('boolean', 'BoolNegateQuantifier'), ('boolean', 'BoolXOREliminateBinary'),
    ('boolean', 'BoolXORRemoveConstant'),
    ('arithmetic', 'ArithmeticNegateRelation'),
    ('arithmetic', 'ArithmeticSplitNaryRelation'),
    ('arithmetic', 'ArithmeticStrengthenRelation'),
    ('bv', 'BVDoubleNegation'), 
    ('bv', 'BVReflexiveNand'),
    
    
    
    ('datatypes', 'RemoveDatatype'),
    
    ('fp', 'FPShortSort'),
    ('strings', 'SeqNthUnit'), ('strings', 'StringReplaceAll'),
    ('strings', 'StringIndexOfNotFound'),
]

# no-op freedom is decided by z3 for these (structural inequality over the
# Struct datatype with a size function); for the others the obligation is
# covered by the bounded native check only
NOOP_FREE = {
    'EraseNode', 'CheckSatAssuming', 'LetElimination', 'RemoveAnnotation',
    'BoolDeMorgan', 'BoolDoubleNegation', 'BoolNegateQuantifier',
    'BoolXOREliminateBinary', 'ArithmeticNegateRelation',
    'ArithmeticSplitNaryRelation', 'ArithmeticStrengthenRelation',
    'BVDoubleNegation', 'BVIteToBVComp', 'BVReflexiveNand',
    'RemoveDatatypeIdentity', 'FPShortSort', 'SeqNthUnit',
    'StringReplaceAll', 'StringIndexOfNotFound', 'ReplaceByChild',
    'BVElimBVComp', 'BoolEliminateImplication',
}


def setup(eng):
    c04.setup_nodes(eng)
    nm.install_abs(eng)
    c04.get_sort_contract(eng)
    env.static_options(eng, replace_by_variable_mode='inc')
    eng.iter_bound = 4


def descendants(node, out=None):
    out = out if out is not None else []
    out.append(node)
    for k, ch in sorted((node.tag or {}).get('kids', {}).items()):
        descendants(ch, out)
    return out


def make_run(theory, cname):

    def run(eng, p):
        nm.havoc_tables(eng, p)
        mod = eng.load_module(f'ddsmt.mutators_{theory}')
        mu = eng.load_module('ddsmt.mutator_utils')
        m = eng.call(mod.g[cname], [], {})
        node = nm.lazy_node(eng, p, 'n')
        N = cname
        if eng.hasattr(m, 'filter'):
            o = outcome(eng, eng.getattr(m, 'filter'), [node])
            if o.kind != 'return' or not eng.truth(o.value):
                return  # rejected, or a contained failure (C04)
        try:
            it = eng.call(eng.getattr(m, 'mutations'), [node], {})
            props = []
            for s in eng.iterate(it):
                props.append(s)
                if len(props) >= 6:
                    break
        except PyRaise:
            return  # a failing mutator only loses its candidates (C04)
        if props:
            p.oblige(f'cover/{N}/proposes-on-some-path', False, kind='cover')
        ids = [d.attrs['id'] for d in descendants(node)]
        for s in props:
            ok = isinstance(s, tuple) and hasattr(s, 'substs') and \
                isinstance(s.substs, SymDict)
            p.oblige(f'C15/{N}/proposal-is-a-Simplification', ok,
                     info=repr(type(s)))
            if not ok:
                continue
            for k, r in s.substs.items():
                if isinstance(k, (int, SNum)):
                    p.oblige(f'C15/{N}/ids-in-input',
                             any(k is i for i in ids) or any(
                                 eng.truth(k == i) for i in ids),
                             info={'signature': f'{N} designates a node '
                                   'that is not part of the input'})
                    is_self = k is node.attrs['id']
                else:
                    is_self = False
                if is_self and N in NOOP_FREE:
                    if r is None:
                        p.oblige(f'C03/{N}/no-op-free', True)
                    elif isinstance(r, ObjVal):
                        p.oblige(f'C03/{N}/no-op-free',
                                 mk_bool(nm.S(r) != nm.S(node)),
                                 info={'replacement': nm.render(r),
                                       'node': nm.render(node), 'signature':
                                       f'{N} proposes to replace a node by '
                                       'itself'})
                    else:
                        p.oblige(f'C15/{N}/replacement-is-a-node', False,
                                 info=repr(type(r)))

    return run


def contracts(tier):
    A = [nm.ASSUME_LAZY, nm.ASSUME_EQ_CONTRACT,
         'symbol tables havocked; get_sort/get_bv_width/nodes.contains '
         'through their contracts; at most 6 proposals per path inspected']
    cs = []
    for theory, cname in MUTATORS:
        cs.append(Contract(f'mutator/{cname}',
                           [f'ddsmt.mutators_{theory}.{cname}.mutations'],
                           make_run(theory, cname), setup=setup,
                           assumptions=A, max_paths=3000))
    return cs
