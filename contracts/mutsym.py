"""Per-mutator contracts on lazy symbolic nodes (shared by C15, C03, C04).

For every mutator class that has a ``mutations`` method, the real ``filter``
and ``mutations`` run on an arbitrary node (lazy symbolic tree, havocked
symbol tables, get_sort/get_bv_width through their contract).  For every
proposal delivered:

* ``C15/<M>/ids-in-input`` -- every identity key is the id of the node or of
  one of its (materialised) descendants;
* ``C03/<M>/no-op-free`` -- the replacement of the node itself is a deletion
  or structurally different from the node (a proposal that leaves the input
  unchanged is a one-step cycle);
* ``C15/<M>/proposal-is-a-Simplification``;
* ``C15/<M>/new-leaves-are-single-tokens`` -- every leaf the mutator creates
  is exactly one lexeme (token, string literal or quoted symbol): concrete
  texts through the reference lexer, symbolic ones (built from leaf texts of
  the input and numerals) by z3 over the lexeme regular expression, given
  that the input's leaf texts are lexemes; numerals abstracted to digit
  strings.

Loops over the children of the node are unrolled (6): obligations on such
paths are labelled bounded.
"""
import z3

from pyvc import mk, sym
from pyvc.api import Contract, outcome
from pyvc.interp import ObjVal, PyRaise, SymDict
from pyvc.sym import SNum, SStr, SOpt, mk_bool, cur
from . import env, nodemodel as nm
from . import c04

# (module suffix, class) -- mutators whose proposals come from mutations().
# Not in the list (the engine does not finish them within the budget or meets
# an unsupported construct -- iteration over a symbolic string, symbolic
# index): Constants, SortChildren, MergeWithChildren, BVElimBVComp,
# BVIteToBVComp, BVZeroExtendPredicate, BVExtractZeroExtend, BvMergeExtend,
# BVConcatToZeroExtend, RemoveConstructor,
# RemoveDatatypeIdentity; they are covered by the corpus-bounded check (and
# the rewriting ones by C17's schemas).
MUTATORS = [
    ('core', 'EraseNode'),
    ('core', 'ReplaceByChild'),
    ('smtlib', 'CheckSatAssuming'), ('smtlib', 'LetElimination'),
    ('smtlib', 'RemoveAnnotation'), ('smtlib', 'RemoveRecursiveFunction'),
    ('smtlib', 'SimplifyQuotedSymbols'),
    ('boolean', 'BoolDeMorgan'), ('boolean', 'BoolDoubleNegation'),
    ('boolean', 'BoolEliminateFalseEquality'),
    ('boolean', 'BoolEliminateImplication'),
    ('boolean', 'BoolNegateQuantifier'), ('boolean', 'BoolXOREliminateBinary'),
    ('boolean', 'BoolXORRemoveConstant'),
    ('arithmetic', 'ArithmeticNegateRelation'),
    ('arithmetic', 'ArithmeticSplitNaryRelation'),
    ('arithmetic', 'ArithmeticStrengthenRelation'),
    ('bv', 'BVDoubleNegation'),
    ('bv', 'BVReflexiveNand'), ('bv', 'BVTransformToBool'),
    
    
    
    ('datatypes', 'RemoveDatatype'),
    
    ('fp', 'FPShortSort'),
    ('strings', 'SeqNthUnit'), ('strings', 'StringReplaceAll'),
    ('strings', 'StringIndexOfNotFound'),
]

# no-op freedom is decided by z3 for these (structural inequality over the
# Struct datatype with a size function); for the others the obligation is
# covered by the bounded native check only
NOOP_FREE = {
    'EraseNode', 'CheckSatAssuming', 'LetElimination', 'RemoveAnnotation',
    'BoolDeMorgan', 'BoolDoubleNegation', 'BoolNegateQuantifier',
    'BoolXOREliminateBinary', 'ArithmeticNegateRelation',
    'ArithmeticSplitNaryRelation', 'ArithmeticStrengthenRelation',
    'BVDoubleNegation', 'BVIteToBVComp', 'BVReflexiveNand',
    'RemoveDatatypeIdentity', 'FPShortSort', 'SeqNthUnit',
    'StringReplaceAll', 'StringIndexOfNotFound', 'ReplaceByChild',
    'BVElimBVComp', 'BoolEliminateImplication',
}


def setup(eng):
    c04.setup_nodes(eng)
    nm.install_abs(eng)
    c04.get_sort_contract(eng)
    env.static_options(eng, replace_by_variable_mode='inc')
    eng.iter_bound = 4


def _re_chars(cs):
    rs = [z3.Re(z3.StringVal(c)) for c in cs]
    return rs[0] if len(rs) == 1 else z3.Union(*rs)


_ALL = z3.AllChar(z3.ReSort(z3.StringSort()))
_TOK = z3.Plus(z3.Diff(_ALL, _re_chars(' \t\n\r()";|')))
_STR = z3.Concat(z3.Re(z3.StringVal('"')), z3.Star(z3.Union(
    z3.Diff(_ALL, z3.Re(z3.StringVal('"'))), z3.Re(z3.StringVal('""')))),
    z3.Re(z3.StringVal('"')))
_QSYM = z3.Concat(z3.Re(z3.StringVal('|')), z3.Star(
    z3.Diff(_ALL, z3.Re(z3.StringVal('|')))), z3.Re(z3.StringVal('|')))
LEXEME = z3.Union(_TOK, _STR, _QSYM)
_DIGITS = z3.Plus(z3.Range('0', '9'))


def is_lexeme(text):
    """concrete text is exactly one token / string literal / quoted symbol"""
    from harness import refreader
    try:
        toks = list(refreader.lex(text))
    except Exception:  # noqa
        return False
    return len(toks) == 1 and toks[0][0] in ('tok', 'str', 'qsym') and \
        toks[0][2] == 0 and toks[0][3] == len(text)


def lexeme_obligation(p, data):
    """(hypotheses, goal) for: the symbolic leaf text is one lexeme, given
    that the leaf texts of the input it is built from are lexemes; numerals
    are abstracted to arbitrary digit strings."""
    hyps = []
    zs = []
    for k, v in data.parts:
        if k == 'c':
            zs.append(z3.StringVal(v))
        elif k == 'n':
            d = z3.String('digits_%d' % v.get_id())
            hyps.append(z3.InRe(d, _DIGITS))
            zs.append(d)
        else:
            hyps.append(z3.InRe(v, LEXEME))
            zs.append(v)
    whole = zs[0] if len(zs) == 1 else z3.Concat(*zs)
    return z3.Implies(z3.And(*hyps) if hyps else z3.BoolVal(True),
                      z3.InRe(whole, LEXEME))


def new_leaves(r, out=None, seen=None):
    """leaves of a replacement that the mutator created itself"""
    out = [] if out is None else out
    seen = set() if seen is None else seen
    if not isinstance(r, ObjVal) or id(r) in seen:
        return out
    seen.add(id(r))
    if (r.tag or {}).get('lazy'):
        return out  # a node of the input
    d = r.attrs.get('data')
    if isinstance(d, (str, SStr)):
        out.append(d)
    elif isinstance(d, (tuple, list)):
        for c in d:
            new_leaves(c, out, seen)
    return out


def descendants(node, out=None):
    out = out if out is not None else []
    out.append(node)
    for k, ch in sorted((node.tag or {}).get('kids', {}).items()):
        descendants(ch, out)
    return out


def make_run(theory, cname):

    def run(eng, p):
        nm.havoc_tables(eng, p)
        mod = eng.load_module(f'ddsmt.mutators_{theory}')
        mu = eng.load_module('ddsmt.mutator_utils')
        m = eng.call(mod.g[cname], [], {})
        node = nm.lazy_node(eng, p, 'n')
        N = cname
        if eng.hasattr(m, 'filter'):
            o = outcome(eng, eng.getattr(m, 'filter'), [node])
            if o.kind != 'return' or not eng.truth(o.value):
                return  # rejected, or a contained failure (C04)
        try:
            it = eng.call(eng.getattr(m, 'mutations'), [node], {})
            props = []
            for s in eng.iterate(it):
                props.append(s)
                if len(props) >= 6:
                    break
        except PyRaise:
            return  # a failing mutator only loses its candidates (C04)
        if props:
            p.oblige(f'cover/{N}/proposes-on-some-path', False, kind='cover')
        ids = [d.attrs['id'] for d in descendants(node)]
        for s in props:
            ok = isinstance(s, tuple) and hasattr(s, 'substs') and \
                isinstance(s.substs, SymDict)
            p.oblige(f'C15/{N}/proposal-is-a-Simplification', ok,
                     info=repr(type(s)))
            if not ok:
                continue
            for k, r in s.substs.items():
                if isinstance(k, (int, SNum)):
                    p.oblige(f'C15/{N}/ids-in-input',
                             any(k is i for i in ids) or any(
                                 eng.truth(k == i) for i in ids),
                             info={'signature': f'{N} designates a node '
                                   'that is not part of the input'})
                    is_self = k is node.attrs['id']
                else:
                    is_self = False
                if isinstance(r, ObjVal):
                    for d in new_leaves(r):
                        if isinstance(d, str):
                            p.oblige(f'C15/{N}/new-leaves-are-single-tokens',
                                     is_lexeme(d),
                                     info={'leaf': d, 'signature': f'{N} '
                                           'creates a leaf that is not one '
                                           'token'})
                        else:
                            p.oblige(f'C15/{N}/new-leaves-are-single-tokens',
                                     mk_bool(lexeme_obligation(p, d)),
                                     info={'leaf': repr(d)[:120],
                                           'signature': f'{N} creates a leaf '
                                           'that is not one token'})
                if is_self and N in NOOP_FREE:
                    if r is None:
                        p.oblige(f'C03/{N}/no-op-free', True)
                    elif isinstance(r, ObjVal):
                        p.oblige(f'C03/{N}/no-op-free',
                                 mk_bool(nm.S(r) != nm.S(node)),
                                 info={'replacement': nm.render(r),
                                       'node': nm.render(node), 'signature':
                                       f'{N} proposes to replace a node by '
                                       'itself'})
                    else:
                        p.oblige(f'C15/{N}/replacement-is-a-node', False,
                                 info=repr(type(r)))

    return run


def contracts(tier):
    A = [nm.ASSUME_LAZY, nm.ASSUME_EQ_CONTRACT,
         'symbol tables havocked; get_sort/get_bv_width/nodes.contains '
         'through their contracts; at most 6 proposals per path inspected']
    cs = []
    for theory, cname in MUTATORS:
        cs.append(Contract(f'mutator/{cname}',
                           [f'ddsmt.mutators_{theory}.{cname}.mutations'],
                           make_run(theory, cname), setup=setup,
                           assumptions=A, max_paths=3000))
    return cs
