"""C17 -- rewrites documented as identities preserve sort and value.

Tier P (this file): for the propositional / relational / index-arithmetic
rewrites a schematic accepted instance is built (operands are opaque
well-sorted terms, widths and indices symbolic); the real ``filter`` and
``mutations`` run on it; both sides are mapped to z3 terms by a denotation
(Booleans, integers, uninterpreted values; bit-vectors as (width, value)
pairs with the bit-vector laws the rewrite relies on as axioms, themselves
validated exhaustively for small widths by harness/c17_native.py's
evaluator); z3 proves equal sort and equal value for every environment.
Tier B: harness/c17_native.py (constant evaluation, inlining, let
substitution, all listed rewrites on generated instances).
"""
import z3

from pyvc import mk, sym
from pyvc.api import Contract, NativeCheck, outcome
from pyvc.interp import ObjVal, PyRaise, SymDict, SymSet
from pyvc.sym import SBool, SNum, SStr, mk_bool, cur
from . import env, nodemodel as nm
from . import c16
from .c16 import Ctx, install_tables, install_induction, width_of

PROPERTY = 'C17'

U = z3.DeclareSort('U')
BVv = z3.IntSort()
# laws of the bit-vector theory used as axioms (validated for widths <= 6 by
# the evaluator of the native check)
BVNOT = z3.Function('bvnot', z3.IntSort(), z3.IntSort(), z3.IntSort())
BVNEG = z3.Function('bvneg', z3.IntSort(), z3.IntSort(), z3.IntSort())
BVAND = z3.Function('bvand', z3.IntSort(), z3.IntSort(), z3.IntSort(),
                    z3.IntSort())
BVOR = z3.Function('bvor', z3.IntSort(), z3.IntSort(), z3.IntSort(),
                   z3.IntSort())
BVADD = z3.Function('bvadd', z3.IntSort(), z3.IntSort(), z3.IntSort(),
                    z3.IntSort())
SEXT = z3.Function('sext', z3.IntSort(), z3.IntSort(), z3.IntSort(),
                   z3.IntSort())  # (width, k, value)
EXT = z3.Function('extract', z3.IntSort(), z3.IntSort(), z3.IntSort(),
                  z3.IntSort())  # (value, u, l)
FITS = z3.Function('fits', z3.IntSort(), z3.IntSort(), z3.BoolSort())
PRED = z3.Function('body', U, z3.BoolSort())


class Den:
    """Denotation of schematic terms."""

    def __init__(self, eng, p):
        self.eng, self.p = eng, p
        self.vals = {}
        self.ops = []
        self.laws = []
        self.bound = {}

    def operand_value(self, n):
        key = id(n)
        if key in self.vals:
            return self.vals[key]
        s = n.tag['true_sort']
        name = n.tag['name']
        if s[0] == 'Bool':
            v = ('Bool', z3.Bool(f'val_{name}'))
        elif s[0] == 'Int':
            v = ('Int', z3.Int(f'val_{name}'))
        elif s[0] == 'Real':
            v = ('Real', z3.Real(f'val_{name}'))
        elif s[0] == 'BV':
            x = z3.Int(f'val_{name}')
            self.p.assume(z3.And(x >= 0, FITS(x, sym._znum(s[1]))))
            v = ('BV', sym._znum(s[1]), x)
        else:
            v = ('U', z3.Const(f'val_{name}', U))
        # structurally equal operands denote the same value
        for (other, ov) in self.ops:
            if ov[0] == v[0]:
                same_struct = nm.S(other) == nm.S(n)
                self.p.assume(z3.Implies(same_struct, self.same(ov, v)))
        self.ops.append((n, v))
        self.vals[key] = v
        return v

    def law(self, f):
        self.p.assume(f)

    def num(self, node):
        d = node.attrs['data']
        if isinstance(d, str) and d.isdigit():
            return z3.IntVal(int(d))
        if isinstance(d, SStr):
            n = d.single_numeral()
            if n is not None:
                return n
        raise sym.Unsupported(f'not a numeral: {d!r}')

    def den(self, n):  # noqa: C901
        if isinstance(n, ObjVal) and n.tag and 'true_sort' in n.tag:
            return self.operand_value(n)
        if isinstance(n, ObjVal) and n.tag and n.tag.get('lazy'):
            # a piece taken out of an opaque operand: nothing is known about
            # its value (a rewrite that relies on it cannot be justified)
            p = sym.cur()
            return ('BV', p.fresh_int('piece_width'),
                    p.fresh_int('piece_value'))
        d = n.attrs['data']
        if isinstance(d, (str, SStr)):
            if isinstance(d, str):
                if d in self.bound:
                    return self.bound[d]
                if d == 'true':
                    return ('Bool', z3.BoolVal(True))
                if d == 'false':
                    return ('Bool', z3.BoolVal(False))
                if d == '#b1':
                    return ('BV', z3.IntVal(1), z3.IntVal(1))
                if d == '#b0':
                    return ('BV', z3.IntVal(1), z3.IntVal(0))
                if d.isdigit():
                    return ('Int', z3.IntVal(int(d)))
            raise sym.Unsupported(f'denotation of leaf {d!r}')
        kids = list(d)
        head = kids[0]
        hd = head.attrs['data']
        if not isinstance(hd, (str, SStr)):
            # indexed operator application ((_ op i..) x)
            hk = list(hd)
            op = hk[1].attrs['data']
            x = self.den(kids[1])
            if op == 'zero_extend':
                k = self.num(hk[2])
                return ('BV', x[1] + k, x[2])
            if op == 'sign_extend':
                k = self.num(hk[2])
                return ('BV', x[1] + k, SEXT(x[1], k, x[2]))
            if op == 'extract':
                u, l = self.num(hk[2]), self.num(hk[3])
                return ('BV', u - l + 1, EXT(x[2], u, l))
            raise sym.Unsupported(f'indexed operator {op}')
        op = hd
        if op == '_':
            t = kids[1].attrs['data']
            if isinstance(t, SStr):
                parts = t.parts
                if len(parts) == 2 and parts[0] == ('c', 'bv') and \
                        parts[1][0] == 'n':
                    return ('BV', self.num(kids[2]), parts[1][1])
            if isinstance(t, str) and t.startswith('bv') and \
                    t[2:].isdigit():
                return ('BV', self.num(kids[2]), z3.IntVal(int(t[2:])))
            raise sym.Unsupported('indexed identifier')
        if op in ('forall', 'exists'):
            # one bound variable over an uninterpreted domain; body is an
            # uninterpreted predicate applied to it, possibly negated
            x = z3.Const('bound_x', U)
            body = self.den_body(kids[2], x)
            q = z3.ForAll([x], body) if op == 'forall' else z3.Exists([x],
                                                                     body)
            return ('Bool', q)
        a = [self.den(k) for k in kids[1:]]
        if op == 'not':
            return ('Bool', z3.Not(a[0][1]))
        if op == 'and':
            return ('Bool', z3.And(*[x[1] for x in a]))
        if op == 'or':
            return ('Bool', z3.Or(*[x[1] for x in a]))
        if op == 'xor':
            r = a[0][1]
            for x in a[1:]:
                r = z3.Xor(r, x[1])
            return ('Bool', r)
        if op == '=>':
            r = a[-1][1]
            for x in reversed(a[:-1]):
                r = z3.Implies(x[1], r)
            return ('Bool', r)
        if op in ('=', 'distinct'):
            if any(x[0] != a[0][0] for x in a):
                raise sym.Unsupported('ill-sorted equality in denotation')
            eqs = []
            import itertools
            pairs = zip(a, a[1:]) if op == '=' else itertools.combinations(
                a, 2)
            for x, y in pairs:
                e = self.same(x, y)
                eqs.append(e if op == '=' else z3.Not(e))
            return ('Bool', z3.And(*eqs))
        if op in ('<', '<=', '>', '>='):
            f = {'<': lambda x, y: x < y, '<=': lambda x, y: x <= y,
                 '>': lambda x, y: x > y, '>=': lambda x, y: x >= y}[op]
            return ('Bool', z3.And(*[f(x[1], y[1])
                                     for x, y in zip(a, a[1:])]))
        if op == 'ite':
            if a[1][0] == 'BV':
                return ('BV', a[1][1], z3.If(a[0][1], a[1][2], a[2][2]))
            return (a[1][0], z3.If(a[0][1], a[1][1], a[2][1]))
        if op == 'bvnot':
            w, x = a[0][1], a[0][2]
            self.law(BVNOT(w, BVNOT(w, x)) == x)
            return ('BV', w, BVNOT(w, x))
        if op == 'bvneg':
            w, x = a[0][1], a[0][2]
            self.law(BVNEG(w, BVNEG(w, x)) == x)
            return ('BV', w, BVNEG(w, x))
        if op == 'bvand':
            w = a[0][1]
            self.law(BVAND(w, a[0][2], a[0][2]) == a[0][2])
            return ('BV', w, BVAND(w, a[0][2], a[1][2]))
        if op == 'bvnand':
            w = a[0][1]
            self.law(BVAND(w, a[0][2], a[0][2]) == a[0][2])
            return ('BV', w, BVNOT(w, BVAND(w, a[0][2], a[1][2])))
        if op == 'bvcomp':
            return ('BV', z3.IntVal(1),
                    z3.If(self.same(a[0], a[1]), z3.IntVal(1), z3.IntVal(0)))
        raise sym.Unsupported(f'denotation of operator {op!r}')

    def den_body(self, n, x):
        if isinstance(n, ObjVal) and n.tag and 'true_sort' in n.tag:
            return PRED(x)
        d = n.attrs['data']
        kids = list(d)
        if kids[0].attrs['data'] == 'not':
            return z3.Not(self.den_body(kids[1], x))
        raise sym.Unsupported('quantifier body')

    def same(self, x, y):
        if x[0] == 'BV':
            return z3.And(x[1] == y[1], x[2] == y[2])
        return x[1] == y[1]


def equal_sort_and_value(den, a, b):
    if a[0] != b[0]:
        return z3.BoolVal(False)
    if a[0] == 'Bool':
        return a[1] == b[1]
    return den.same(a, b)


# ---------------------------------------------------------------------------
# schemas: name -> (mutator module, class, builder(ctx) -> term)


def schemas():  # noqa: C901
    S = {}
    B = lambda c: c.operand(c.Bool())  # noqa: E731

    def bvpair(c):
        w = c.fresh_pos('w')
        return c.operand(c.BV(w)), c.operand(c.BV(w)), w

    S['BoolDoubleNegation'] = ('boolean', lambda c: c.node(
        'not', c.node('not', B(c))))
    for op in ('and', 'or'):
        for n in (1, 2, 3, 4):
            S[f'BoolDeMorgan[{op},{n}]'] = ('boolean', lambda c, op=op, n=n:
                                            c.node('not', c.node(
                                                op, *[B(c) for _ in
                                                      range(n)])))
    S['BoolEliminateFalseEquality[false,X]'] = (
        'boolean', lambda c: c.node('=', 'false', B(c)))
    S['BoolEliminateFalseEquality[X,false]'] = (
        'boolean', lambda c: c.node('=', B(c), 'false'))
    S['BoolXOREliminateBinary'] = ('boolean', lambda c: c.node('xor', B(c),
                                                               B(c)))
    S['BoolEliminateImplication'] = ('boolean', lambda c: c.node(
        '=>', B(c), B(c)))
    for q in ('forall', 'exists'):
        S[f'BoolNegateQuantifier[{q}]'] = ('boolean', lambda c, q=q: c.node(
            'not', c.node(q, c.node(c.node('x', 'U')),
                          c.operand(c.Bool(), 'body'))))
    for rel in ('=', '<', '>', '<=', '>=', 'distinct'):
        for srt in ('Int', 'Real'):
            S[f'ArithmeticNegateRelation[{rel},{srt}]'] = (
                'arithmetic', lambda c, rel=rel, srt=srt: c.node(
                    'not', c.node(rel, c.operand((srt, )),
                                  c.operand((srt, )))))

    def dneg(op):
        def b(c):
            w = c.fresh_pos('w')
            return c.node(op, c.node(op, c.operand(c.BV(w))))
        return b

    S['BVDoubleNegation[bvnot]'] = ('bv', dneg('bvnot'))
    S['BVDoubleNegation[bvneg]'] = ('bv', dneg('bvneg'))

    def mixed(outer, inner):
        def b(c):
            w = c.fresh_pos('w')
            return c.node(outer, c.node(inner, c.operand(c.BV(w))))
        return b

    # near misses: to be rejected by the filter or rewritten correctly
    S['BVDoubleNegation[bvnot,bvneg]?'] = ('bv', mixed('bvnot', 'bvneg'))
    S['BVDoubleNegation[bvneg,bvnot]?'] = ('bv', mixed('bvneg', 'bvnot'))

    def nand2(c):
        w = c.fresh_pos('w')
        return c.node('bvnand', c.operand(c.BV(w)), c.operand(c.BV(w)))

    S['BVReflexiveNand[x,y]?'] = ('bv', nand2)

    def ite_swapped(c):
        x, y, w = bvpair(c)
        return c.node('ite', c.node('=', x, y), '#b0', '#b1')

    S['BVIteToBVComp[swapped]?'] = ('bv', ite_swapped)

    def nand(c):
        w = c.fresh_pos('w')
        x = c.operand(c.BV(w))
        return c.node('bvnand', x, x)

    S['BVReflexiveNand'] = ('bv', nand)

    def ite2comp(c):
        x, y, w = bvpair(c)
        c.need_sort = True
        return c.node('ite', c.node('=', x, y), '#b1', '#b0')

    S['BVIteToBVComp'] = ('bv', ite2comp)

    def elim(val):
        def b(c):
            x, y, w = bvpair(c)
            return c.node('=', val, c.node('bvcomp', x, y))
        return b

    S['BVElimBVComp[#b1]'] = ('bv', elim('#b1'))
    S['BVElimBVComp[#b0]'] = ('bv', elim('#b0'))

    def merge(op, depth):
        def b(c):
            w = c.fresh_pos('w')
            t = c.operand(c.BV(w))
            # the chain of extensions is exactly `depth` long: the innermost
            # operand is not itself such an extension
            sm = c.eng.load_module('ddsmt.smtlib')
            if c.eng.truth(c.eng.call(sm.g['is_indexed_operator_app'],
                                      [t, op], {})):
                raise sym.PathAbort('operand is an extension itself')
            for i in range(depth):
                k = c.fresh_pos(f'k{i}', 0)
                t = c.node(c.node('_', op, c.numeral(k)), t)
            return t
        return b

    for op in ('zero_extend', 'sign_extend'):
        for depth in (2, 3):
            S[f'BvMergeExtend[{op},{depth}]'] = ('bv', merge(op, depth))

    def ext_zext(c):
        bw = c.fresh_pos('bw')
        k = c.fresh_pos('k', 0)
        u = c.fresh_pos('u', 0)
        l = c.fresh_pos('l', 0)
        c.require(l <= u, u < bw + k)
        t = c.operand(c.BV(bw))
        c.ez = (bw, k, u, l)
        return c.node(c.node('_', 'extract', c.numeral(u), c.numeral(l)),
                      c.node(c.node('_', 'zero_extend', c.numeral(k)), t))

    S['BVExtractZeroExtend'] = ('bv', ext_zext)

    def eval_zext(c):
        w = c.fresh_pos('w')
        v = c.fresh_pos('v', 0)
        k = c.fresh_pos('k', 0)
        return c.node(c.node('_', 'zero_extend', c.numeral(k)),
                      c.node('_', c.bvtext(v), c.plain_numeral(w)))

    S['BVEvalExtend[zero_extend,(_ bvN w)]'] = ('bv', eval_zext)
    return S


MUT_CLASS = {
    'BoolDoubleNegation': 'BoolDoubleNegation', 'BoolDeMorgan': 'BoolDeMorgan',
    'BoolEliminateFalseEquality': 'BoolEliminateFalseEquality',
    'BoolXOREliminateBinary': 'BoolXOREliminateBinary',
    'BoolEliminateImplication': 'BoolEliminateImplication',
    'BoolNegateQuantifier': 'BoolNegateQuantifier',
    'ArithmeticNegateRelation': 'ArithmeticNegateRelation',
    'BVDoubleNegation': 'BVDoubleNegation',
    'BVReflexiveNand': 'BVReflexiveNand', 'BVIteToBVComp': 'BVIteToBVComp',
    'BVElimBVComp': 'BVElimBVComp', 'BvMergeExtend': 'BvMergeExtend',
    'BVExtractZeroExtend': 'BVExtractZeroExtend',
    'BVEvalExtend': 'BVEvalExtend',
}


def make_run(name, theory, builder):
    cname = MUT_CLASS[name.split('[')[0]]

    def run(eng, p):  # noqa: C901
        c = Ctx(eng, p)
        term = builder(c)
        sm = install_tables(eng, c, term)
        install_induction(eng, p, term)
        mod = eng.load_module(f'ddsmt.mutators_{theory}')
        m = eng.call(mod.g[cname], [], {})
        N = f'C17/{name}'
        o = outcome(eng, eng.getattr(m, 'filter'), [term])
        p.oblige(f'{N}/filter-raises-nothing', o.kind == 'return',
                 info=repr(o))
        if o.kind != 'return' or not eng.truth(o.value):
            # not an accepted instance on this path (e.g. operand sort
            # unknown): nothing is proposed
            p.ghost['not_accepted'] = True
            return
        o = outcome(eng, eng.getattr(m, 'mutations'), [term])
        p.oblige(f'{N}/mutations-raise-nothing', o.kind == 'return',
                 info=repr(o))
        if o.kind != 'return':
            return
        props = list(eng.iterate(o.value))
        den = Den(eng, p)
        # the few laws of sign extension / extraction the rewrites rely on
        if getattr(c, 'ez', None):
            bw, k, u, l = [sym._znum(x) for x in c.ez]
            for n in c_operands(term):
                v = den.operand_value(n)
                p.assume(z3.Implies(z3.And(FITS(v[2], bw), l >= bw),
                                    EXT(v[2], u, l) == 0))
                p.assume(z3.Implies(z3.And(FITS(v[2], bw), u >= bw, l < bw),
                                    EXT(v[2], u, l) == EXT(v[2], bw - 1, l)))
        lhs = den.den(term)
        for simp in props:
            ok = term.attrs['id'] in [k for k, _ in simp.substs.items()] \
                if isinstance(simp.substs, SymDict) else False
            p.oblige(f'{N}/replaces-the-accepted-node', ok)
            if not ok:
                continue
            repl = simp.substs.get_stored(
                [k for k, _ in simp.substs.items()][0])
            if 'sign_extend' in name:
                # sext_a(sext_b(x)) == sext_{a+b}(x)
                add_sext_laws(den, term)
            try:
                rhs = den.den(repl)
            except sym.Unsupported as ex:
                p.oblige(f'{N}/replacement-in-the-fragment', False,
                         info=str(ex))
                continue
            p.oblige(f'{N}/same-sort-and-value',
                     equal_sort_and_value(den, lhs, rhs),
                     info={'lhs': nm.render(term), 'rhs': nm.render(repl),
                           'signature': f'{name}: replacement differs in '
                           'sort or value'})
        if props and not name.endswith('?'):
            p.oblige(f'{N}/accepted-and-rewritten-on-some-path', False,
                     kind='cover')

    return run


def c_operands(term):
    out = []

    def walk(n):
        if isinstance(n, ObjVal) and n.tag and 'true_sort' in n.tag:
            out.append(n)
            return
        d = n.attrs['data']
        if not isinstance(d, (str, SStr)):
            for k in d:
                walk(k)

    walk(term)
    return out


def add_sext_laws(den, term):
    """sign-extending twice is sign-extending by the sum (bit-vector law)."""
    ks = []
    n = term
    while True:
        d = n.attrs['data']
        if isinstance(d, (str, SStr)) or (n.tag and 'true_sort' in n.tag):
            break
        kids = list(d)
        hd = kids[0].attrs['data']
        if isinstance(hd, (str, SStr)):
            break
        ks.append(den.num(list(hd)[2]))
        n = kids[1]
    if not (n.tag and 'true_sort' in n.tag):
        return
    v = den.operand_value(n)
    w, x = v[1], v[2]
    ks = list(reversed(ks))  # innermost first
    acc_w, acc_v, total = w, x, z3.IntVal(0)
    for k in ks:
        nv = SEXT(acc_w, k, acc_v)
        total = total + k
        den.law(nv == SEXT(w, total, x))
        acc_w, acc_v = acc_w + k, nv


def setup(eng):
    c16.setup(eng)


def contracts(tier):
    A = [nm.ASSUME_LAZY, nm.ASSUME_EQ_CONTRACT,
         'denotation library (contracts/c17.py: Den) is the specification; '
         'bit-vectors as (width, value) with the laws bvnot/bvneg '
         'involution, bvand idempotence, sext composition, extract of a '
         'value that fits in fewer bits -- validated for widths <= 6 by the '
         'native evaluator, not proved here',
         'operands: opaque well-sorted terms; get_sort/get_bv_width on '
         'operands answered by their contract (C16)']
    cs = []
    for name, (theory, b) in schemas().items():
        cs.append(Contract(f'C17/{name}',
                           [f'ddsmt.mutators_{theory}.'
                            f'{MUT_CLASS[name.split("[")[0]]}.filter',
                            f'ddsmt.mutators_{theory}.'
                            f'{MUT_CLASS[name.split("[")[0]]}.mutations'],
                           make_run(name, theory, b), setup=setup,
                           assumptions=A))
    return cs


def native_checks(tier):
    w = 5 if tier == 'thorough' else 4
    return [
        NativeCheck('C17/native/identities',
                    ['ddsmt.mutators_bv.BVNormalizeConstants',
                     'ddsmt.mutators_bv.BVEvalExtend',
                     'ddsmt.mutators_bv.BVExtractConstants',
                     'ddsmt.mutators_bv.BVMergeReducedBW',
                     'ddsmt.mutators_smtlib.InlineDefinedFuns',
                     'ddsmt.mutators_smtlib.LetSubstitution',
                     'ddsmt.mutators_datatypes.RemoveDatatypeIdentity',
                     'ddsmt.mutators_fp.FPShortSort',
                     'ddsmt.smtlib.get_defined_fun',
                     'ddsmt.smtlib.get_bv_constant_value'],
                    'harness/c17_native.py', [w],
                    bound=f'bit-widths <= {w}, all constants in #b / #x / '
                    '(_ bvN w), all index values, all assignments'),
    ]
