"""Assumed contracts of code outside /repo (the trusted base).

Each model states what the verifier *assumes* about a library or the OS; they
are listed in the evidence of every property that uses them.
"""
import types

import z3

from pyvc import sym, mk
from pyvc.sym import SBool, SNum, SStr, SOpt, cur, mk_bool, force
from pyvc.interp import PyRaise, Unsupported

ASSUME_SUBPROCESS = ('subprocess.Popen(argv, ...) starts exactly the program '
                     'argv[0] with arguments argv[1:]; communicate(timeout) '
                     'returns (stdout, stderr) bytes or raises TimeoutExpired '
                     'after at most timeout seconds; kill() ends the child')
ASSUME_RESOURCE = ('resource.prlimit/setrlimit install the limit given; the '
                   'kernel enforces RLIMIT_CPU / RLIMIT_AS')
ASSUME_TIME = 'time.time() is non-decreasing'
ASSUME_OPTIONS = ('options.args() returns one argparse namespace object per '
                  'process whose attributes have the types argparse gives '
                  'them (str/None, bool, float/None, int, list of str)')


def ghost(p, key, default=None):
    if key not in p.ghost:
        p.ghost[key] = [] if default is None else default
    return p.ghost[key]


# -- options ----------------------------------------------------------------


def symbolic_options(p, **fixed):
    """Namespace with every checker-related option symbolic."""
    ns = mk.Namespace(
        cmd=[mk.sstr(p, 'cmd0'), mk.sstr(p, 'cmd1')],
        cmd_cc=SOpt(p.fresh_bool('cmd_cc_is_none'),
                    [mk.sstr(p, 'cmdcc0')]),
        infile=mk.sstr(p, 'infile'),
        outfile=mk.sstr(p, 'outfile'),
        timeout=mk.opt_real(p, 'timeout'),
        timeout_cc=mk.opt_real(p, 'timeout_cc'),
        memout=mk.opt_int(p, 'memout'),
        unchecked=mk.sbool(p, 'unchecked'),
        ignore_output=mk.sbool(p, 'ignore_output'),
        ignore_out=mk.sbool(p, 'ignore_out'),
        ignore_err=mk.sbool(p, 'ignore_err'),
        match_out=mk.opt_str(p, 'match_out'),
        match_err=mk.opt_str(p, 'match_err'),
        ignore_output_cc=mk.sbool(p, 'ignore_output_cc'),
        match_out_cc=mk.opt_str(p, 'match_out_cc'),
        match_err_cc=mk.opt_str(p, 'match_err_cc'),
        jobs=1, verbosity=0, quietness=0, profile=False, check_loops=False,
        dump_diffs=False, pretty_print=False, wrap_lines=False,
        parser_test=False, strategy='hybrid',
    )
    # argparse types: timeouts are positive when given (user input is not
    # validated by ddSMT; negative values make subprocess raise)
    for k, v in fixed.items():
        setattr(ns, k, v)
    return ns


def install_options(eng, getter):
    """``options.args()`` returns ``getter()`` (a per-path namespace)."""
    eng.overrides['ddsmt.options.args'] = lambda e, *a, **k: getter()


def static_options(eng, **kw):
    ns = mk.Namespace(jobs=1, verbosity=0, quietness=0, profile=False,
                      check_loops=False, dump_diffs=False,
                      pretty_print=False, wrap_lines=False,
                      parser_test=False, strategy='hybrid', unchecked=False,
                      replace_by_variable_mode='inc')
    for k, v in kw.items():
        setattr(ns, k, v)
    install_options(eng, lambda: ns)
    return ns


# -- subprocess / resource / time ---------------------------------------------


class TimeoutExpired(Exception):
    pass


class BytesModel:
    """Bytes read from a pipe; only ``decode()`` is used by ddSMT.

    The child writes what it likes, so whether the bytes are well-formed
    UTF-8 is an input of the proof (ghost boolean ``valid_utf8_<tag>``):
    a strict decode of ill-formed bytes raises UnicodeDecodeError, the
    handlers that substitute (backslashreplace, replace, ignore, ...) return
    text for every byte string."""

    TOTAL_HANDLERS = ('backslashreplace', 'replace', 'ignore',
                      'surrogateescape', 'namereplace', 'xmlcharrefreplace')

    def __init__(self, text, tag=None):
        self.text = text
        self.tag = tag

    def decode(self, encoding='utf-8', errors='strict'):
        encoding, errors = force(encoding), force(errors)
        if not isinstance(encoding, str) or encoding.lower().replace(
                '_', '-') not in ('utf-8', 'utf8'):
            raise Unsupported(f'bytes.decode: encoding {encoding!r} is not '
                              'modelled')
        if errors == 'strict':
            p = cur()
            valid = p.fresh_bool(f'valid_utf8_{self.tag}')
            if not p.decide(valid):
                raise PyRaise(UnicodeDecodeError(
                    'utf-8', b'\xff', 0, 1, 'invalid start byte'))
            return self.text
        if errors in self.TOTAL_HANDLERS:
            return self.text
        raise Unsupported(f'bytes.decode: error handler {errors!r} is not '
                          'modelled')


class ProcModel:

    def __init__(self, p, argv, kwargs, n):
        self.argv = argv
        self.kwargs = kwargs
        self.pid = SNum(p.fresh_int(f'pid{n}'))
        p.assume(self.pid.z > 0)
        self.returncode = None
        self.killed = False
        self.n = n
        self.communicated = []

    def communicate(self, timeout=None, input=None):
        p = cur()
        self.communicated.append(timeout)
        ghost(p, 'events').append(('communicate', self.n, timeout))
        if self.killed:
            # after kill() the child is gone: communicate returns at once
            self.returncode = mk.opt_int(p, f'rc{self.n}')
            return (BytesModel(mk.sstr(p, f'out{self.n}'), f'out{self.n}'),
                    BytesModel(mk.sstr(p, f'err{self.n}'), f'err{self.n}'))
        tmo = force(timeout) if timeout is not None else None
        if tmo is not None and p.decide(p.fresh_bool(f'timed_out{self.n}')):
            ghost(p, 'events').append(('timeout', self.n))
            raise PyRaise(TimeoutExpired(self.argv, tmo))
        if tmo is None:
            ghost(p, 'events').append(('blocking-wait', self.n))
        # terminated normally or by a signal: integer return code
        self.returncode = SNum(p.fresh_int(f'rc{self.n}'))
        return (BytesModel(mk.sstr(p, f'out{self.n}'), f'out{self.n}'),
                BytesModel(mk.sstr(p, f'err{self.n}'), f'err{self.n}'))

    def kill(self):
        self.killed = True
        ghost(cur(), 'events').append(('kill', self.n))

    def wait(self, timeout=None):
        ghost(cur(), 'events').append(('wait', self.n, timeout))
        if timeout is None and not self.killed:
            ghost(cur(), 'events').append(('blocking-wait', self.n))
        self.returncode = SNum(cur().fresh_int(f'rc{self.n}'))
        return self.returncode

    def poll(self):
        return self.returncode


def subprocess_model(eng=None):
    m = ModelNS()
    m.PIPE = -1
    m.TimeoutExpired = TimeoutExpired
    m.CalledProcessError = type('CalledProcessError', (Exception, ), {})

    def Popen(argv, **kwargs):
        p = cur()
        procs = ghost(p, 'procs')
        pr = ProcModel(p, argv, kwargs, len(procs))
        procs.append(pr)
        ghost(p, 'events').append(('popen', pr.n))
        pre = kwargs.get('preexec_fn')
        if pre is not None and eng is not None:
            # runs in the child between fork and exec
            p.ghost['in_child'] = pr.n
            eng.call(pre, [], {})
            p.ghost['in_child'] = None
        return pr

    Popen._pyvc_symbolic_ok = True
    m.Popen = Popen
    return m


class ModelNS(types.SimpleNamespace):
    """Namespace of an environment model: an attribute the model does not
    define is a gap of the model ('unsupported'), not an AttributeError of
    the program under verification."""

    def __getattr__(self, name):
        if name.startswith('__') and name.endswith('__'):
            raise AttributeError(name)
        if name in self.__dict__.get('_absent', ()):
            # modelled as absent on this platform (hasattr() is False)
            raise AttributeError(name)
        raise sym.Unsupported(f'environment model has no attribute {name!r}')


def resource_model(with_prlimit=True):
    m = ModelNS()
    import resource as _real
    for nm_ in dir(_real):
        # every limit the platform knows (a limit other than the address
        # space / CPU time one does not bound what the property speaks of)
        if nm_.startswith('RLIMIT_'):
            setattr(m, nm_, nm_)
    m.RLIMIT_AS = 'RLIMIT_AS'
    m.RLIMIT_CPU = 'RLIMIT_CPU'
    m.RLIM_INFINITY = 'RLIM_INFINITY'
    if not with_prlimit:
        m._absent = ('prlimit', )

    def setrlimit(res, lim):
        p = cur()
        who = p.ghost.get('in_child')
        ghost(p, 'limits').append(
            (('child', who) if who is not None else 'self', res, lim))

    setrlimit._pyvc_symbolic_ok = True
    m.setrlimit = setrlimit
    if with_prlimit:

        def prlimit(pid, res, lim):
            ghost(cur(), 'limits').append((pid, res, lim))

        prlimit._pyvc_symbolic_ok = True
        m.prlimit = prlimit
    return m


def time_model():
    m = ModelNS()

    def time_():
        p = cur()
        t = p.fresh_real('now')
        last = p.ghost.get('last_time')
        if last is not None:
            p.assume(t >= last)
        else:
            p.assume(t >= 0)
        p.ghost['last_time'] = t
        return SNum(t)

    m.time = time_
    m.process_time = time_
    m.sleep = lambda s: None
    return m


def install_checker_env(eng, with_prlimit=True):
    eng.native_modules['subprocess'] = subprocess_model(eng)
    eng.native_modules['resource'] = resource_model(with_prlimit)
    eng.native_modules['time'] = time_model()


# -- helpers to talk about optional strings/ints in z3 --------------------------


def as_opt(v, sort='str'):
    """(is_none: z3 Bool, value: z3 term) for None / concrete / SOpt / sym."""
    if v is None:
        return z3.BoolVal(True), (z3.StringVal('') if sort == 'str'
                                  else z3.IntVal(0))
    if isinstance(v, SOpt):
        inner_none, val = as_opt(v.val, sort)
        return z3.Or(v.is_none, inner_none), val
    if isinstance(v, SStr):
        return z3.BoolVal(False), v.z
    if isinstance(v, str):
        return z3.BoolVal(False), z3.StringVal(v)
    if isinstance(v, SNum):
        return z3.BoolVal(False), v.z
    if isinstance(v, bool):
        raise Unsupported('bool where str/int expected')
    if isinstance(v, int):
        return z3.BoolVal(False), z3.IntVal(v)
    if isinstance(v, float):
        return z3.BoolVal(False), z3.RealVal(repr(v))
    raise Unsupported(f'as_opt of {type(v).__name__}')


def opt_eq(a, b, sort='str'):
    an, av = as_opt(a, sort)
    bn, bv = as_opt(b, sort)
    return z3.Or(z3.And(an, bn), z3.And(z3.Not(an), z3.Not(bn), av == bv))


def zb(v):
    """z3 Bool for a (symbolic) truth value of a bool-typed option."""
    if isinstance(v, SBool):
        return v.z
    if isinstance(v, bool):
        return z3.BoolVal(v)
    if z3.is_bool(v):
        return v
    raise Unsupported(f'zb of {type(v).__name__}')
