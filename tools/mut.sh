#!/bin/sh
# usage: tools/mut.sh <file-relative-to-repo> <sed-expr> <PROP>...   (scratch copy under /tmp/mt)
set -e
rm -rf /tmp/mt/repo; mkdir -p /tmp/mt; cp -r /repo /tmp/mt/repo
f="$1"; e="$2"; shift 2
sed -i "$e" "/tmp/mt/repo/$f"
(cd /tmp/mt/repo && git diff --stat | tail -1)
if (cd /tmp/mt/repo && git diff --quiet); then echo "NO CHANGE"; exit 9; fi
(cd /tmp/mt/repo && /venv/bin/python -m pytest -q -p no:cacheprovider -x 2>&1 | tail -1)
for p in "$@"; do (cd /verif && PYVC_REPO=/tmp/mt/repo ./check $p 2>&1 | grep -v "^  " | cut -c1-220 | head -4); done
rm -rf /tmp/mt/repo
