"""C14 -- exactly the enabled mutators are used.

Step contracts of the three option actions (arbitrary prior namespace, frame:
nothing else changes), registry obligations (distinct option destinations,
every registered class exists and has an option, so the permissive
getattr(..., True) default is never taken), get_mutators per name with a
symbolic flag, pass construction for both strategies, and automatic theory
detection per theory group.
"""
import argparse

import z3

from pyvc import mk, sym
from pyvc.api import Contract, NativeCheck, outcome
from pyvc.interp import ObjVal, PyRaise, SymDict, ClassVal
from pyvc.sym import SBool, SNum, SStr, SOpt, mk_bool, force
from . import env, nodemodel as nm

PROPERTY = 'C14'
THEORIES = ['core', 'arithmetic', 'bv', 'boolean', 'datatypes', 'fp',
            'smtlib', 'strings']


def install_argparse(eng):
    def action_init(e, self, option_strings=None, dest=None, nargs=None,
                    const=None, default=None, type=None, choices=None,
                    required=False, help=None, metavar=None):
        for k, v in (('option_strings', option_strings), ('dest', dest),
                     ('nargs', nargs), ('const', const), ('default', default),
                     ('type', type), ('choices', choices),
                     ('required', required), ('help', help),
                     ('metavar', metavar)):
            self.attrs[k] = v

    eng.native_handlers[argparse.Action.__init__] = action_init


def setup(eng):
    install_argparse(eng)
    nm.install(eng)
    eng._ns = mk.Namespace(profile=False, jobs=1, verbosity=0,
                           check_loops=False)
    env.install_options(eng, lambda: eng._ns)


def registry(eng):
    """[(theory, class name, option name)] from the real get_all_mutators."""
    mut = eng.load_module('ddsmt.mutators')
    allm = eng.call(mut.g['get_all_mutators'], [], {})
    out = []
    for th, (module, mapping) in eng.dict_items(allm):
        for cname, opt in eng.dict_items(mapping):
            out.append((th, cname, opt, module))
    return out


def dest_of(opt):
    return 'mutator_' + opt.replace('-', '_')


def sym_namespace(p, reg, fixed=None):
    ns = mk.Namespace()
    for th in THEORIES:
        setattr(ns, f'mutators_{th}',
                SOpt(p.fresh_bool(f'grp_{th}_unset'), mk.sbool(p,
                                                               f'grp_{th}')))
    for th, cname, opt, _ in reg:
        setattr(ns, dest_of(opt), mk.sbool(p, f'flag_{cname}'))
    ns.disable_all = mk.sbool(p, 'disable_all')
    ns.replace_by_variable_mode = 'inc'
    ns.profile = False
    ns.jobs = 1
    ns.verbosity = 0
    ns.check_loops = False
    for k, v in (fixed or {}).items():
        setattr(ns, k, v)
    return ns


def frame(before, ns, changed):
    """all attributes not in ``changed`` are the very same values"""
    return all(getattr(ns, k) is v for k, v in before.items()
               if k not in changed) and set(vars(ns)) == set(before)


# -- step contracts ------------------------------------------------------------------


def run_toggle_action(eng, p):
    opts = eng.load_module('ddsmt.options')
    reg = registry(eng)
    i = p.choose(len(reg), 'which_option')
    th, cname, opt, _ = reg[i]
    neg = p.choose(2, 'negated') == 1
    ns = sym_namespace(p, reg)
    before = dict(vars(ns))
    act = eng.call(opts.g['ToggleAction'], [opt], {'dest': dest_of(opt)})
    ostr = f'--no-{opt}' if neg else f'--{opt}'
    o = outcome(eng, act, [None, ns, [], ostr])
    N = 'C14/ToggleAction'
    p.oblige(f'{N}/raises-nothing', o.kind == 'return', info=repr(o))
    p.oblige(f'{N}/sets-its-destination', getattr(ns, dest_of(opt)) is
             (not neg), info={'option': ostr, 'signature':
                              'toggle option sets the wrong value'})
    p.oblige(f'{N}/frame', frame(before, ns, {dest_of(opt)}),
             info={'option': ostr, 'signature': 'toggle option changes '
                   'another option'})
    p.oblige(f'{N}/option-strings',
             act.attrs['option_strings'] == [f'--{opt}', f'--no-{opt}'])


def run_theory_action(eng, p):
    mut = eng.load_module('ddsmt.mutators')
    reg = registry(eng)
    th = THEORIES[p.choose(len(THEORIES), 'which_theory')]
    neg = p.choose(2, 'negated') == 1
    ns = sym_namespace(p, reg)
    before = dict(vars(ns))
    act = eng.call(mut.g['TheoryToggleAction'], [th, th],
                   {'default': None, 'dest': f'mutators_{th}', 'help': ''})
    ostr = f'--no-{th}' if neg else f'--{th}'
    o = outcome(eng, act, [None, ns, [], ostr])
    N = 'C14/TheoryToggleAction'
    p.oblige(f'{N}/raises-nothing', o.kind == 'return', info=repr(o))
    mine = {dest_of(opt) for t, c, opt, _ in reg if t == th}
    p.oblige(f'{N}/sets-group-and-its-mutators',
             getattr(ns, f'mutators_{th}') is (not neg) and
             all(getattr(ns, d) is (not neg) for d in mine),
             info={'option': ostr, 'signature': 'group option does not set '
                   'all mutators of its group'})
    p.oblige(f'{N}/frame', frame(before, ns, mine | {f'mutators_{th}'}),
             info={'option': ostr, 'signature': 'group option changes an '
                   'option of another group'})


def run_disable_all(eng, p):
    mut = eng.load_module('ddsmt.mutators')
    reg = registry(eng)
    ns = sym_namespace(p, reg)
    before = dict(vars(ns))
    act = eng.call(mut.g['DisableAllTheoriesAction'],
                   [['--disable-all'], 'disable_all'], {'nargs': 0})
    o = outcome(eng, act, [None, ns, [], '--disable-all'])
    N = 'C14/DisableAllTheoriesAction'
    p.oblige(f'{N}/raises-nothing', o.kind == 'return', info=repr(o))
    alld = {dest_of(opt) for t, c, opt, _ in reg} | {
        f'mutators_{t}' for t in THEORIES}
    p.oblige(f'{N}/disables-everything',
             all(getattr(ns, d) is False for d in alld) and
             ns.disable_all is True)
    p.oblige(f'{N}/frame', frame(before, ns, alld | {'disable_all'}))


# -- registry -----------------------------------------------------------------------


def run_registry(eng, p):
    mut = eng.load_module('ddsmt.mutators')
    reg = registry(eng)
    p.oblige('C14/registry/all-theories-known',
             sorted({t for t, c, o, m in reg}) == sorted(THEORIES))
    dests = [dest_of(o) for t, c, o, m in reg]
    p.oblige('C14/registry/destinations-pairwise-distinct',
             len(set(dests)) == len(dests),
             info={'dup': sorted({d for d in dests if dests.count(d) > 1}),
                   'signature': 'two mutators share one option'})
    names = [c for t, c, o, m in reg]
    p.oblige('C14/registry/class-names-pairwise-distinct',
             len(set(names)) == len(names))
    missing = [c for t, c, o, m in reg
               if not isinstance(m.g.get(c), ClassVal)]
    p.oblige('C14/registry/every-class-exists', not missing,
             info=repr(missing))
    # options registered by collect_mutator_options
    added = []

    class Group:

        def _add_action(self, a):
            added.append(a)

        def add_argument(self, *a, **k):
            added.append(('arg', a, k))

    class Parser:

        def add_argument(self, *a, **k):
            added.append(('arg', a, k))

        def add_argument_group(self, *a, **k):
            return Group()

    Group.__module__ = Parser.__module__ = 'contracts.c14'
    o = outcome(eng, mut.g['collect_mutator_options'], [Parser()])
    p.oblige('C14/collect_mutator_options/raises-nothing',
             o.kind == 'return', info=repr(o))
    reg_dests = [a.attrs['dest'] for a in added if isinstance(a, ObjVal)]
    p.oblige('C14/get_mutators/no-default',
             all(d in reg_dests for d in dests),
             info={'unregistered': [d for d in dests if d not in reg_dests],
                   'signature': 'a mutator has no registered option: the '
                   'permissive default enables it silently'})
    p.oblige('C14/registry/group-option-per-theory',
             all(f'mutators_{t}' in reg_dests for t in THEORIES))
    defaults = {a.attrs['dest']: a.attrs['default'] for a in added
                if isinstance(a, ObjVal)}
    p.oblige('C14/registry/defaults',
             all(defaults[d] is True for d in dests) and
             all(defaults[f'mutators_{t}'] is None for t in THEORIES),
             info={'signature': 'mutators are not enabled by default / '
                   'groups not unset by default'})


# -- get_mutators ------------------------------------------------------------------


def run_get_mutators(eng, p):
    mut = eng.load_module('ddsmt.mutators')
    reg = registry(eng)
    i = p.choose(len(reg), 'which')
    th, cname, opt, module = reg[i]
    ns = sym_namespace(p, reg)
    eng._ns = ns
    flag = getattr(ns, dest_of(opt))
    o = outcome(eng, mut.g['get_mutators'], [[cname]])
    N = 'C14/get_mutators'
    p.oblige(f'{N}/raises-nothing', o.kind == 'return', info=repr(o))
    if o.kind != 'return':
        return
    res = o.value
    ok = isinstance(res, list) and len(res) <= 1 and all(
        isinstance(x, ObjVal) and x.cls is module.g[cname] for x in res)
    p.oblige(f'{N}/only-instances-of-the-named-class', ok,
             info={'class': cname})
    p.oblige(f'{N}/instance-iff-enabled',
             mk_bool(flag.z == z3.BoolVal(len(res) == 1)),
             info={'class': cname, 'signature': 'mutator scheduled although '
                   'disabled (or not although enabled)'})
    # a second, different name: results are concatenated independently
    j = (i + 7) % len(reg)
    th2, cname2, opt2, module2 = reg[j]
    o2 = outcome(eng, mut.g['get_mutators'], [[cname, cname2]])
    if o2.kind == 'return':
        r2 = o2.value
        want = len(res) + 0
        p.oblige(f'{N}/list-is-concatenation',
                 [x.cls for x in r2[:len(res)]] == [x.cls for x in res] and
                 all(x.cls is module2.g[cname2] for x in r2[len(res):]) and
                 mk_bool(getattr(ns, dest_of(opt2)).z == z3.BoolVal(
                     len(r2) - len(res) == 1)))
    # unknown names are ignored (no silent default)
    o3 = outcome(eng, mut.g['get_mutators'], [['NoSuchMutator']])
    p.oblige(f'{N}/unknown-name-yields-nothing',
             o3.kind == 'return' and o3.value == [])


# -- pass construction --------------------------------------------------------------


def make_run_passes(which):

    def run(eng, p):
        reg = registry(eng)
        names = [c for t, c, o, m in reg]
        # configurations: all on, all off, exactly one off, exactly one on
        k = p.choose(2 + 2 * len(reg), 'configuration')
        ns = mk.Namespace(replace_by_variable_mode='inc', profile=False,
                          jobs=1, verbosity=0, check_loops=False)
        for t, c, o, m in reg:
            setattr(ns, dest_of(o), True)
        if k == 1:
            for t, c, o, m in reg:
                setattr(ns, dest_of(o), False)
        elif k >= 2:
            idx = (k - 2) // 2
            one_on = (k - 2) % 2 == 1
            for t, c, o, m in reg:
                setattr(ns, dest_of(o), not one_on)
            setattr(ns, dest_of(reg[idx][2]), one_on)
        eng._ns = ns
        enabled = {c for t, c, o, m in reg if getattr(ns, dest_of(o))}
        if which == 'ddmin':
            dd = eng.load_module('ddsmt.strategy_ddmin')
            o = outcome(eng, dd.g['ddmin_passes'], [])
            N = 'C14/ddmin_passes'
            p.oblige(f'{N}/raises-nothing', o.kind == 'return', info=repr(o))
            if o.kind != 'return':
                return
            st1, st2 = o.value
            cls1 = [x.cls.name for x in st1]
            cls2 = [x.cls.name for x in st2]
            used = set(cls1) | set(cls2)
            p.oblige(f'{N}/every-enabled-mutator-scheduled-except-binary-'
                     'reduction', used == enabled - {'BinaryReduction'},
                     info={'missing': sorted(enabled - {'BinaryReduction'} -
                                             used),
                           'extra': sorted(used - enabled), 'signature':
                           'ddmin pass list differs from the enabled set'})
            # no duplicates beyond the documented EraseNode(assert)
            dup = sorted({c for c in cls1 + cls2
                          if (cls1 + cls2).count(c) > 1})
            p.oblige(f'{N}/no-duplicates-beyond-EraseNode',
                     dup in ([], ['EraseNode']), info=repr(dup))
        else:
            hier = eng.load_module('ddsmt.strategy_hierarchical')
            o = outcome(eng, hier.g['get_passes'], [])
            N = 'C14/get_passes'
            p.oblige(f'{N}/raises-nothing', o.kind == 'return', info=repr(o))
            if o.kind != 'return':
                return
            passes = o.value
            last = passes[-1]
            ok = isinstance(last, list)
            used = [x.cls.name for x in last] if ok else []
            p.oblige(f'{N}/last-pass-is-exactly-the-enabled-set',
                     ok and set(used) == enabled,
                     info={'missing': sorted(enabled - set(used)),
                           'extra': sorted(set(used) - enabled),
                           'signature': 'last hierarchical pass differs from '
                           'the enabled set'})
            # C02: the pass whose fixed point is returned has every enabled
            # mutator (so "fixed point of the last pass" is "of all of them")
            p.oblige('C02/get_passes/last-pass-contains-every-enabled-mutator',
                     ok and enabled <= set(used),
                     info={'missing': sorted(enabled - set(used)),
                           'signature': 'an enabled mutator is not part of '
                           'the final fixed-point pass'})

            # C02 speaks of what an enabled mutator *proposes*: an instance
            # set up differently (BinaryReduction with ident='assert')
            # proposes other simplifications than the plain one, so the pass
            # whose fixed point is returned has to hold every configuration
            # that any pass uses - class and attributes set on the instance
            def config(x):
                return (x.cls.name, tuple(sorted(
                    (k, repr(force(v))) for k, v in x.attrs.items())))

            last_cfg = {config(x) for x in last} if ok else set()
            all_cfg = set()
            for ps in passes:
                ms = ps[0] if isinstance(ps, tuple) else ps
                all_cfg |= {config(x) for x in ms}
            p.oblige('C02/get_passes/last-pass-contains-every-mutator-'
                     'configuration', ok and all_cfg <= last_cfg,
                     info={'missing': sorted(map(repr, all_cfg - last_cfg)),
                           'signature': 'a mutator configuration of an '
                           'earlier pass is not part of the final '
                           'fixed-point pass: ' +
                           repr(sorted(map(repr, all_cfg - last_cfg)))})
            # (the plain instance of every enabled mutator is there too)
            p.oblige(f'{N}/last-pass-has-the-plain-instance-of-every-mutator',
                     ok and {(c, ()) for c in enabled} <= last_cfg)
            everything = set()
            for ps in passes:
                ms = ps[0] if isinstance(ps, tuple) else ps
                everything |= {x.cls.name for x in ms}
            p.oblige(f'{N}/no-pass-uses-a-disabled-mutator',
                     everything <= enabled,
                     info={'extra': sorted(everything - enabled)})

    return run


# -- automatic theory detection -----------------------------------------------------


def make_run_detect(theory):

    def run(eng, p):
        mut = eng.load_module('ddsmt.mutators')
        reg = registry(eng)
        ns = sym_namespace(p, reg)
        # every other group was set explicitly by the user
        for t in THEORIES:
            if t != theory:
                setattr(ns, f'mutators_{t}', mk.sbool(p, f'user_{t}'))
        eng._ns = ns
        before = dict(vars(ns))
        nodes_ = [nm.mk_node(eng, 'declare-const', 'x', 'S'),
                  nm.mk_node(eng, 'assert', 'x')]
        module = [m for t, c, o, m in reg if t == theory][0]
        has_rel = 'is_relevant' in module.g
        verdicts = []

        def is_relevant(e, node):
            v = mk.sbool(p, f'relevant_{len(verdicts)}')
            verdicts.append((node, v))
            return v

        if has_rel:
            eng.overrides[f'ddsmt.mutators_{theory}.is_relevant'] = \
                is_relevant
        o = outcome(eng, mut.g['auto_detect_theories'], [nodes_])
        N = f'C14/auto_detect_theories[{theory}]'
        p.oblige(f'{N}/raises-nothing', o.kind == 'return', info=repr(o))
        if o.kind != 'return':
            return
        grp = before[f'mutators_{theory}']
        mine = {dest_of(opt) for t, c, opt, _ in reg if t == theory}
        changed = {k for k, v in before.items() if getattr(ns, k) is not v}
        disabled = bool(changed)
        p.oblige(f'{N}/frame-other-groups-untouched',
                 changed <= mine | {f'mutators_{theory}'})
        if disabled:
            p.oblige(f'{N}/disable-sets-the-whole-group',
                     all(getattr(ns, d) is False for d in mine) and
                     getattr(ns, f'mutators_{theory}') is False)
            # may disable only if the user did not set the group and the
            # input declares nothing of the theory
            p.oblige(f'{N}/disables-only-if-unset-and-irrelevant',
                     has_rel and mk_bool(z3.And(
                         grp.is_none,
                         *[z3.Not(v.z) for _, v in verdicts])) and
                     [n for n, _ in verdicts] == nodes_,
                     info={'signature': 'theory disabled although set by '
                           'the user or relevant for the input'})
        else:
            p.oblige(f'{N}/keeps-if-set-or-relevant-or-undetectable',
                     (not has_rel) or mk_bool(z3.Or(
                         z3.Not(grp.is_none),
                         *[v.z for _, v in verdicts])),
                     info={'signature': 'irrelevant, unset theory was not '
                           'disabled'})

    return run


def contracts(tier):
    A = [env.ASSUME_OPTIONS,
         'argparse calls the actions left to right with option_string set '
         '(so the value of an option is the one written by the last option '
         'touching it: induction over the step contracts)',
         'argparse.Action.__init__ modelled: stores its arguments']
    cs = [
        Contract('C14/ToggleAction', ['ddsmt.options.ToggleAction.__call__',
                                      'ddsmt.options.ToggleAction._get_value'],
                 run_toggle_action, setup=setup, assumptions=A),
        Contract('C14/TheoryToggleAction',
                 ['ddsmt.mutators.TheoryToggleAction.__call__',
                  'ddsmt.mutators.toggle_theory'], run_theory_action,
                 setup=setup, assumptions=A),
        Contract('C14/DisableAllTheoriesAction',
                 ['ddsmt.mutators.DisableAllTheoriesAction.__call__',
                  'ddsmt.mutators.toggle_all_theories'], run_disable_all,
                 setup=setup, assumptions=A),
        Contract('C14/registry', ['ddsmt.mutators.get_all_mutators',
                                  'ddsmt.mutators.collect_mutator_options'],
                 run_registry, setup=setup, assumptions=A),
        Contract('C14/get_mutators', ['ddsmt.mutators.get_mutators'],
                 run_get_mutators, setup=setup, assumptions=A),
        Contract('C14/ddmin_passes', ['ddsmt.strategy_ddmin.ddmin_passes',
                                      'ddsmt.mutators.get_initialized_mutator'
                                      ], make_run_passes('ddmin'),
                 setup=setup, tier='S',
                 bound='configurations: all on, all off, each single '
                 'mutator off, each single mutator on (flags act '
                 'independently by C14/get_mutators)', assumptions=A),
        Contract('C14/get_passes',
                 ['ddsmt.strategy_hierarchical.get_passes'],
                 make_run_passes('hier'), setup=setup, tier='S',
                 bound='configurations: all on, all off, each single '
                 'mutator off, each single mutator on', assumptions=A),
    ]
    for th in THEORIES:
        cs.append(
            Contract(f'C14/auto_detect_theories[{th}]',
                     ['ddsmt.mutators.auto_detect_theories'],
                     make_run_detect(th), setup=setup,
                     assumptions=A + ['is_relevant abstracted (arbitrary '
                                      'verdict per top-level node); input: '
                                      'two top-level nodes']))
    # theory detection: 'not relevant' only after every sort position of a
    # declaring command was searched (obligations C14/mutators_*.is_relevant/*
    # in the contracts that also prove exception freedom for C04)
    from . import c04
    cs += c04.is_relevant_contracts(tier)
    return cs


def native_checks(tier):
    n = 2000 if tier == 'thorough' else 200
    return [
        NativeCheck('C14/native/options',
                    ['ddsmt.options.parse_options',
                     'ddsmt.mutators.auto_detect_theories',
                     'ddsmt.strategy_ddmin.ddmin_passes',
                     'ddsmt.strategy_hierarchical.get_passes'],
                    'harness/c14_native.py', [n],
                    bound=f'all single options, 182 ordered pairs, {n} '
                    'random sequences (VERIF_SEED) through the real argparse '
                    'set-up'),
    ]
