#!/usr/bin/env python3
"""Evaluate every completed seed under /tmp/wt/<ID>/_seed/<V>; keep confirmed ones under /verif/seeded/."""
import json, os, shutil, subprocess, sys
BASE = os.environ.get('SEED_BASE', '/tmp/wt')
SUFFIX = os.environ.get('SEED_SUFFIX', '')
ids = sys.argv[1:]
rows = []
for pid in ids:
    for v in sorted(os.listdir(f'{BASE}/{pid}/_seed')) if os.path.isdir(f'{BASE}/{pid}/_seed') else []:
        d = f'{BASE}/{pid}/_seed/{v}'
        if not os.path.exists(d + '/meta.json') or not os.path.exists(d + '/patch.diff'):
            continue
        r = json.loads(subprocess.run(['python3', '/verif/tools/seed_eval.py', d], capture_output=True, text=True).stdout)
        ok = r.get('demo_clean') == 0 and r.get('applies') and '117 passed' in r.get('tests', '') and r.get('demo_patched') not in (0, None)
        chk = r.get('checks', {}).get(pid, {})
        rows.append((pid, v, ok, chk.get('exit'), [l for l in chk.get('lines', []) if l.startswith('VIOLATION')][:2]))
        if ok:
            dst = f'/verif/seeded/{pid}-{v}{SUFFIX}'
            os.makedirs(dst, exist_ok=True)
            for f in os.listdir(d):
                shutil.copy(os.path.join(d, f), dst)
            m = json.load(open(dst + '/meta.json'))
            m['confirmed'] = {'demo_on_unchanged_tree_exit': r['demo_clean'], 'patch_applies': True, 'unit_tests': r['tests'], 'demo_on_changed_tree_exit': r['demo_patched'],
                              'how': 'tools/seed_eval.py on a scratch copy of /repo'}
            m['check_result'] = {'exit': chk.get('exit'), 'lines': chk.get('lines')}
            json.dump(m, open(dst + '/meta.json', 'w'), indent=1)
for row in rows:
    print(row[0], row[1], 'confirmed' if row[2] else 'NOT-CONFIRMED', 'check-exit', row[3], [l.split('replay=')[-1].split('/')[-1][:90] for l in row[4]])
