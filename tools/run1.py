#!/usr/bin/env python3-vt
"""Debug: run one contract in-process and print every obligation result."""
import sys, time
sys.path.insert(0, '/verif'); sys.setrecursionlimit(20000)
from pyvc import api, verify
modname, cname = sys.argv[1], sys.argv[2]
tier = sys.argv[3] if len(sys.argv) > 3 else 'quick'
t0 = time.time()
pk = api._run_contract((modname, cname, tier))
print('paths', pk['paths'], 'cut', pk['aborted_paths'], 'sec', round(pk['seconds'], 2), 'solver', round(pk['solver_seconds'], 2), 'canaries', pk['canaries_refuted'], '/', pk['canaries'])
print('unsupported', pk['unsupported'][:5]); print('bounded', pk['bounded_reasons'])
if pk['crash']: print(pk['crash'])
from collections import Counter
c = Counter((r['name'], r['status']) for r in pk['results'])
for k, v in sorted(c.items()): print(v, k)
slow = sorted(pk['results'], key=lambda r: -r['seconds'])[:5]
for r in slow: print('slow', r['name'], r['seconds'], r['status'])
for r in pk['results']:
    if r['status'] != 'proved':
        print('NOT PROVED', r['name'], r['status'], r['detail'], r['model']); break
