"""C06 -- the output file is a complete accepted input at every instant.

Contract on nodeio.write_smtlib_to_file over a ghost file system: after
*every* file-system effect of the function (each is a point where a kill, an
interrupt or a concurrent reader can fall) the content visible under the
output path is either the old content or the complete new rendering.
Callers guarantee (C01/C05 invariants) that the old content is an accepted
input from the first write on.  Interrupt handling: the handlers of
__main__.main perform no file-system write; the temporary directory object is
owned by a module global that is never rebound; no os._exit in the sources.
"""
import ast
import os
import types

import z3

from pyvc import mk, sym
from pyvc.api import Contract, NativeCheck, outcome
from pyvc.interp import PyRaise
from pyvc.sym import cur
from . import env, nodemodel as nm

PROPERTY = 'C06'


class GhostFS:
    """path -> content; every effect is recorded with the content visible
    under each path right after it."""

    def __init__(self, initial):
        self.files = dict(initial)
        self.history = []  # (event, snapshot dict)

    def snap(self, event):
        self.history.append((event, dict(self.files)))


class FileObj:

    def __init__(self, fs, path, mode):
        self.fs, self.path, self.mode = fs, path, mode
        self.closed = False
        if 'w' in mode:
            fs.files[path] = ''
            fs.snap(('open-truncate', path))
        elif 'r' in mode and path not in fs.files:
            raise PyRaise(FileNotFoundError(path))

    def write(self, s):
        if self.closed:
            raise PyRaise(ValueError('I/O operation on closed file'))
        # unbuffered model: every write may already be visible
        self.fs.files[self.path] = self.fs.files.get(self.path, '') + s
        self.fs.snap(('write', self.path))
        return 0

    def read(self):
        return self.fs.files[self.path]

    def close(self):
        self.closed = True

    def flush(self):
        pass

    def fileno(self):
        return 3

    def __enter__(self):
        return self

    def __exit__(self, *a):
        self.close()
        return False


FileObj.__module__ = 'contracts.c06'


def install_fs(eng, fs_holder):
    real_os = os

    def fs():
        return fs_holder['fs']

    def open_(e, path, mode='r', *a, **k):
        return FileObj(fs(), path, mode)

    eng.native_handlers[open] = open_
    osm = env.ModelNS()

    def replace(a, b):
        f = fs()
        if a not in f.files:
            raise PyRaise(FileNotFoundError(a))
        f.files[b] = f.files.pop(a)  # atomic (POSIX rename)
        f.snap(('replace', a, b))

    def unlink(a):
        f = fs()
        if a not in f.files:
            raise PyRaise(FileNotFoundError(a))
        del f.files[a]
        f.snap(('unlink', a))

    def fsync(fd):
        pass

    osm.replace = replace
    osm.rename = replace
    osm.unlink = unlink
    osm.remove = unlink
    osm.fsync = fsync
    osm.getpid = lambda: 4242
    osm.path = real_os.path
    osm.fdopen = lambda fd, mode='r', *a, **k: fd if isinstance(
        fd, FileObj) else (_ for _ in ()).throw(
            sym.Unsupported('os.fdopen of a real descriptor'))
    osm.O_WRONLY, osm.O_CREAT, osm.O_EXCL = 1, 64, 128
    eng.native_modules['os'] = osm
    tf = env.ModelNS()

    def mkstemp(suffix='', prefix='tmp', dir=None, text=False):
        name = real_os.path.join(dir or '/tmp', prefix + 'XXXX' + suffix)
        fo = FileObj(fs(), name, 'w')
        return fo, name

    class NamedTemporaryFile(FileObj):

        def __init__(self, mode='w', dir=None, prefix='tmp', suffix='',
                     delete=True, **k):
            name = real_os.path.join(dir or '/tmp', prefix + 'XXXX' + suffix)
            FileObj.__init__(self, fs(), name, mode)
            self.name = name

    NamedTemporaryFile.__module__ = 'contracts.c06'
    tf.mkstemp = mkstemp
    tf.NamedTemporaryFile = NamedTemporaryFile
    eng.native_modules['tempfile'] = tf


def setup_write(eng):
    eng._fs = {}
    eng._ns = env.static_options(eng)
    install_fs(eng, eng._fs)
    nm.install(eng)


def make_run_write(mode):

    def run(eng, p):
        eng._ns.pretty_print = mode == 'pretty'
        eng._ns.wrap_lines = mode == 'wrap'
        eng.modules.pop('ddsmt.nodeio', None)
        nodeio = eng.load_module('ddsmt.nodeio')
        out_path = '/work/out.smt2'
        old = '(old accepted input)\n'
        existed = p.decide(p.fresh_bool('output_file_exists'))
        fs = GhostFS({out_path: old} if existed else {})
        fs.files['/work/in.smt2'] = '(input)\n'
        eng._fs['fs'] = fs
        exprs = [nm.mk_node(eng, 'assert', nm.mk_node(eng, 'f', 'x', 'y')),
                 nm.mk_node(eng, 'check-sat')]
        # the complete rendering, by the same renderer into a string
        want = eng.call(nodeio.g['write_smtlib_to_str'], [exprs], {})
        fs.history.clear()
        o = outcome(eng, nodeio.g['write_smtlib_to_file'], [out_path, exprs])
        N = f'C06/write_smtlib_to_file[{mode}]'
        p.oblige(f'{N}/raises-nothing', o.kind == 'return', info=repr(o))
        p.oblige(f'{N}/post-file-holds-the-rendering',
                 fs.files.get(out_path) == want,
                 info=repr(fs.files.get(out_path)))
        bad = [(ev, snap.get(out_path)) for ev, snap in fs.history
               if snap.get(out_path) not in
               ((old, want) if existed else (None, want))]
        p.oblige(f'{N}/crash-point-invariant', not bad,
                 info={'first_bad_state': repr(bad[:1]), 'signature':
                       'output file observable empty/partial during a '
                       'write'})
        p.oblige(f'{N}/frame-input-untouched',
                 all(snap.get('/work/in.smt2') == '(input)\n'
                     for _, snap in fs.history))
        others = {k for _, snap in fs.history for k in snap
                  if k not in (out_path, '/work/in.smt2')}
        p.oblige(f'{N}/frame-only-a-sibling-temporary',
                 all(os.path.dirname(k) == '/work' for k in others) and
                 not (set(fs.files) - {out_path, '/work/in.smt2'}),
                 info={'files': sorted(fs.files), 'signature':
                       'temporary file left behind or outside the output '
                       'directory (rename would not be atomic)'})

    return run


WRITE_REPLAY = """
import sys, os, tempfile, builtins, io
from harness import replaylib as R
R.init_ddsmt()
from ddsmt import nodeio
d = tempfile.mkdtemp(prefix='c06-')
out = os.path.join(d, 'out.smt2')
old = '(old accepted input)\\n'
exprs = list(nodeio.parse_smtlib('(assert (f x y))\\n(check-sat)\\n'))
want = nodeio.write_smtlib_to_str(exprs)
real_open = builtins.open
bad = None
for n in range(1, 40):
    real_open(out, 'w').write(old)
    count = [0]
    class F(io.TextIOWrapper):
        def write(self, s):
            count[0] += 1
            if count[0] == n:
                self.flush()
                raise KeyboardInterrupt
            r = super().write(s); self.flush(); return r
    def fake_open(path, mode='r', *a, **k):
        if 'w' in mode:
            return F(io.FileIO(path, 'w'), write_through=True)
        return real_open(path, mode, *a, **k)
    builtins.open = fake_open
    try:
        try:
            nodeio.write_smtlib_to_file(out, exprs)
        except KeyboardInterrupt:
            pass
    finally:
        builtins.open = real_open
    got = real_open(out).read()
    if got not in (old, want):
        bad = (n, got)
        break
    if count[0] < n:
        break
import shutil; shutil.rmtree(d, ignore_errors=True)
if bad:
    print('interrupt at low-level write #%d leaves the output file as %r' % bad)
    sys.exit(1)
print('output file was old or complete after every injected interrupt')
sys.exit(0)
"""


# -- interrupt handling ------------------------------------------------------------


def setup_main(eng):
    eng._fs = {'fs': GhostFS({})}
    env.static_options(eng, profile=False)
    install_fs(eng, eng._fs)


def run_main_interrupt(eng, p):
    cli = eng.load_module('ddsmt.cli')
    main = eng.load_module('ddsmt.__main__')
    fs = GhostFS({'/work/out.smt2': '(last accepted)\n',
                  '/work/in.smt2': '(input)\n'})
    eng._fs['fs'] = fs
    k = p.choose(2, 'ending')

    def ddsmt_main(e):
        raise PyRaise(KeyboardInterrupt() if k == 0 else MemoryError())

    eng.overrides['ddsmt.cli.ddsmt_main'] = ddsmt_main
    o = outcome(eng, main.g['main'], [])
    p.oblige('C06/__main__.main/handlers-perform-no-file-write',
             o.kind == 'return' and not fs.history and
             fs.files['/work/out.smt2'] == '(last accepted)\n' and
             fs.files['/work/in.smt2'] == '(input)\n',
             info=repr((o, fs.history)))


def run_static(eng, p):
    """Syntactic frame obligations over the sources of /repo."""
    findings = []
    rebinds = []
    writers = []
    srcdir = os.path.join(eng.repo, 'ddsmt')
    for fn in sorted(os.listdir(srcdir)):
        if not fn.endswith('.py'):
            continue
        path = os.path.join(srcdir, fn)
        tree = ast.parse(open(path).read())
        for node in ast.walk(tree):
            if isinstance(node, ast.Attribute) and node.attr == '_exit':
                findings.append(f'{fn}:{node.lineno}')
            if fn == 'tmpfiles.py' and isinstance(node, ast.Assign):
                for t in node.targets:
                    if isinstance(t, ast.Name) and t.id == '__TMPDIR':
                        rebinds.append(node.lineno)
            if fn == 'tmpfiles.py' and isinstance(node, ast.Delete):
                rebinds.append(node.lineno)
            if isinstance(node, ast.Call):
                f = node.func
                name = f.id if isinstance(f, ast.Name) else (
                    f.attr if isinstance(f, ast.Attribute) else '')
                if name == 'open' and len(node.args) >= 2 and isinstance(
                        node.args[1], ast.Constant) and \
                        'w' in str(node.args[1].value):
                    writers.append((fn, ast.unparse(node.args[0])))
                if name in ('copy', 'copyfile', 'move') and fn != \
                        'tmpfiles.py':
                    writers.append((fn, ast.unparse(node)))
    p.oblige('C06/static/no-os._exit-in-sources', not findings,
             info=repr(findings))
    # module-level `__TMPDIR = None` and the assignment in init() only
    p.oblige('C06/static/tmpdir-object-owned-by-module-global',
             len(rebinds) == 2, info=repr(rebinds))
    allowed = {('nodeio.py', 'filename'), ('nodeio.py', 'tmpname'),
               ('debug_utils.py', "f'.simp-{__DIFF_ID}.diff'")}
    p.oblige('C06/static/write-opens-only-on-known-paths',
             set(writers) <= allowed,
             info={'writers': repr(sorted(set(writers) - allowed)),
                   'signature': 'a new place opens a file for writing'})


def contracts(tier):
    A = ['POSIX: rename()/os.replace is atomic within a directory; every '
         'write() may become visible at once (unbuffered model); '
         'tempfile.TemporaryDirectory removes the directory when the object '
         'is finalised at interpreter exit; signals that interrupt '
         'multiprocessing internals do not leave children writing the output '
         '(workers never write it: C01/C05 frame)']
    cs = [
        Contract(f'C06/write_smtlib_to_file[{m}]',
                 ['ddsmt.nodeio.write_smtlib_to_file',
                  'ddsmt.nodeio.write_smtlib'], make_run_write(m),
                 setup=setup_write, assumptions=A,
                 replay=lambda n, mo, d: {'script': WRITE_REPLAY})
        for m in ('default', 'pretty', 'wrap')
    ]
    cs.append(Contract('C06/__main__.main', ['ddsmt.__main__.main'],
                       run_main_interrupt, setup=setup_main, assumptions=A))
    cs.append(Contract('C06/static', ['ddsmt.tmpfiles.init'], run_static,
                       assumptions=A))
    # "after an interrupt it holds the last accepted input": at every point
    # of the strategies' result loops what was last written is the current
    # input (invariant conjuncts labelled C01+C06 in contracts/strategies.py)
    from . import strategies
    cs += strategies.all_contracts(tier)
    return cs


def native_checks(tier):
    return [
        NativeCheck('C06/native/interrupt-injection',
                    ['ddsmt.nodeio.write_smtlib_to_file'],
                    'harness/c06_native.py', [],
                    bound='KeyboardInterrupt injected at every low-level '
                    'write of 3 inputs x 3 output modes; concurrent reader '
                    'polling during 200 rewrites'),
    ]
