"""Bounded stand-in / replay vehicle for C16: a typed term generator built on
the same typing table (contracts/typing_table.py).  Runs under python3-vt
(ddSMT is pure standard library).  For every schema, every small assignment
of widths / indices and every choice of operand kind -- a declared variable,
or that variable under an annotation, whose sort ddSMT cannot infer --
the real collect_information + get_sort + get_bv_width are run on a
well-sorted script and compared with the table.

usage: c16_native.py <max_int_choices>
"""
import itertools
import os
import sys

ARGS = sys.argv[1:]
REPO = os.environ.get('PYVC_REPO', '/repo')
sys.path.insert(0, REPO)
sys.argv = ['ddsmt', 'in.smt2', 'out.smt2', 'cmd']
from harness.bounded import Recorder  # noqa: E402
from contracts.typing_table import table, leaf_table, width_of  # noqa: E402
from ddsmt import smtlib, nodeio, options  # noqa: E402
from ddsmt.nodes import Node  # noqa: E402

options.args()


OPAQUE = {'n': 0, 'unknown': 0}


class Retry(Exception):
    pass


class NCtx:
    """Concrete context: integers from ``ints`` (in order), operand kinds
    from ``kinds``."""

    def __init__(self, ints, kinds):
        self.ints = list(ints)
        self.kinds = list(kinds)
        self.decls = []
        self.nvars = 0
        self.used_ints = 0
        self.used_ops = 0
        self.sort_decls = set()
        self.opaque = []

    def fresh_pos(self, name, lo=1):
        if self.used_ints >= len(self.ints):
            raise Retry('ints')
        v = lo + self.ints[self.used_ints]
        self.used_ints += 1
        return v

    def require(self, *conds):
        if not all(conds):
            raise Retry('require')

    def product(self, a, b):
        return a * b

    def numeral(self, v):
        return str(v)

    plain_numeral = numeral

    def leaf(self, text):
        return text

    def bvtext(self, v):
        return f'bv{v}'

    def node(self, *kids):
        return list(kids)

    def Bool(self):
        return ('Bool', )

    def Int(self):
        return ('Int', )

    def Real(self):
        return ('Real', )

    def String(self):
        return ('String', )

    def RM(self):
        return ('RoundingMode', )

    def RegLan(self):
        return ('RegLan', )

    def BV(self, w):
        return ('BV', w)

    def FP(self, e, s):
        return ('FP', e, s)

    def Array(self, i, e):
        return ('Array', i, e)

    def Alpha(self, name):
        u = f'U{len(self.sort_decls) + 1}'
        self.sort_decls.add(u)
        self.decls.append(['declare-sort', u, '0'])
        return ('alpha', u)

    def sort_node(self, s):
        k = s[0]
        if k in ('Bool', 'Int', 'Real', 'String', 'RoundingMode', 'RegLan'):
            return k
        if k == 'BV':
            return ['_', 'BitVec', str(s[1])]
        if k == 'FP':
            return ['_', 'FloatingPoint', str(s[1]), str(s[2])]
        if k == 'Array':
            return ['Array', self.sort_node(s[1]), self.sort_node(s[2])]
        return s[1]

    def declare(self, name, sort):
        self.decls.append(['declare-const', name, self.sort_node(sort)])
        return name

    def operand(self, sort, name=None):
        if self.used_ops >= len(self.kinds):
            raise Retry('kinds')
        kind = self.kinds[self.used_ops]
        self.used_ops += 1
        self.nvars += 1
        v = f'v{self.nvars}'
        self.decls.append(['declare-const', v, self.sort_node(sort)])
        if kind == 'var':
            return v
        # a well-sorted term of this sort that ddSMT cannot type: the
        # variable under an annotation (an application of a declared
        # function no longer is one - its declaration is consulted)
        t = ['!', v, ':named', f'n{self.nvars}']
        self.opaque.append(t)
        return t


def build(pl):
    if isinstance(pl, str):
        return Node(pl)
    return Node(*[build(c) for c in pl])


def plain(n):
    return n.data if n.is_leaf() else [plain(c) for c in n.data]


def sexpr(pl):
    return pl if isinstance(pl, str) else '(' + ' '.join(
        sexpr(c) for c in pl) + ')'


def names_outside_the_theories():
    """Operator names the real get_sort / get_bv_width tables mention that
    are not symbols of any theory C16 lists (read off the source, compared
    with the typing table): a well-sorted input may declare them itself."""
    import ast
    import re
    src = open(os.path.join(REPO, 'ddsmt', 'smtlib.py')).read()
    consts = set()
    for fn in ast.parse(src).body:
        if isinstance(fn, ast.FunctionDef) and fn.name in (
                '_get_sort_aux', 'get_bv_width'):
            for n in ast.walk(fn):
                if isinstance(n, ast.Constant) and isinstance(n.value, str):
                    consts.add(n.value)
    theory = {re.sub(r'(/[0-9]+)?(\[.*\])?$', '', k)
              for k in {**table(), **leaf_table()}}
    theory |= {'ite', 'to_fp', '>=', 'true', 'false', 'Bool', 'Int', 'Real',
               'String', 'BitVec', 'FloatingPoint', 'Array', 'RoundingMode',
               'RegLan', '_', 'let', 'forall', 'exists'}
    simple = re.compile(r'^[A-Za-z~!@$%^&*_+=<>.?/-][A-Za-z0-9~!@$%^&*_+=<>.?/-]*$')
    return sorted(c for c in consts - theory if simple.match(c))


def check_user_functions(rec):
    """A function the input declares itself under a name that ddSMT's
    operator tables know from elsewhere: the declaration decides."""
    B4 = ['_', 'BitVec', '4']
    B3 = ['_', 'BitVec', '3']
    sigs = [(['Int', 'Int'], 'Int'), (['Int'], 'Bool'), (['Int', 'Int'],
            'Bool'), ([B4, B4], 'Bool'), ([B4, B4], B3), (['Int'], B3),
            (['Bool', 'Bool'], 'Real')]
    for name in names_outside_the_theories():
        for args, res in sigs:
            decls = [['declare-fun', name, args, res]]
            ops = []
            for i, a in enumerate(args):
                decls.append(['declare-const', f'v{i}', a])
                ops.append(f'v{i}')
            term = [name] + ops
            script = decls + [['define-fun', 'the-term', [], res, term]]
            exprs = [build(x) for x in script]
            tnode = exprs[-1][4]
            smtlib.collect_information(exprs)
            case = {'declared-name': name, 'script': ' '.join(
                sexpr(x) for x in script)}
            rec.case(('user-fun', name, sexpr(args), sexpr(res)), case)
            N = f'C16/native/declared-function[{name}]'
            try:
                got = smtlib.get_sort(tnode)
                gw = smtlib.get_bv_width(tnode)
            except Exception as e:  # noqa
                rec.violation(f'{N}/raises-nothing', case,
                              f'{type(e).__name__}: {e}')
                continue
            if got is not None and plain(got) != res:
                rec.violation(f'{N}/sort-unknown-or-right', case,
                              f'get_sort gives {sexpr(plain(got))}, the '
                              f'input declares {name} with result sort '
                              f'{sexpr(res)}')
            w = int(res[2]) if isinstance(res, list) else None
            if gw != -1 and gw != w:
                rec.violation(f'{N}/width-unknown-or-right', case,
                              f'get_bv_width gives {gw}, the input declares '
                              f'{name} with result sort {sexpr(res)}')


def check_replacement_variables(rec):
    """C16, second sentence: a replacement by an existing variable 'of the
    same sort' is well-sorted.  A symbol that takes arguments is no variable:
    its bare name is not a term, whatever its result sort."""
    from ddsmt import mutators_core
    B4 = ['_', 'BitVec', '4']
    for S, args, other in (('Int', ['Int'], '0'), ('Bool', ['Int', 'Int'],
                           'true'), (B4, [B4], '#x0'), ('Real', ['Bool'],
                                                         '1.5')):
        script = [['declare-fun', 'fn', args, S],
                  ['define-fun', 'dfn', [['p', a] for a in args][:1], S,
                   other],
                  ['declare-const', 'va', S], ['declare-const', 'vb', S],
                  ['declare-fun', 'nullary', [], S],
                  ['assert', ['=', 'va', ['ite', 'true', 'vb', 'va']]]]
        exprs = [build(x) for x in script]
        smtlib.collect_information(exprs)
        target = exprs[-1][1][2]  # (ite true vb va): sort S
        m = mutators_core.ReplaceByVariable()
        case = {'script': ' '.join(sexpr(x) for x in script),
                'node': sexpr(plain(target))}
        rec.case(('replace-by-variable', sexpr(S)), case)
        try:
            props = list(m.mutations(target)) if m.filter(target) else []
        except Exception as e:  # noqa
            rec.violation('C16/native/replace-by-variable/raises-nothing',
                          case, f'{type(e).__name__}: {e}')
            continue
        got = [plain(r) for p in props for r in p.substs.values()]
        bad = [g for g in got if g in ('fn', 'dfn')]
        if bad:
            rec.violation(
                'C16/native/replace-by-variable/replacement-is-a-variable',
                case, f'a term of sort {sexpr(S)} is replaced by the bare '
                f'name of a function that takes arguments: {bad}')
        if 'vb' not in got and 'va' not in got:
            rec.violation('C16/native/replace-by-variable/vacuous', case,
                          f'no variable proposed at all: {got}')


def main():
    nint = int(ARGS[0])
    rec = Recorder('C16/native/typed-terms',
                   f'every schema of the typing table, widths/indices from '
                   f'{nint} small values each, every operand either a '
                   'declared variable or an application of unknown sort')
    schemas = {**table(), **leaf_table()}
    for name, builder in schemas.items():
        done = set()
        for ints in itertools.product(range(nint), repeat=4):
            for kinds in itertools.product(('var', 'opaque'), repeat=4):
                c = NCtx(ints, kinds)
                try:
                    term, want = builder(c)
                except Retry:
                    continue
                key = (tuple(ints[:c.used_ints]), tuple(kinds[:c.used_ops]))
                if key in done:
                    continue
                done.add(key)
                sn = c.sort_node(want)
                script = c.decls + [['define-fun', 'the-term', [], sn, term]]
                exprs = [build(x) for x in script]
                tnode = exprs[-1][4]
                smtlib.collect_information(exprs)
                case = {'schema': name, 'script': ' '.join(
                    sexpr(x) for x in script)}
                rec.case((name, key), case)
                for t in c.opaque:
                    # vacuity guard: the 'unknown' paths are only exercised
                    # if these operands really are of unknown sort
                    OPAQUE['n'] += 1
                    if smtlib.get_sort(build(t)) is None:
                        OPAQUE['unknown'] += 1
                try:
                    got = smtlib.get_sort(tnode)
                    gw = smtlib.get_bv_width(tnode)
                except Exception as e:  # noqa
                    rec.violation(f'C16/native/{name}/raises-nothing', case,
                                  f'{type(e).__name__}: {e}')
                    continue
                if got is not None and plain(got) != sn:
                    rec.violation(
                        f'C16/native/{name}/sort-unknown-or-right', case,
                        f'get_sort gives {sexpr(plain(got))}, the term has '
                        f'sort {sexpr(sn)}')
                w = width_of(want)
                if gw != -1 and gw != w:
                    rec.violation(
                        f'C16/native/{name}/width-unknown-or-right', case,
                        f'get_bv_width gives {gw}, the term has '
                        + (f'width {w}' if w is not None else
                           'no bit-vector sort'))
    check_datatypes(rec)
    check_user_functions(rec)
    check_replacement_variables(rec)
    if OPAQUE['n'] == 0 or OPAQUE['unknown'] != OPAQUE['n']:
        # not a property violation: the harness lost its unknown operands
        print(f'CHECKER-PROBLEM: {OPAQUE["unknown"]} of {OPAQUE["n"]} opaque '
              'operands are of unknown sort to ddSMT', file=sys.stderr)
        sys.exit(3)
    rec.finish()


DATATYPE_SCRIPTS = [
    [['declare-datatype', 'Pair', [['mk', ['fst', 'Int'], ['snd', 'Bool']],
                                   ['nil']]]],
    [['declare-datatypes', [['Color', '0'], ['Shape', '0']],
      [[['red'], ['green']],
       [['circle', ['radius', 'Int']],
        ['rect', ['width', 'Int'], ['height', 'Int']], ['dot']]]]],
    [['declare-datatypes', [['A', '0'], ['B', '0'], ['C', '0']],
      [[['a1', ['s1', 'Int'], ['s2', 'Int'], ['s3', 'Int']], ['a2']],
       [['b1'], ['b2', ['t1', 'B']]],
       [['c1', ['u1', 'A'], ['u2', 'B']], ['c2'], ['c3', ['u3', 'C']]]]]],
    [['declare-datatype', 'L', [['nil2'], ['cons', ['hd', 'Int'],
                                           ['tl', 'L']]]],
     ['declare-datatype', 'M', [['m0'], ['m1', ['x1', 'L']]]]],
]


def check_datatypes(rec):
    """symbol tables for datatypes: constructor -> its datatype, selector ->
    (constructor, position), nullary constructors as default constants"""
    for script in DATATYPE_SCRIPTS:
        exprs = [build(x) for x in script]
        smtlib.collect_information(exprs)
        want_ctor = {}
        want_sel = {}
        nullary = {}
        for cmd in script:
            if cmd[0] == 'declare-datatype':
                decls = [(cmd[1], cmd[2])]
            else:
                decls = [(s[0], cs) for s, cs in zip(cmd[1], cmd[2])]
            for dt, ctors in decls:
                for c in ctors:
                    want_ctor[c[0]] = dt
                    if len(c) == 1:
                        nullary.setdefault(dt, []).append(c[0])
                    for i, sel in enumerate(c[1:]):
                        want_sel[sel[0]] = (c[0], i)
        case = {'script': ' '.join(sexpr(x) for x in script)}
        for c, dt in want_ctor.items():
            nargs = sum(1 for k, (cc, _) in want_sel.items() if cc == c)
            if nargs == 0:
                continue
            term = build([c] + ['v'] * nargs)
            rec.case(('dt-ctor', case['script'], c))
            got = smtlib.get_sort(term)
            if got is not None and plain(got) != dt:
                rec.violation('C16/native/datatypes/constructor-sort',
                              {**case, 'term': sexpr(plain(term))},
                              f'get_sort gives {sexpr(plain(got))}, the '
                              f'constructor belongs to {dt}')
        for s_, (c, i) in want_sel.items():
            rec.case(('dt-sel', case['script'], s_))
            node = build([s_, 'v'])
            if smtlib.is_dt_selector(node):
                gc, gi = smtlib.get_dt_selector(node)
                if (plain(gc) if hasattr(gc, 'is_leaf') else gc) != c or \
                        gi != i:
                    rec.violation('C16/native/datatypes/selector-table',
                                  {**case, 'selector': s_},
                                  f'registered as field {gi} of '
                                  f'{plain(gc) if hasattr(gc, "is_leaf") else gc}'
                                  f', declared as field {i} of {c}')
        for dt in {d for d in want_ctor.values()}:
            rec.case(('dt-consts', case['script'], dt))
            got = [plain(x) for x in smtlib.get_default_constants(
                build(dt))]
            bad = [x for x in got if x not in nullary.get(dt, [])]
            if bad:
                rec.violation('C16/native/datatypes/default-constants',
                              {**case, 'sort': dt},
                              f'constants {bad} are not nullary '
                              f'constructors of {dt}')


if __name__ == '__main__':
    main()
