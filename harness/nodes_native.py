"""Bounded stand-ins for C11/C12/C13: run-time contracts on the real
ddsmt.nodes functions, exhaustive over small trees.

usage: nodes_native.py <check> <max_nodes>
"""
import copy
import itertools
import multiprocessing
import pickle
import sys

from harness import replaylib as R
from harness.bounded import (Recorder, trees, forests, size, positions,
                             with_timeout, Timeout)

ARGS = sys.argv[1:]
R.init_ddsmt()
from ddsmt import nodes  # noqa: E402
from ddsmt.nodes import Node  # noqa: E402


def build(pl, collide=False):
    if isinstance(pl, str):
        return Node(pl, _hash=7) if collide else Node(pl)
    kids = [build(c, collide) for c in pl]
    return Node(*kids, _hash=7) if collide else Node(*kids)


def plain(n):
    if isinstance(n, (list, tuple)):
        return [plain(x) for x in n]
    return n.data if n.is_leaf() else [plain(c) for c in n.data]


def as_tuple(pl):
    return pl if isinstance(pl, str) else tuple(as_tuple(c) for c in pl)


def has_singleton(pl):
    if isinstance(pl, str):
        return False
    return len(pl) == 1 or any(has_singleton(c) for c in pl)


def all_nodes(n):
    out = [n]
    if not n.is_leaf():
        for c in n.data:
            out.extend(all_nodes(c))
    return out


def ref_dfs(items, max_depth, depth=1):
    out = []
    for x in items:
        out.append(x)
        if not x.is_leaf() and (not max_depth or depth < max_depth):
            out.extend(ref_dfs(x.data, max_depth, depth + 1))
    return out


def ref_bfs(items, max_depth):
    out = []
    level = list(items)
    depth = 1
    while level:
        nxt = []
        for x in level:
            out.append(x)
            if not x.is_leaf() and (not max_depth or depth < max_depth):
                nxt.extend(x.data)
        level = nxt
        depth += 1
    return out


# ---------------------------------------------------------------------------


def check_eq(maxn):
    rec = Recorder('C12/native/eq-hash', f'all pairs of trees with <= {maxn} '
                   'nodes, leaves over {a,b}; with and without forced hash '
                   'collisions; shared sub-objects; tuple/str operands')
    ts = list(trees(maxn, ['a', 'b']))
    for collide in (False, True):
        built = [(t, build(t, collide)) for t in ts]
        for (t1, n1), (t2, n2) in itertools.product(built, repeat=2):
            rec.case((collide, t1, t2),
                     {'a': R.sexpr(t1), 'b': R.sexpr(t2),
                      'collide': collide})
            want = (t1 == t2)
            got = (n1 == n2)
            if bool(got) != want:
                rec.violation('eq', [t1, t2, collide],
                              f'== gave {got}, structure says {want}')
            if bool(n1 != n2) != (not want):
                rec.violation('ne', [t1, t2, collide], '!= inconsistent')
            if want and hash(n1) != hash(n2):
                rec.violation('hash', [t1, t2, collide],
                              'equal trees with different hashes')
            # second operand as plain tuple (Node(*t) treats a 1-tuple of a
            # string as a leaf, so such operands are not compared)
            if collide or has_singleton(t2) or isinstance(t2, str):
                continue
            got2 = (n1 == as_tuple(t2))
            if bool(got2) != want:
                rec.violation('eq-tuple', [t1, t2, collide],
                              f'node == tuple gave {got2}, want {want}')
    # shared sub-objects (same ids at structurally equal positions)
    for t in ts:
        n = build(t)
        for path, sub in positions(t):
            if not path:
                continue
            # tree m: same shape, but the sub-node object of n is reused
            m = rebuild_sharing(n, path)
            rec.case(('share', t, path))
            if not (n == m) or hash(n) != hash(m):
                rec.violation('eq-shared', [t, list(path)],
                              'trees sharing a sub-object compare unequal')
    for t in ts:
        n = build(t)
        rec.case(('none', t))
        if n == None or not (n != None):  # noqa: E711
            rec.violation('eq-none', t, 'node == None')
    rec.finish()


def rebuild_sharing(n, path):
    """Copy of n in which the node at ``path`` is the very same object."""
    if not path:
        return n
    kids = list(n.data)
    i = path[0]
    new = [rebuild_sharing(c, path[1:]) if j == i else build(plain(c))
           for j, c in enumerate(kids)]
    return Node(*new)


def check_copy(maxn):
    rec = Recorder('C12/native/deepcopy', f'all trees with <= {maxn} nodes '
                   'over {a, "b c", unicode}')
    for t in trees(maxn, ['a', '"b c"', 'λü']):
        n = build(t)
        rec.case(t, R.sexpr(t))
        c = copy.deepcopy(n)
        if c is None or plain(c) != t:
            rec.violation('deepcopy-equal', t, f'copy is {c!r}')
            continue
        if not (c == n):
            rec.violation('deepcopy-eq', t, 'copy != original')
        ids_n = [x.id for x in all_nodes(n)]
        ids_c = [x.id for x in all_nodes(c)]
        if set(ids_n) & set(ids_c):
            rec.violation('deepcopy-fresh-ids', t, 'copy shares ids')
        if len(set(ids_c)) != len(ids_c):
            rec.violation('deepcopy-distinct-ids', t, 'duplicate ids in copy')
        if [x.id for x in all_nodes(n)] != ids_n or plain(n) != t:
            rec.violation('deepcopy-frame', t, 'original modified')
    rec.finish()


def _worker_echo(n):
    return (n, [x.id for x in all_nodes(n)], [x.hash for x in all_nodes(n)],
            plain(n))


def _worker_copy(n):
    """construct new nodes inside a worker process"""
    c = copy.deepcopy(n)
    import os
    return (os.getpid(), [x.id for x in all_nodes(c)], plain(c))


def check_pickle(maxn):
    rec = Recorder('C12/native/pickle', f'all trees with <= {maxn} nodes '
                   'over {a, "b c", unicode}: in-process round trip and '
                   'through a fork-based pool of 2 workers')
    ts = list(trees(maxn, ['a', '"b c"', 'λü']))
    ns = [build(t) for t in ts]
    for t, n in zip(ts, ns):
        rec.case(t, R.sexpr(t))
        try:
            m = pickle.loads(pickle.dumps(n))
        except Exception as e:  # noqa
            rec.violation('pickle-inproc-raises', t,
                          f'{type(e).__name__}: {e}')
            continue
        _cmp_pickled(rec, 'pickle-inproc', t, n, m)
    # leaf texts made of the bytes the encoding itself uses as markers
    # ('(' = 40, ')' = 41, 'L' = 76), the empty leaf, NUL, and a leaf longer
    # than any buffer granularity: the decoder must skip leaf bytes by length
    marks = ['"(L)"', '|)|', 'L', '(', '', '\x00', 'L' * 70000]
    for t in trees(min(maxn, 3), marks):
        n = build(t)
        rec.case(('markers', t), R.sexpr(t)[:200])
        try:
            m = pickle.loads(pickle.dumps(n))
        except Exception as e:  # noqa
            rec.violation('pickle-inproc-raises', R.sexpr(t)[:200],
                          f'{type(e).__name__}: {e}')
            continue
        _cmp_pickled(rec, 'pickle-markers', t, n, m)
    ctx = multiprocessing.get_context('fork')
    # nodes constructed in different processes of a fork pool (and in the
    # parent meanwhile) never share an id
    with ctx.Pool(3) as pool:
        seen = {}
        it = pool.imap(_worker_copy, ns[:300], chunksize=1)
        for k, (pid, ids, pl) in enumerate(it):
            fresh = Node('parent-side')  # the parent keeps constructing
            for i in ids + [fresh.id]:
                if i in seen and seen[i] != (pid, k):
                    rec.violation('ids-unique-across-processes',
                                  {'id': i, 'first': seen[i],
                                   'second': (pid, k)},
                                  'two constructions in different '
                                  'processes got the same id')
                    break
                seen[i] = (pid, k)
            rec.case(('pool-construct', k))
    with ctx.Pool(2) as pool:
        for (t, n), (m, ids, hashes, pl) in zip(
                zip(ts, ns), pool.imap(_worker_echo, ns, chunksize=50)):
            rec.case(('pool', t))
            if pl != t:
                rec.violation('pickle-to-worker', t,
                              f'worker saw {pl!r}')
            if ids != [x.id for x in all_nodes(n)]:
                rec.violation('pickle-to-worker-ids', t, 'ids differ')
            if hashes != [x.hash for x in all_nodes(n)]:
                rec.violation('pickle-to-worker-hash', t, 'hashes differ')
            _cmp_pickled(rec, 'pickle-from-worker', t, n, m)
    # lists of trees (the way strategies ship the input)
    for f in forests(min(maxn, 4), ['a', 'b'], 2):
        lst = [build(t) for t in f]
        rec.case(('forest', f))
        back = pickle.loads(pickle.dumps(lst))
        if plain(back) != f:
            rec.violation('pickle-list', f, f'got {plain(back)!r}')
    rec.finish()


def _cmp_pickled(rec, check, t, n, m):
    if plain(m) != t:
        rec.violation(check + '-equal', t, f'got {plain(m)!r}')
        return
    if not (m == n):
        rec.violation(check + '-eq', t, 'unpickled != original')
    a, b = all_nodes(n), all_nodes(m)
    if [x.id for x in a] != [x.id for x in b]:
        rec.violation(check + '-ids', t, 'ids not preserved')
    if [x.hash for x in a] != [x.hash for x in b]:
        rec.violation(check + '-hash', t, 'hashes not preserved')
    if hash(m) != hash(n):
        rec.violation(check + '-hash', t, 'hash(m) != hash(n)')


def check_traversal(maxn):
    rec = Recorder('C12/native/traversal', f'all forests with <= {maxn} '
                   'nodes (<= 3 trees) over {a}, max_depth in '
                   '{None,1,2,3,4}; Node arguments')
    for f in forests(maxn, ['a'], 3):
        lst = [build(t) for t in f]
        total = sum(size(t) for t in f)
        for md in (None, 1, 2, 3, 4):
            rec.case((f, md), {'forest': [R.sexpr(t) for t in f], 'md': md})
            got = list(nodes.dfs(lst, md))
            want = ref_dfs(lst, md)
            if [id(x) for x in got] != [id(x) for x in want]:
                rec.violation('dfs-order', [f, md], 'dfs order differs from '
                              'pre-order reference')
            gotb = list(nodes.bfs(lst, md))
            wantb = ref_bfs(lst, md)
            if [id(x) for x in gotb] != [id(x) for x in wantb]:
                rec.violation('bfs-order', [f, md], 'bfs order differs from '
                              'level-order reference')
        got = list(nodes.dfs(lst))
        if len(got) != total or len({id(x) for x in got}) != total:
            rec.violation('dfs-once', f, 'not every node exactly once')
        gotb = list(nodes.bfs(lst))
        if len(gotb) != total or len({id(x) for x in gotb}) != total:
            rec.violation('bfs-once', f, 'not every node exactly once')
        if nodes.count_nodes(lst) != total:
            rec.violation('count_nodes', f,
                          f'{nodes.count_nodes(lst)} != {total}')
        ntup = sum(1 for t in f for _, s in positions(t)
                   if isinstance(s, list))
        if nodes.count_exprs(lst) != ntup:
            rec.violation('count_exprs', f,
                          f'{nodes.count_exprs(lst)} != {ntup}')
        flt = list(nodes.filter_nodes(lst, lambda x: not x.is_leaf(), None))
        if [id(x) for x in flt] != [id(x) for x in ref_dfs(lst, None)
                                    if not x.is_leaf()]:
            rec.violation('filter_nodes', f, 'differs from filtered dfs')
        for n in lst:
            got = list(nodes.dfs(n))
            want = [n] + (ref_dfs(n.data, None) if not n.is_leaf() else [])
            if [id(x) for x in got] != [id(x) for x in want]:
                rec.violation('dfs-node-arg', plain(n), 'dfs(Node) order')
            if nodes.count_nodes(n) != len(want):
                rec.violation('count_nodes-node-arg', plain(n), 'count')
            gotb = list(nodes.bfs(n))
            wantb = [n] + (ref_bfs(n.data, None) if not n.is_leaf() else [])
            if [id(x) for x in gotb] != [id(x) for x in wantb]:
                rec.violation('bfs-node-arg', plain(n), 'bfs(Node) order')
    rec.finish()


def check_binary_search(maxn):
    rec = Recorder('C12/native/binary_search',
                   f'all input lengths 0..{maxn}')
    for n in range(0, maxn + 1):
        rec.case(n)
        try:
            segs = with_timeout(5, lambda: list(nodes.binary_search(n)))
        except Timeout:
            rec.violation('binary_search-terminates', n, 'no result in 5 s')
            continue
        for (s, e) in segs:
            if not (0 <= s < e <= n):
                rec.violation('binary_search-bounds', n, f'segment {(s, e)}')
                break
        # per level: the den segments, in reverse order, tile [0, n)
        i = 0
        den = 2
        while i < len(segs):
            level = sorted(segs[i:i + den])
            if len(level) != den or level[0][0] != 0 or \
                    level[-1][1] != n or any(
                        level[k][1] != level[k + 1][0]
                        for k in range(den - 1)):
                rec.violation('binary_search-tiling', n,
                              f'level with {den} parts: {level}')
                break
            i += den
            den *= 2
        if n >= 4 and not segs:
            rec.violation('binary_search-nonempty', n, 'no segments')
    rec.finish()


CHECKS = {
    'eq': check_eq,
    'copy': check_copy,
    'pickle': check_pickle,
    'traversal': check_traversal,
    'binary_search': check_binary_search,
}


# ---------------------------------------------------------------------------
# C11: substitute / apply_simp / introduce_variables


def ref_substitute(items, idmap, smap):
    """Reference on real nodes -> (plain result list, changed).  A designated
    node is replaced by the replacement *as given* (or dropped for None);
    nothing inside a replacement is looked at."""
    out = []
    changed = False
    for n in items:
        if n.id in idmap:
            r = idmap[n.id]
            changed = True
            if r is not None:
                out.append(('given', r))
            continue
        hit = None
        for k, r in smap:
            if plain(k) == plain(n):
                hit = (r, )
                break
        if hit is not None:
            changed = True
            if hit[0] is not None:
                out.append(('given', hit[0]))
            continue
        if n.is_leaf():
            out.append(('same', n))
        else:
            sub, ch = ref_substitute(n.data, idmap, smap)
            if ch:
                changed = True
                out.append(('new', sub))
            else:
                out.append(('same', n))
    return out, changed


def ref_plain(res):
    out = []
    for kind, v in res:
        if kind in ('given', 'same'):
            out.append(plain(v))
        else:
            out.append(ref_plain(v))
    return out


def check_identity(res, got_nodes, rec, inp):
    """Untouched subtrees and replacements must be the very objects."""
    if len(res) != len(got_nodes):
        return
    for (kind, v), g in zip(res, got_nodes):
        if kind == 'given':
            continue  # only its text is prescribed (checked by the caller)
        if kind == 'same':
            if g is not v:
                rec.violation('substitute-identity', inp,
                              f'untouched subtree {plain(v)!r} was copied '
                              'or rebuilt')
        else:
            if g.is_leaf():
                continue
            check_identity(v, list(g.data), rec, inp)


def snapshot(items):
    return [(n.id, plain(n), [x.id for x in all_nodes(n)]) for n in items]


REPLS = [None, 'c', ['+', 'a', 'c'], ['f', ['a'], 'b'], []]


def check_substitute(maxn):
    rec = Recorder('C11/native/substitute',
                   f'all forests with <= {maxn} nodes (<= 2 trees) over '
                   '{a,b}; one or two identity keys on non-nested positions '
                   'and/or one structural key (leaf a, leaf b or a subtree '
                   'of the input); replacements None / c / (+ a c) / '
                   '(f (a) b) / (); also single-Node arguments')
    for f in forests(maxn, ['a', 'b'], 2):
        lst = [build(t) for t in f]
        pos = [(p, n) for t in lst for p, n in node_positions(t)]
        # candidate structural keys: leaves a, b and every distinct subtree
        skeys = []
        for k in ['a', 'b'] + [plain(n) for _, n in pos
                               if not n.is_leaf()]:
            if k not in skeys:
                skeys.append(k)
        idsets = [()] + [(i, ) for i in range(len(pos))] + [
            (i, j) for i in range(len(pos)) for j in range(i + 1, len(pos))
            if not nested(pos[i][0], pos[j][0])]
        for ids in idsets:
            for sk in [None] + skeys:
                if not ids and sk is None:
                    continue
                for rs in itertools.product(
                        REPLS, repeat=len(ids) + (sk is not None)):
                    one_case(rec, f, ids, sk, rs)
    rec.finish()


def node_positions(n, path=()):
    yield path, n
    if not n.is_leaf():
        for i, c in enumerate(n.data):
            yield from node_positions(c, path + (i, ))


def nested(p, q):
    # positions inside one tree are paths; different trees never nest
    return False


def one_case(rec, f, ids, sk, rs):
    lst = [build(t) for t in f]
    pos = [n for t in lst for _, n in node_positions(t)]
    # identity keys must be pairwise non-nested
    chosen = [pos[i] for i in ids]
    for a in chosen:
        for b in chosen:
            if a is not b and any(x is b for x in all_nodes(a)):
                return
    repl_nodes = [None if r is None else build(r) for r in rs]
    idmap = {n.id: r for n, r in zip(chosen, repl_nodes)}
    smap = []
    if sk is not None:
        smap.append((build(sk), repl_nodes[-1]))
    repl = dict(idmap)
    for k, r in smap:
        repl[k] = r
    inp = {'forest': f, 'id_keys': [plain(n) for n in chosen],
           'struct_key': sk, 'replacements': list(rs)}
    rec.case(inp, inp)
    before = snapshot(lst)
    want, changed = ref_substitute(lst, idmap, smap)
    try:
        got = with_timeout(0.5, nodes.substitute, lst, repl)
    except Timeout:
        rec.violation('substitute-terminates', inp, 'no result within 2 s')
        return
    except Exception as e:  # noqa
        rec.violation('substitute-raises', inp, f'{type(e).__name__}: {e}')
        return
    if snapshot(lst) != before:
        rec.violation('substitute-frame', inp, 'argument forest modified')
    if plain(got) != ref_plain(want):
        rec.violation('substitute-result', inp,
                      f'got {plain(got)!r}, want {ref_plain(want)!r}')
        return
    if not changed and got is not lst:
        rec.violation('substitute-unchanged-identity', inp,
                      'nothing designated but a new list was returned')
    check_identity(want, list(got), rec, inp)
    # single Node argument
    if len(lst) == 1:
        lst2 = [build(t) for t in f]
        pos2 = [n for t in lst2 for _, n in node_positions(t)]
        chosen2 = [pos2[i] for i in ids]
        idmap2 = {n.id: r for n, r in zip(chosen2, repl_nodes)}
        repl2 = dict(idmap2)
        for k, r in smap:
            repl2[k] = r
        want2, _ = ref_substitute(lst2, idmap2, smap)
        try:
            got2 = with_timeout(0.5, nodes.substitute, lst2[0], repl2)
        except Timeout:
            rec.violation('substitute-terminates', inp, 'Node argument')
            return
        except Exception as e:  # noqa
            rec.violation('substitute-raises', inp,
                          f'Node argument: {type(e).__name__}: {e}')
            return
        w = ref_plain(want2)
        if (plain(got2) if got2 is not None else None) != (w[0] if w
                                                           else None):
            rec.violation('substitute-node-arg', inp,
                          f'got {plain(got2)!r}, want {w!r}')


def check_apply_simp(maxn):
    from ddsmt import mutator_utils, smtlib
    rec = Recorder('C11/native/apply_simp',
                   f'all forests with <= {maxn} nodes: command prefixes of '
                   'set-info/set-logic/comments/other commands; 0-2 '
                   'declarations')
    S = mutator_utils.Simplification
    heads = [['set-logic', 'L'], ['set-info', 'k'], ['assert', 'a'], 'x',
             [], [['f']], ['declare-const', 'a', 'S']]
    decls = [['declare-const', 'v', 'S'], ['declare-const', 'w', 'S']]
    for k in range(0, min(maxn, 4) + 1):
        for combo in itertools.product(heads, repeat=k):
            f = list(combo)
            for nd in (0, 1, 2):
                for touch in ([None] + list(range(len(f)))):
                    lst = [build(t) for t in f]
                    vars_ = [build(d) for d in decls[:nd]]
                    inp = {'forest': f, 'decls': nd, 'touch': touch}
                    rec.case(inp, inp)
                    before = snapshot(lst)
                    if touch is None:
                        simp = S({}, vars_)
                    else:
                        simp = S({lst[touch].id: build(['assert', 'c'])},
                                 vars_)
                    got = mutator_utils.apply_simp(lst, simp)
                    if snapshot(lst) != before:
                        rec.violation('apply_simp-frame', inp,
                                      'input list modified')
                    body = list(f)
                    if touch is not None:
                        body[touch] = ['assert', 'c']
                    p = 0
                    while p < len(body) and isinstance(body[p], list) and \
                            body[p] and body[p][0] in ('set-info',
                                                       'set-logic'):
                        p += 1
                    want = body if touch is None else (
                        body[:p] + decls[:nd] + body[p:])
                    if plain(got) != want:
                        rec.violation('apply_simp-result', inp,
                                      f'got {plain(got)!r}, want {want!r}')
                    # introduce_variables on its own
                    got2 = smtlib.introduce_variables(lst, vars_)
                    p2 = 0
                    while p2 < len(f) and isinstance(f[p2], list) and \
                            f[p2] and isinstance(f[p2][0], str) and \
                            f[p2][0] in ('set-info', 'set-logic'):
                        p2 += 1
                    want2 = f[:p2] + decls[:nd] + f[p2:]
                    if plain(got2) != want2:
                        rec.violation('introduce_variables', inp,
                                      f'got {plain(got2)!r}, want {want2!r}')
    rec.finish()


# ---------------------------------------------------------------------------
# C13: reduplicate on DAGs


def check_reduplicate(maxn):
    rec = Recorder('C13/native/reduplicate',
                   f'all forests with <= {maxn} nodes (<= 3 trees) over '
                   '{a,b}; every way of sharing one class of structurally '
                   'equal positions (one object at several positions), '
                   'including shared empty lists and whole shared trees')
    for f in forests(maxn, ['a', 'b'], 3):
        # group positions by structure
        lst0 = [build(t) for t in f]
        pos0 = [n for t in lst0 for _, n in node_positions(t)]
        classes = {}
        for i, n in enumerate(pos0):
            classes.setdefault(repr(plain(n)), []).append(i)
        share_sets = [()]
        for key, idxs in classes.items():
            if len(idxs) > 1:
                for r in range(2, len(idxs) + 1):
                    for sub in itertools.combinations(idxs, r):
                        share_sets.append(sub)
        for share in share_sets:
            lst = build_shared(f, share)
            if lst is None:
                continue
            inp = {'forest': f, 'shared_positions': list(share)}
            rec.case(inp, inp)
            nodes_before = [n for t in lst for _, n in node_positions(t)]
            ids_before = [n.id for n in nodes_before]
            text_before = plain(lst)
            try:
                got = with_timeout(2, nodes.reduplicate, lst)
            except Timeout:
                rec.violation('reduplicate-terminates', inp, '> 2 s')
                continue
            if plain(got) != text_before:
                rec.violation('reduplicate-tokens', inp,
                              f'got {plain(got)!r}')
                continue
            if plain(lst) != text_before or [
                    n.id for t in lst
                    for _, n in node_positions(t)] != ids_before:
                rec.violation('reduplicate-frame', inp, 'argument modified')
            after = [n for t in got for _, n in node_positions(t)]
            ids_after = [n.id for n in after]
            if len(set(ids_after)) != len(ids_after):
                dup = sorted({i for i in ids_after if ids_after.count(i) > 1})
                rec.violation('reduplicate-distinct-ids', inp,
                              f'ids at several positions: {dup}')
            # nodes that were unique (id once, no shared descendant) keep
            # their identity
            for b, a in zip(nodes_before, after):
                if ids_before.count(b.id) == 1 and all(
                        ids_before.count(x.id) == 1 for x in all_nodes(b)):
                    if a is not b:
                        rec.violation('reduplicate-keeps-unique', inp,
                                      f'unique node {plain(b)!r} was '
                                      're-created')
    rec.finish()


def build_shared(f, share):
    """Forest in which the positions in ``share`` hold one object."""
    lst = [build(t) for t in f]
    if not share:
        return lst
    pos = [(ti, p, n) for ti, t in enumerate(lst)
           for p, n in node_positions(t)]
    # nested positions cannot be shared with each other
    chosen = [pos[i] for i in share]
    for a in chosen:
        for b in chosen:
            if a is not b and a[0] == b[0] and len(a[1]) < len(b[1]) and \
                    b[1][:len(a[1])] == a[1]:
                return None
    obj = chosen[0][2]

    def rebuild(n, ti, path):
        for (cti, cp, cn) in chosen[1:]:
            if cti == ti and cp == path:
                return obj
        if n.is_leaf():
            return n
        kids = [rebuild(c, ti, path + (i, )) for i, c in enumerate(n.data)]
        if all(k is c for k, c in zip(kids, n.data)):
            return n
        return Node(*kids)

    return [rebuild(t, ti, ()) for ti, t in enumerate(lst)]


CHECKS.update({
    'substitute': check_substitute,
    'apply_simp': check_apply_simp,
    'reduplicate': check_reduplicate,
})

if __name__ == '__main__':
    CHECKS[ARGS[0]](int(ARGS[1]))
