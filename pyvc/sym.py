"""Symbolic values, path conditions and forking.

A *path* is one execution of the interpreted code under a sequence of
decisions.  Every symbolic Boolean that is branched on calls
``Path.decide``; the first time a decision point is reached both outcomes are
checked for satisfiability with the path condition, one is followed and the
other is queued as a new decision prefix (re-execution, DART style).
"""
import itertools
import z3

SOLVER_TIMEOUT_MS = 10000
# when set, len()/rfind() of symbolic strings are arbitrary integers
ABSTRACT_METRICS = [False]
LAST_LINE = None


class Unsupported(Exception):
    """The engine cannot interpret this construct: verdict 'undecided'."""


class PathAbort(Exception):
    """The current path was cut (assume false / infeasible)."""


class _Cur:
    path = None


def cur():
    if _Cur.path is None:
        raise Unsupported('symbolic operation outside of a path')
    return _Cur.path


def set_cur(p):
    _Cur.path = p


class Obligation:
    __slots__ = ('name', 'pc', 'goal', 'info', 'kind')

    def __init__(self, name, pc, goal, info=None, kind='post'):
        self.name = name
        self.pc = pc
        self.goal = goal
        self.info = info
        self.kind = kind


class Path:

    def __init__(self, prefix=(), name_prefix=''):
        self.name_prefix = name_prefix
        self.prefix = list(prefix)
        self.taken = []
        self.pending = []
        self.pc = []
        self.solver = z3.Solver()
        self.solver.set('timeout', SOLVER_TIMEOUT_MS)
        self.obligations = []
        self.counter = itertools.count()
        self.names = {}
        self.ghost = {}
        self.notes = []
        self.unknown_branches = 0
        self.cut_reason = None
        self.bounded = []  # reasons why this path is only a bounded one

    # -- fresh symbols -----------------------------------------------------
    def fresh_name(self, base):
        base = self.name_prefix + base
        k = self.names.get(base, 0)
        self.names[base] = k + 1
        return base if k == 0 else f'{base}!{k}'

    def fresh_int(self, base='i'):
        return z3.Int(self.fresh_name(base))

    def fresh_real(self, base='r'):
        return z3.Real(self.fresh_name(base))

    def fresh_bool(self, base='b'):
        return z3.Bool(self.fresh_name(base))

    def fresh_str(self, base='s'):
        return z3.String(self.fresh_name(base))

    # -- path condition ----------------------------------------------------
    def _sat(self, z):
        self.solver.push()
        self.solver.add(z)
        r = self.solver.check()
        self.solver.pop()
        if r == z3.unknown:
            self.unknown_branches += 1
            return True
        return r == z3.sat

    def assume(self, z):
        if isinstance(z, SBool):
            z = z.z
        if isinstance(z, bool):
            if not z:
                raise PathAbort('assume False')
            return
        z = z3.simplify(z)
        if z3.is_true(z):
            return
        if z3.is_false(z):
            raise PathAbort('assume False')
        self.pc.append(z)
        # quantified facts (array invariants) are kept for the obligations
        # only: the branch-feasibility solver works without them, which
        # over-approximates the feasible paths
        if not has_quantifier(z):
            self.solver.add(z)

    def assume_checked(self, z):
        """Assume and abort the path when this makes it infeasible."""
        self.assume(z)
        if self.solver.check() == z3.unsat:
            raise PathAbort('infeasible')

    def decide(self, z):
        """Return a concrete truth value for the Boolean term ``z``."""
        z = z3.simplify(z)
        if z3.is_true(z):
            return True
        if z3.is_false(z):
            return False
        i = len(self.taken)
        if i < len(self.prefix):
            choice = self.prefix[i]
        else:
            can_t = self._sat(z)
            can_f = self._sat(z3.Not(z))
            if can_t and can_f:
                choice = True
                self.pending.append(self.taken + [False])
            elif can_t:
                choice = True
            elif can_f:
                choice = False
            else:
                raise PathAbort('infeasible')
        self.taken.append(choice)
        c = z if choice else z3.Not(z)
        self.pc.append(c)
        self.solver.add(c)
        return choice

    def choose(self, n, label='choice'):
        """Nondeterministic choice of an integer in range(n) (forks)."""
        for k in range(n - 1):
            b = self.fresh_bool(f'{label}_{k}')
            if self.decide(b):
                return k
        return n - 1

    # -- obligations -------------------------------------------------------
    def oblige(self, name, goal, info=None, kind='post'):
        if isinstance(goal, SBool):
            goal = goal.z
        if isinstance(goal, bool):
            goal = z3.BoolVal(goal)
        self.obligations.append(
            Obligation(name, list(self.pc), goal, info, kind))


# ---------------------------------------------------------------------------
# z3 helpers


class Abstract:
    """Base class of abstract model values (contracts/worklist, textmodel):
    an operation the model does not define is a gap of the model, never a
    Python exception of the program under verification."""

    def _gap(self, what):
        raise Unsupported(f'{type(self).__name__} does not model {what}')

    def __getitem__(self, k):
        self._gap('indexing')

    def __setitem__(self, k, v):
        self._gap('item assignment')

    def __iter__(self):
        self._gap('iteration')

    def __len__(self):
        self._gap('len()')

    def __contains__(self, x):
        self._gap('membership')

    def __add__(self, o):
        self._gap('+')

    __radd__ = __mul__ = __rmul__ = __add__

    def __getattr__(self, name):
        if name.startswith('__') and name.endswith('__'):
            raise AttributeError(name)
        self._gap(f'attribute {name!r}')


class CharsIn(Abstract):
    """The truth values of ``c in chars`` (or ``not in``) for the characters
    c of a symbolic string, as a whole."""

    def __init__(self, s, chars, negated):
        self.s, self.chars, self.negated = s, chars, negated

    def _class(self):
        rs = [z3.Re(z3.StringVal(c)) for c in self.chars]
        r = rs[0] if len(rs) == 1 else z3.Union(*rs) if rs else None
        allc = z3.AllChar(z3.ReSort(z3.StringSort()))
        if r is None:
            return z3.Diff(allc, allc) if not self.negated else allc
        return z3.Diff(allc, r) if self.negated else r

    def all(self):
        return mk_bool(z3.InRe(self.s.z, z3.Star(self._class())))

    def any(self):
        allc = z3.AllChar(z3.ReSort(z3.StringSort()))
        return mk_bool(z3.InRe(self.s.z, z3.Concat(
            z3.Star(allc), self._class(), z3.Star(allc))))


def has_quantifier(z, _seen=None):
    seen = set() if _seen is None else _seen
    todo = [z]
    while todo:
        t = todo.pop()
        if t.get_id() in seen:
            continue
        seen.add(t.get_id())
        if z3.is_quantifier(t):
            return True
        todo.extend(t.children())
    return False


def zbool(x):
    if isinstance(x, SBool):
        return x.z
    if isinstance(x, bool):
        return z3.BoolVal(x)
    if z3.is_bool(x):
        return x
    raise Unsupported(f'not a Boolean: {x!r}')


def is_sym(x):
    return isinstance(x, (SBool, SNum, SStr, SOpt))


# ---------------------------------------------------------------------------
# Booleans


class SBool:
    __slots__ = ('z', )

    def __init__(self, z):
        self.z = z

    def __bool__(self):
        return cur().decide(self.z)

    def __eq__(self, o):
        return SBool(self.z == zbool(o))

    def __ne__(self, o):
        return SBool(self.z != zbool(o))

    def __hash__(self):
        raise Unsupported('hash of symbolic bool')

    def __repr__(self):
        return f'SBool({self.z})'


def s_not(x):
    if isinstance(x, SBool):
        return mk_bool(z3.Not(x.z))
    return not x


def mk_bool(z):
    z = z3.simplify(z)
    if z3.is_true(z):
        return True
    if z3.is_false(z):
        return False
    return SBool(z)


# ---------------------------------------------------------------------------
# Numbers (mathematical integers / reals)


def _znum(x):
    if isinstance(x, SNum):
        return x.z
    if isinstance(x, bool):
        return z3.IntVal(int(x))
    if isinstance(x, int):
        return z3.IntVal(x)
    if isinstance(x, float):
        return z3.RealVal(repr(x))
    return None


class SNum:
    """Symbolic number: z3 Int or Real (floats are modelled as reals)."""
    __slots__ = ('z', )

    def __init__(self, z):
        self.z = z

    @property
    def is_int(self):
        return self.z.sort() == z3.IntSort()

    def _bin(self, o, f):
        oz = _znum(o)
        if oz is None:
            return NotImplemented
        r = z3.simplify(f(self.z, oz))
        return mk_num(r)

    def _rbin(self, o, f):
        oz = _znum(o)
        if oz is None:
            return NotImplemented
        return mk_num(z3.simplify(f(oz, self.z)))

    def __add__(self, o):
        return self._bin(o, lambda a, b: a + b)

    def __radd__(self, o):
        return self._rbin(o, lambda a, b: a + b)

    def __sub__(self, o):
        return self._bin(o, lambda a, b: a - b)

    def __rsub__(self, o):
        return self._rbin(o, lambda a, b: a - b)

    def __mul__(self, o):
        return self._bin(o, lambda a, b: a * b)

    def __rmul__(self, o):
        return self._rbin(o, lambda a, b: a * b)

    def __neg__(self):
        return mk_num(z3.simplify(-self.z))

    def __floordiv__(self, o):
        if isinstance(o, int) and not isinstance(o, bool) and o > 0 \
                and self.is_int:
            # SMT-LIB div with a positive divisor is floor division
            return mk_num(z3.simplify(self.z / o))
        raise Unsupported('floor division with symbolic/negative divisor')

    def __mod__(self, o):
        if isinstance(o, int) and not isinstance(o, bool) and o > 0 \
                and self.is_int:
            return mk_num(z3.simplify(self.z % o))
        raise Unsupported('modulo with symbolic/negative divisor')

    def __truediv__(self, o):
        oz = _znum(o)
        if oz is None:
            return NotImplemented
        if isinstance(o, (int, float)) and not isinstance(o, bool):
            if o == 0:
                raise ZeroDivisionError('division by zero')
        else:
            # a symbolic divisor: the path on which it is zero raises (the
            # interpreter turns this into the interpreted exception), on the
            # other one the quotient is the real one (floats as reals)
            if cur().decide(oz == 0):
                raise ZeroDivisionError('division by zero')
        num = z3.ToReal(self.z) if self.is_int else self.z
        den = z3.ToReal(oz) if oz.sort() == z3.IntSort() else oz
        return mk_num(z3.simplify(num / den))

    def __rtruediv__(self, o):
        oz = _znum(o)
        if oz is None:
            return NotImplemented
        if cur().decide(self.z == 0):
            raise ZeroDivisionError('division by zero')
        num = z3.ToReal(oz) if oz.sort() == z3.IntSort() else oz
        den = z3.ToReal(self.z) if self.is_int else self.z
        return mk_num(z3.simplify(num / den))

    def _cmp(self, o, f):
        oz = _znum(o)
        if oz is None:
            return NotImplemented
        return mk_bool(f(self.z, oz))

    def __lt__(self, o):
        return self._cmp(o, lambda a, b: a < b)

    def __le__(self, o):
        return self._cmp(o, lambda a, b: a <= b)

    def __gt__(self, o):
        return self._cmp(o, lambda a, b: a > b)

    def __ge__(self, o):
        return self._cmp(o, lambda a, b: a >= b)

    def __eq__(self, o):
        oz = _znum(o)
        if oz is None:
            return False
        return mk_bool(self.z == oz)

    def __ne__(self, o):
        oz = _znum(o)
        if oz is None:
            return True
        return mk_bool(self.z != oz)

    def __bool__(self):
        return cur().decide(self.z != 0)

    def __hash__(self):
        raise Unsupported('hash of symbolic number')

    def __index__(self):
        raise Unsupported('symbolic number used as a concrete index')

    def __repr__(self):
        return f'SNum({self.z})'


def mk_num(z):
    if z3.is_int_value(z):
        return z.as_long()
    return SNum(z)


# ---------------------------------------------------------------------------
# Optional values


class SOpt:
    """``None`` when ``is_none`` holds, ``val`` otherwise."""
    __slots__ = ('is_none', 'val')

    def __init__(self, is_none, val):
        self.is_none = is_none
        self.val = val

    def __bool__(self):
        v = force(self)
        return bool(v)

    def __hash__(self):
        raise Unsupported('hash of symbolic optional')

    def __repr__(self):
        return f'SOpt({self.is_none}, {self.val!r})'


def force(x):
    """Resolve an optional value (forks on None-ness)."""
    while isinstance(x, SOpt):
        if cur().decide(x.is_none):
            return None
        x = x.val
    return x


# ---------------------------------------------------------------------------
# Strings: a concatenation of parts
#   ('c', str)        concrete text
#   ('n', z3 Int)     canonical decimal numeral of a non-negative integer
#   ('v', z3 String)  arbitrary text


def _norm_parts(parts):
    out = []
    for k, p in parts:
        if k == 'c':
            if p == '':
                continue
            if out and out[-1][0] == 'c':
                out[-1] = ('c', out[-1][1] + p)
                continue
        elif k == 'n':
            p = z3.simplify(p)
            if z3.is_int_value(p) and p.as_long() >= 0:
                k, p = 'c', str(p.as_long())
                if out and out[-1][0] == 'c':
                    out[-1] = ('c', out[-1][1] + p)
                    continue
        elif k == 'v':
            if z3.is_string_value(p):
                k, p = 'c', p.as_string()
                if p == '':
                    continue
                if out and out[-1][0] == 'c':
                    out[-1] = ('c', out[-1][1] + p)
                    continue
        out.append((k, p))
    return tuple(out)


def mk_str(parts):
    parts = _norm_parts(parts)
    if not parts:
        return ''
    if len(parts) == 1 and parts[0][0] == 'c':
        return parts[0][1]
    return SStr(parts)


def _parts_of(x):
    if isinstance(x, SStr):
        return x.parts
    if isinstance(x, str):
        return (('c', x), ) if x else ()
    return None


def _is_canon_numeral(s):
    return s.isascii() and s.isdigit() and (s == '0' or s[0] != '0')


DIGITS = z3.Range('0', '9')
RE_DIGITS = z3.Plus(DIGITS)


class SStr:
    __slots__ = ('parts', '_z')

    def __init__(self, parts):
        self.parts = tuple(parts)
        self._z = None

    # -- z3 view -------------------------------------------------------------
    @property
    def z(self):
        if self._z is None:
            zs = []
            for k, p in self.parts:
                if k == 'c':
                    zs.append(z3.StringVal(p))
                elif k == 'n':
                    zs.append(z3.IntToStr(p))
                else:
                    zs.append(p)
            self._z = zs[0] if len(zs) == 1 else z3.Concat(*zs)
        return self._z

    def single_numeral(self):
        if len(self.parts) == 1 and self.parts[0][0] == 'n':
            return self.parts[0][1]
        return None

    def all_digit_parts(self):
        """True if provably nonempty ASCII digits by structure."""
        if not self.parts:
            return False
        for k, p in self.parts:
            if k == 'n':
                continue
            if k == 'c' and p.isascii() and p.isdigit():
                continue
            return False
        return True

    # -- equality --------------------------------------------------------------
    def _eq(self, o):
        op = _parts_of(o)
        if op is None:
            return False
        sp = self.parts
        # strip common concrete prefix / suffix structurally
        sp, op = list(sp), list(op)
        changed = True
        while changed and sp and op:
            changed = False
            (k1, p1), (k2, p2) = sp[0], op[0]
            if k1 == 'c' and k2 == 'c':
                n = min(len(p1), len(p2))
                if p1[:n] != p2[:n]:
                    return False
                sp[0] = ('c', p1[n:])
                op[0] = ('c', p2[n:])
                if not sp[0][1]:
                    sp.pop(0)
                if not op[0][1]:
                    op.pop(0)
                changed = True
        if not sp and not op:
            return True
        # numeral against numeral / canonical literal
        if len(sp) == 1 and len(op) == 1:
            (k1, p1), (k2, p2) = sp[0], op[0]
            if k1 == 'n' and k2 == 'n':
                return mk_bool(p1 == p2)
            if k1 == 'n' and k2 == 'c':
                if _is_canon_numeral(p2):
                    return mk_bool(p1 == int(p2))
                return False
            if k1 == 'c' and k2 == 'n':
                if _is_canon_numeral(p1):
                    return mk_bool(p2 == int(p1))
                return False
        if not sp:
            sp_only_num = False
            # '' == rest : numerals are never empty
            if any(k == 'n' or (k == 'c' and p) for k, p in op):
                return False
        if not op:
            if any(k == 'n' or (k == 'c' and p) for k, p in sp):
                return False
        a = mk_str(sp)
        b = mk_str(op)
        az = a.z if isinstance(a, SStr) else z3.StringVal(a)
        bz = b.z if isinstance(b, SStr) else z3.StringVal(b)
        return mk_bool(az == bz)

    def __eq__(self, o):
        return self._eq(o)

    def __ne__(self, o):
        return s_not(self._eq(o))

    def __hash__(self):
        raise Unsupported('hash of symbolic string')

    def __bool__(self):
        for k, p in self.parts:
            if k == 'n' or (k == 'c' and p):
                return True
        return cur().decide(z3.Length(self.z) > 0)

    # -- order -------------------------------------------------------------
    def _ord(self, o, f):
        op = _parts_of(o)
        if op is None:
            return NotImplemented
        oz = o.z if isinstance(o, SStr) else z3.StringVal(o)
        return mk_bool(f(self.z, oz))

    def __lt__(self, o):
        return self._ord(o, lambda a, b: a < b)

    def __le__(self, o):
        return self._ord(o, lambda a, b: a <= b)

    def __gt__(self, o):
        return self._ord(o, lambda a, b: b < a)

    def __ge__(self, o):
        return self._ord(o, lambda a, b: b <= a)

    # -- concatenation ---------------------------------------------------------
    def __add__(self, o):
        op = _parts_of(o)
        if op is None:
            return NotImplemented
        return mk_str(self.parts + tuple(op))

    def __radd__(self, o):
        op = _parts_of(o)
        if op is None:
            return NotImplemented
        return mk_str(tuple(op) + self.parts)

    # -- length, indexing ------------------------------------------------------
    def _abstract_metric(self, kind, lo):
        """Over-approximation used when only the *existence* of lengths /
        positions matters (line-width bookkeeping): an arbitrary integer,
        the same one for the same string along a path."""
        p = cur()
        memo = p.ghost.setdefault('str_metrics', {})
        key = (kind, self.z.sexpr())
        if key not in memo:
            v = p.fresh_int(kind)
            p.assume(v >= lo)
            memo[key] = SNum(v)
        return memo[key]

    def length(self, exact=False):
        if ABSTRACT_METRICS[0] and not exact and any(
                k != 'c' for k, _ in self.parts):
            return self._abstract_metric('strlen', 0)
        total = 0
        for k, p in self.parts:
            if k == 'c':
                total = total + len(p)
            elif k == 'n':
                total = total + SNum(z3.Length(z3.IntToStr(p)))
            else:
                total = total + SNum(z3.Length(p))
        return total

    def _concrete_prefix(self):
        if self.parts and self.parts[0][0] == 'c':
            return self.parts[0][1]
        return ''

    def _concrete_suffix(self):
        if self.parts and self.parts[-1][0] == 'c':
            return self.parts[-1][1]
        return ''

    def getitem(self, key):
        """Python ``s[key]`` semantics; raises IndexError natively."""
        if isinstance(key, slice):
            return self._slice(key)
        if isinstance(key, SNum):
            raise Unsupported('symbolic string index')
        if not isinstance(key, int):
            raise TypeError('string indices must be integers')
        if key >= 0:
            pre = self._concrete_prefix()
            if key < len(pre):
                return pre[key]
            ln = self.length(exact=True)
            if not (ln > key):
                raise IndexError('string index out of range')
            return mk_str([('v', z3.SubString(self.z, key, 1))])
        suf = self._concrete_suffix()
        if -key <= len(suf):
            return suf[key]
        ln = self.length(exact=True)
        if not (ln >= -key):
            raise IndexError('string index out of range')
        return mk_str([('v', z3.SubString(self.z, _znum(ln) + key, 1))])

    def _slice(self, sl):
        if sl.step not in (None, 1):
            raise Unsupported('string slice with step')
        lo, hi = sl.start, sl.stop
        if isinstance(lo, SNum) or isinstance(hi, SNum):
            return self._slice_sym(lo, hi)
        lo = 0 if lo is None else lo
        # structural: strip a concrete prefix
        parts = list(self.parts)
        if lo >= 0 and parts and parts[0][0] == 'c' and lo <= len(parts[0][1]):
            head = parts[0][1]
            parts[0] = ('c', head[lo:])
            rest = mk_str(parts)
            if hi is None:
                return rest
            if hi >= 0:
                hi2 = hi - lo
                if hi2 <= 0:
                    return ''
                if isinstance(rest, str):
                    return rest[:hi2]
                return rest._slice(slice(0, hi2))
            if isinstance(rest, str):
                return rest[:hi] if -hi <= len(rest) else ''
            if lo == 0:
                pass
            else:
                # rest[:hi] with negative hi relative to the same end
                return rest._slice(slice(0, hi))
        if lo == 0 and hi is not None and hi < 0 and parts \
                and parts[-1][0] == 'c' and -hi <= len(parts[-1][1]):
            tail = parts[-1][1]
            parts[-1] = ('c', tail[:hi])
            return mk_str(parts)
        if lo == 0 and hi is not None and hi >= 0 and parts \
                and parts[0][0] == 'c' and hi <= len(parts[0][1]):
            return parts[0][1][:hi]
        return self._slice_sym(lo, hi)

    def _slice_sym(self, lo, hi):
        ln = _znum(self.length(exact=True))
        if lo is None:
            lo = 0
        loz = _znum(lo)
        if isinstance(lo, int) and lo < 0:
            loz = z3.If(ln + lo < 0, z3.IntVal(0), ln + lo)
        elif isinstance(lo, SNum):
            loz = z3.If(loz < 0, z3.If(ln + loz < 0, 0, ln + loz), loz)
        if hi is None:
            hiz = ln
        else:
            hiz = _znum(hi)
            if isinstance(hi, int) and hi < 0:
                hiz = z3.If(ln + hi < 0, z3.IntVal(0), ln + hi)
            elif isinstance(hi, SNum):
                hiz = z3.If(hiz < 0, z3.If(ln + hiz < 0, 0, ln + hiz), hiz)
        return mk_str([('v', z3.SubString(self.z, loz, hiz - loz))])

    # -- predicates ------------------------------------------------------------
    def startswith(self, p):
        if isinstance(p, tuple):
            r = False
            for q in p:
                r = s_or(r, self.startswith(q))
            return r
        if isinstance(p, str):
            pre = self._concrete_prefix()
            n = min(len(pre), len(p))
            if pre[:n] != p[:n]:
                return False
            if len(pre) >= len(p):
                return True
            if len(self.parts) > 0 and self.parts[0][0] == 'n' and p and \
                    not p[0].isdigit():
                return False
            if len(self.parts) > 1 and self.parts[0][0] == 'c' and \
                    self.parts[1][0] == 'n' and not p[n].isdigit():
                return False
            return mk_bool(z3.PrefixOf(z3.StringVal(p), self.z))
        if isinstance(p, SStr):
            return mk_bool(z3.PrefixOf(p.z, self.z))
        raise TypeError('startswith first arg must be str')

    def endswith(self, p):
        if isinstance(p, str):
            suf = self._concrete_suffix()
            n = min(len(suf), len(p))
            if n and suf[-n:] != p[-n:]:
                return False
            if len(suf) >= len(p):
                return True
            return mk_bool(z3.SuffixOf(z3.StringVal(p), self.z))
        if isinstance(p, SStr):
            return mk_bool(z3.SuffixOf(p.z, self.z))
        raise TypeError('endswith first arg must be str')

    def isdigit(self):
        # Python's isdigit also accepts non-ASCII digits; leaf texts are
        # assumed ASCII here (listed as an encoding assumption).
        if self.all_digit_parts():
            return True
        return mk_bool(z3.InRe(self.z, RE_DIGITS))

    def contains(self, item):
        """``item in self``"""
        if isinstance(item, str):
            if item == '':
                return True
            for k, p in self.parts:
                if k == 'c' and item in p:
                    return True
            return mk_bool(z3.Contains(self.z, z3.StringVal(item)))
        if isinstance(item, SStr):
            return mk_bool(z3.Contains(self.z, item.z))
        raise TypeError("'in <string>' requires string as left operand")

    def encode(self, *a):
        raise Unsupported('encode of symbolic string')

    def replace(self, *a):
        raise Unsupported('replace on symbolic string')

    def rfind(self, sub, *a):
        if a or not isinstance(sub, str):
            raise Unsupported('rfind with bounds on symbolic string')
        if ABSTRACT_METRICS[0]:
            r = self._abstract_metric('rfind_' + sub.encode().hex(), -1)
            cur().assume(sym_lt(r, self.length()))
            return r
        return mk_num(z3.simplify(z3.LastIndexOf(self.z,
                                                 z3.StringVal(sub))))

    def split(self, *a):
        raise Unsupported('split on symbolic string')

    def format(self, *a, **k):
        raise Unsupported('format on symbolic string')

    def __repr__(self):
        return 'SStr(' + '+'.join(
            repr(p) if k == 'c' else f'{k}:{p}' for k, p in self.parts) + ')'


def sym_lt(a, b):
    return (_znum(a) < _znum(b))


def s_or(a, b):
    if a is True or b is True:
        return True
    if a is False:
        return b
    if b is False:
        return a
    return mk_bool(z3.Or(zbool(a), zbool(b)))


def s_and(a, b):
    if a is False or b is False:
        return False
    if a is True:
        return b
    if b is True:
        return a
    return mk_bool(z3.And(zbool(a), zbool(b)))


def str_contains(container, item):
    """``item in container`` for (possibly symbolic) strings."""
    if isinstance(container, SStr):
        return container.contains(item)
    if isinstance(item, SStr):
        if not isinstance(container, str):
            raise TypeError('bad operands for in')
        return mk_bool(z3.Contains(z3.StringVal(container), item.z))
    return item in container


def sym_str(p, base='s'):
    return SStr([('v', p.fresh_str(base))])


def sym_numeral(p, base='n'):
    v = p.fresh_int(base)
    p.assume(v >= 0)
    return SStr([('n', v)]), SNum(v)


def to_str(x):
    """``str(x)`` / ``format(x)`` for scalar values."""
    if isinstance(x, SStr):
        return x
    if isinstance(x, SNum):
        if not x.is_int:
            raise Unsupported('str() of symbolic real')
        if bool(x >= 0):
            return mk_str([('n', x.z)])
        return mk_str([('c', '-'), ('n', (-x).z)])
    if isinstance(x, SBool):
        return 'True' if bool(x) else 'False'
    if isinstance(x, SOpt):
        return to_str(force(x))
    return None


def to_int(x):
    """``int(x)`` for symbolic values; raises ValueError natively."""
    if isinstance(x, SNum):
        if x.is_int:
            return x
        raise Unsupported('int() of symbolic real')
    if isinstance(x, SStr):
        n = x.single_numeral()
        if n is not None:
            return SNum(n)
        if x.all_digit_parts():
            return SNum(z3.StrToInt(x.z))
        # over-approximation of CPython's int(): only plain ASCII digit
        # strings are accepted; anything else raises ValueError
        if bool(mk_bool(z3.InRe(x.z, RE_DIGITS))):
            return SNum(z3.StrToInt(x.z))
        raise ValueError('invalid literal for int() (symbolic)')
    if isinstance(x, SBool):
        return 1 if bool(x) else 0
    raise Unsupported(f'int() of {type(x).__name__}')


# ---------------------------------------------------------------------------
# regular expressions: the literal patterns used in /repo, compiled to z3


def compile_regex(pat):
    """Compile the small regex subset used by ddSMT to a z3 regex for
    ``re.match`` (anchored at the start, not at the end)."""
    pos = 0
    n = len(pat)

    def parse_alt():
        nonlocal pos
        seq = parse_seq()
        while pos < n and pat[pos] == '|':
            pos += 1
            seq = z3.Union(seq, parse_seq())
        return seq

    def parse_seq():
        nonlocal pos
        items = []
        while pos < n and pat[pos] not in '|)':
            items.append(parse_rep())
        if not items:
            return z3.Re(z3.StringVal(''))
        r = items[0]
        for it in items[1:]:
            r = z3.Concat(r, it)
        return r

    def parse_rep():
        nonlocal pos
        a = parse_atom()
        while pos < n and pat[pos] in '+*?':
            c = pat[pos]
            pos += 1
            a = {'+': z3.Plus, '*': z3.Star, '?': z3.Option}[c](a)
        return a

    def parse_atom():
        nonlocal pos
        c = pat[pos]
        if c == '(':
            pos += 1
            r = parse_alt()
            if pos >= n or pat[pos] != ')':
                raise Unsupported(f'regex {pat!r}')
            pos += 1
            return r
        if c == '[':
            pos += 1
            alts = []
            if pos < n and pat[pos] == '^':
                raise Unsupported(f'regex {pat!r}: negated class')
            while pos < n and pat[pos] != ']':
                a = pat[pos]
                if a == '\\':
                    pos += 1
                    a = pat[pos]
                if pos + 2 < n and pat[pos + 1] == '-' and pat[pos + 2] != ']':
                    b = pat[pos + 2]
                    alts.append(z3.Range(a, b))
                    pos += 3
                else:
                    alts.append(z3.Re(z3.StringVal(a)))
                    pos += 1
            pos += 1
            r = alts[0]
            for a in alts[1:]:
                r = z3.Union(r, a)
            return r
        if c == '^':
            pos += 1
            return z3.Re(z3.StringVal(''))
        if c == '$':
            pos += 1
            if pos != n:
                raise Unsupported(f'regex {pat!r}: $ not at end')
            # $ matches at the end and before a final newline
            return z3.Option(z3.Re(z3.StringVal('\n')))
        if c == '\\':
            pos += 1
            c = pat[pos]
            pos += 1
            if c.isalnum():
                raise Unsupported(f'regex {pat!r}: escape \\{c}')
            return z3.Re(z3.StringVal(c))
        if c == '.':
            raise Unsupported(f'regex {pat!r}: dot')
        pos += 1
        return z3.Re(z3.StringVal(c))

    anchored_end = pat.endswith('$') and not pat.endswith('\\$')
    r = parse_alt()
    if pos != n:
        raise Unsupported(f'regex {pat!r}')
    if not anchored_end:
        r = z3.Concat(r, z3.Full(z3.ReSort(z3.StringSort())))
    return r


class MatchObject:
    """Truthy stand-in for a ``re.Match`` (only None-ness is used in /repo)."""

    def __repr__(self):
        return '<match>'


MATCH = MatchObject()


def re_match(pat, s):
    import re
    if isinstance(s, SStr):
        if not isinstance(pat, str):
            raise Unsupported('symbolic regex')
        if pat in ('^[0-9]+$', '[0-9]+$') and s.all_digit_parts():
            return MATCH
        if pat in ('[0-9]+(\\.[0-9]*)?$', '^[0-9]+(\\.[0-9]*)?$') and \
                s.all_digit_parts():
            return MATCH
        zr = compile_regex(pat)
        if bool(mk_bool(z3.InRe(s.z, zr))):
            return MATCH
        return None
    return re.match(pat, s)
