"""Bounded stand-in for C06: inject an interrupt at every low-level write of
the real write_smtlib_to_file, and poll the file from a concurrent reader."""
import builtins
import io
import os
import shutil
import sys
import tempfile
import threading

from harness import replaylib as R
from harness.bounded import Recorder

R.init_ddsmt()
from ddsmt import nodeio, options  # noqa: E402

INPUTS = [
    '(assert (f x y))\n(check-sat)\n',
    '; comment\n(set-logic QF_BV)\n(declare-const x (_ BitVec 8))\n'
    '(assert (= x #x0f))\n',
    '(assert (and ' + ' '.join(f'(> x{i} {i})' for i in range(40)) + '))\n',
]


def main():
    rec = Recorder('C06/native/interrupt-injection',
                   'every low-level write of 3 inputs x 3 modes')
    real_open = builtins.open
    d = tempfile.mkdtemp(prefix='c06-')
    out = os.path.join(d, 'out.smt2')
    old = '(old accepted input)\n'
    for mode in ('default', 'pretty', 'wrap'):
        options.args().pretty_print = mode == 'pretty'
        options.args().wrap_lines = mode == 'wrap'
        for text in INPUTS:
            exprs = list(nodeio.parse_smtlib(text))
            want = nodeio.write_smtlib_to_str(exprs)
            n = 0
            while True:
                n += 1
                with real_open(out, 'w') as f:
                    f.write(old)
                count = [0]

                class F(io.TextIOWrapper):

                    def write(self, s):
                        count[0] += 1
                        if count[0] == n:
                            self.flush()
                            raise KeyboardInterrupt
                        r = super().write(s)
                        self.flush()
                        return r

                def fake_open(path, mode_='r', *a, **k):
                    if 'w' in mode_:
                        return F(io.FileIO(path, 'w'), write_through=True)
                    return real_open(path, mode_, *a, **k)

                builtins.open = fake_open
                interrupted = False
                try:
                    try:
                        nodeio.write_smtlib_to_file(out, exprs)
                    except KeyboardInterrupt:
                        interrupted = True
                finally:
                    builtins.open = real_open
                got = real_open(out).read()
                rec.case((mode, text[:20], n), {'mode': mode, 'write': n})
                if got not in (old, want):
                    rec.violation('interrupted-write',
                                  {'mode': mode, 'input': text[:40],
                                   'interrupt_at_write': n},
                                  f'output file holds {got[:60]!r}')
                    break
                if not interrupted:
                    if got != want:
                        rec.violation('completed-write', mode,
                                      'file differs from rendering')
                    break
                left = [x for x in os.listdir(d) if x != 'out.smt2']
                if left:
                    rec.violation('temporary-left-behind',
                                  {'mode': mode, 'write': n}, repr(left))
                    for x in left:
                        os.unlink(os.path.join(d, x))
    # concurrent reader
    options.args().pretty_print = False
    options.args().wrap_lines = False
    a = list(nodeio.parse_smtlib(INPUTS[2]))
    b = list(nodeio.parse_smtlib(INPUTS[1]))
    ok = {nodeio.write_smtlib_to_str(a), nodeio.write_smtlib_to_str(b)}
    nodeio.write_smtlib_to_file(out, a)
    stop = []
    seen_bad = []

    def reader():
        while not stop:
            try:
                s = real_open(out).read()
            except FileNotFoundError:
                seen_bad.append('<missing>')
                continue
            if s not in ok:
                seen_bad.append(s[:60])

    t = threading.Thread(target=reader)
    t.start()
    for i in range(200):
        nodeio.write_smtlib_to_file(out, a if i % 2 else b)
    stop.append(1)
    t.join()
    rec.case('concurrent-reader', {'rewrites': 200})
    if seen_bad:
        rec.violation('concurrent-reader', {'rewrites': 200},
                      f'reader saw {seen_bad[0]!r} ({len(seen_bad)} times)')
    shutil.rmtree(d, ignore_errors=True)
    rec.finish(exhaustive=False)


if __name__ == '__main__':
    main()
