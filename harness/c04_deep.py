"""Bounded stand-in (C04): nothing in the main-process code paths fails on a
deeply nested input (deeper than Python's recursion limit).

usage: c04_deep.py <depth>
"""
import copy
import pickle
import sys

DEPTH = int(sys.argv[1]) if len(sys.argv) > 1 else 3000

from harness import replaylib as R  # noqa: E402
from harness.bounded import Recorder  # noqa: E402

R.init_ddsmt()
from ddsmt import nodeio, nodes, smtlib, options  # noqa: E402
from ddsmt.nodes import Node  # noqa: E402



def _deep_text(depth, head, leaf):
    return ''.join(f'({head} ' for _ in range(depth)) + leaf + ')' * depth


def main():
    rec = Recorder('C04/native/deep-nesting',
                   f'terms nested {DEPTH} levels deep (unary chains of an '
                   'uninterpreted symbol, bvnot, not) in well-formed and '
                   'ill-formed commands')
    t = _deep_text(DEPTH, 'f', 'x')
    texts = {
        'assert': f'(assert {t})',
        'declare-const-wrong-arity': f'(declare-const y {t} extra)',
        'declare-fun-deep-sort': f'(declare-fun g ({t}) Bool)',
        'define-fun-deep-body': f'(define-fun h () Bool {t})',
        'declare-const-deep-name': f'(declare-const {t} Bool)',
        'declare-datatypes-deep': f'(declare-datatypes ({t}) ({t}))',
        'let-deep': f'(assert (let ((z {t})) z))',
        'bvnot-chain': '(declare-const x (_ BitVec 8))(assert (= x ' +
        _deep_text(DEPTH, 'bvnot', 'x') + '))',
        'not-chain': '(assert ' + _deep_text(DEPTH, 'not', 'true') + ')',
    }

    def attempt(name, what, fn):
        rec.case((name, what), {'input': name, 'operation': what})
        try:
            return fn()
        except Exception as e:  # noqa
            rec.violation('C04/native/deep-nesting/raises-nothing',
                          {'input': name, 'depth': DEPTH},
                          f'{what}: {type(e).__name__}: {str(e)[:80]}')
            return None

    for name, text in texts.items():
        exprs = attempt(name, 'parse', lambda: list(nodeio.parse_smtlib(text)))
        if exprs is None:
            continue
        for mode in ('default', 'pretty', 'wrap'):
            options.args().pretty_print = mode == 'pretty'
            options.args().wrap_lines = mode == 'wrap'
            attempt(name, f'render[{mode}]',
                    lambda: nodeio.write_smtlib_to_str(exprs))
        options.args().pretty_print = False
        options.args().wrap_lines = False
        attempt(name, 'str', lambda: [str(e) for e in exprs])
        attempt(name, 'repr', lambda: [repr(e) for e in exprs])
        attempt(name, 'collect_information',
                lambda: smtlib.collect_information(exprs))
        attempt(name, 'dfs', lambda: sum(1 for _ in nodes.dfs(exprs)))
        attempt(name, 'bfs', lambda: sum(1 for _ in nodes.bfs(exprs)))
        attempt(name, 'count_nodes', lambda: nodes.count_nodes(exprs))
        attempt(name, 'count_exprs', lambda: nodes.count_exprs(exprs))
        attempt(name, 'deepcopy', lambda: copy.deepcopy(exprs[0]))
        attempt(name, 'pickle',
                lambda: pickle.loads(pickle.dumps(exprs)))
        attempt(name, 'eq', lambda: exprs[0] == copy.deepcopy(exprs[0]))
        attempt(name, 'reduplicate', lambda: nodes.reduplicate(exprs))
        attempt(name, 'substitute',
                lambda: nodes.substitute(exprs, {Node('x'): Node('y')}))
        attempt(name, 'is_relevant', lambda: [
            m.is_relevant(e) for e in exprs for m in _theory_modules()
            if hasattr(m, 'is_relevant')])
    rec.finish()


def _theory_modules():
    from ddsmt import mutators
    return [mod for _, (mod, _n) in mutators.get_all_mutators().items()]


if __name__ == '__main__':
    main()
