"""Explicit-stack traversals of trees of unbounded size (C12, C07, C04).

ddSMT walks trees with work lists (``visit = [...]; while visit: x =
visit.pop(); ...; visit.extend(reversed(x.data))``).  To verify such a loop
for *all* trees the work list is abstract:

* ``AbsList`` -- a Python list whose content is a sequence of *parts*
  (bottom to top): concrete items, ``Seg``ments (``wrap(s)`` for every ``s``
  of a z3 sequence of node structures, in order or reversed -- what a
  comprehension over ``reversed(node.data)`` produces) and at most one
  ``Opaque`` part at the bottom: unknown items described only by their
  *denotation* (a ghost value: what processing them will still contribute).
* the LoopSpec havocs the list to ``[Opaque(D)]``; ``pop()`` on it yields a
  generic item ``x`` with ``D == den(x) (+) D'`` (the contract's ``split``),
  and the loop invariant relates the ghost output so far and the denotation
  of the list to the specification function of the whole input.

The specification functions (PRE/PREL, SIZE/SIZEL, FLAT/FLATL ...) are
uninterpreted; their defining equations (structural recursion over the
s-expression datatype) are instantiated for the popped node.
"""
import z3

from pyvc import sym
from pyvc.interp import Env, ObjVal, PyRaise, Unsupported, _hkey
from pyvc.sym import SNum, mk_bool, cur
from . import nodemodel as nm

Struct, SeqS = nm.Struct, nm.SeqS


class Seg(sym.Abstract):
    """wrap(node(s)) for s in seq (list order: seq order, or reversed)."""

    def __init__(self, seq, wrap=None, rev=False, name='k', cond=None):
        self.seq = seq
        self.wrap = wrap
        self.rev = rev
        self.name = name
        self.cond = cond  # filter of a comprehension (node -> truth)
        self._n = None
        self.owner = None  # the node whose children these are (if known)

    def length(self):
        if self.cond is None:
            return z3.Length(self.seq)
        if self._n is None:
            # number of elements that pass the filter: unknown
            p = cur()
            self._n = p.fresh_int('passing_' + self.name)
            p.assume(z3.And(self._n >= 0, self._n <= z3.Length(self.seq)))
        return self._n


class Opaque(sym.Abstract):
    """Unknown items; ``den`` is their denotation, ``split(e, den)`` returns
    (generic top item, denotation of the rest)."""

    def __init__(self, den, split, nonempty, top_end=True):
        self.den = den
        self.split = split
        self.nonempty = nonempty  # den -> z3 Bool: "some item is left"
        self.top_end = top_end  # items are taken from the top (stack) or
        #                         from the bottom (queue) of this part


class AbsList(sym.Abstract):

    def __init__(self, eng, parts=()):
        self.eng = eng
        self.parts = list(parts)

    # -- list protocol used by the traversals --------------------------------
    def append(self, x):
        self.parts.append(('item', x))

    def extend(self, other):
        other = as_abs(self.eng, other)
        self.parts.extend(other.parts)

    def _drop_empty(self, top_end=True):
        """Remove empty parts at the given end; True if an item is left."""
        e = self.eng
        idx = -1 if top_end else 0
        while self.parts:
            part = self.parts[idx]
            if isinstance(part, tuple):
                return True
            if isinstance(part, Seg):
                if e.truth(mk_bool(part.length() > 0)):
                    return True
            elif isinstance(part, Opaque):
                if e.truth(mk_bool(part.nonempty(part.den))):
                    return True
            self.parts.pop(idx)
        return False

    def nonempty(self):
        return self._drop_empty(True)

    def pop(self, *a):
        if a:
            raise Unsupported('AbsList.pop(index)')
        if not self._drop_empty(True):
            raise PyRaise(IndexError('pop from empty list'))
        return self._take(True)

    def popleft(self):
        if not self._drop_empty(False):
            raise PyRaise(IndexError('pop from an empty deque'))
        return self._take(False)

    def _take(self, top_end):
        e = self.eng
        idx = -1 if top_end else 0
        part = self.parts[idx]
        if isinstance(part, tuple):
            self.parts.pop(idx)
            return part[1]
        if isinstance(part, Opaque):
            if top_end != part.top_end:
                raise Unsupported('opaque part taken from the other end')
            item, rest = part.split(e, part.den)
            self.parts[idx] = Opaque(rest, part.split, part.nonempty,
                                     part.top_end)
            return item
        # segment in list order seq (or reversed): which end of seq?
        if part.cond is not None:
            raise Unsupported('taking an element of a filtered segment')
        n = part.length()
        first = (part.rev and top_end) or (not part.rev and not top_end)
        if first:
            s = part.seq[0]
            rest = z3.SubSeq(part.seq, 1, n - 1)
        else:
            s = part.seq[n - 1]
            rest = z3.SubSeq(part.seq, 0, n - 1)
        p = cur()
        node = nm.lazy_node(e, p, p.fresh_name(part.name), sterm=s)
        self.parts[idx] = Seg(z3.simplify(rest), part.wrap, part.rev,
                              part.name)
        return part.wrap(node) if part.wrap else node

    def __repr__(self):
        return f'<AbsList {self.parts!r}>'


class RevView(sym.Abstract):

    def __init__(self, lst):
        self.lst = lst


def as_abs(eng, x):
    """View of a value as an abstract list (for extend / comprehension)."""
    if isinstance(x, AbsList):
        return x
    if isinstance(x, nm.STuple):
        sg = Seg(x.seq_term(), None, False, x.owner.tag['name'] + '_kid')
        if x.start == 0:
            sg.owner = x.owner
        return AbsList(eng, [sg])
    if isinstance(x, RevView):
        a = as_abs(eng, x.lst)
        parts = []
        for part in reversed(a.parts):
            if isinstance(part, tuple):
                parts.append(part)
            elif isinstance(part, Seg):
                sg2 = Seg(part.seq, part.wrap, not part.rev, part.name,
                          part.cond)
                sg2.owner = part.owner
                parts.append(sg2)
            else:
                raise Unsupported('reversed() of an opaque list')
        return AbsList(eng, parts)
    if isinstance(x, (list, tuple)):
        return AbsList(eng, [('item', v) for v in x])
    if isinstance(x, ObjVal) and x.cls is nm.node_class(eng):
        # iterating a node iterates its children (legacy __getitem__)
        d = eng.getattr(x, 'data')
        if isinstance(d, nm.STuple):
            return as_abs(eng, d)
    raise Unsupported(f'abstract list view of {type(x).__name__}')


def forest(eng, p, name='F'):
    """An arbitrary list of nodes (the input of a traversal)."""
    F = z3.Const(p.fresh_name(name), SeqS)
    return AbsList(eng, [Seg(F, None, False, name.lower())]), F


def pre_install(eng):
    """Before ddsmt.nodes is loaded: collections.deque() is an abstract
    list used as a queue."""
    import collections
    import types
    eng.native_modules['collections'] = types.SimpleNamespace(
        deque=lambda *a: AbsList(eng, as_abs(eng, a[0]).parts if a else []),
        OrderedDict=collections.OrderedDict,
        namedtuple=collections.namedtuple)


def install(eng):
    eng.truth_handlers[AbsList] = lambda e, a: a.nonempty()

    # reversed(node) / iteration of a lazy node go through its children
    def rev_obj(e, x, n):
        d = e.getattr(x, 'data')
        if isinstance(d, nm.STuple):
            return RevView(d)
        raise Unsupported('reversed() of a symbolic-length object')

    eng.reversed_handlers['obj'] = rev_obj
    eng.isinstance_handlers[AbsList] = lambda e, x, c: isinstance(
        c, type) and issubclass(list, c)
    eng.isinstance_handlers[RevView] = lambda e, x, c: False
    eng.reversed_handlers[nm.STuple] = lambda e, t: RevView(t)
    eng.reversed_handlers[AbsList] = lambda e, a: RevView(a)

    # -- random access / slicing / concatenation of a list that is one plain
    # segment (the input list of introduce_variables) -----------------------
    def plain_seq(a):
        if len(a.parts) == 1 and isinstance(a.parts[0], Seg) and \
                a.parts[0].wrap is None and not a.parts[0].rev and \
                a.parts[0].cond is None:
            return a.parts[0]
        return None

    def whole_seq(e, a):
        """z3 sequence of the structures of a list of nodes"""
        out = []
        for part in a.parts:
            if isinstance(part, tuple):
                out.append(z3.Unit(nm.S(part[1])))
            elif isinstance(part, Seg) and part.wrap is None and \
                    part.cond is None and not part.rev:
                out.append(part.seq)
            else:
                raise Unsupported('sequence view of this abstract list')
        if not out:
            return z3.Empty(SeqS)
        return out[0] if len(out) == 1 else z3.Concat(*out)

    eng.whole_seq = whole_seq

    def abs_len(e, a):
        n = z3.IntVal(0)
        for part in a.parts:
            if isinstance(part, tuple):
                n = n + 1
            elif isinstance(part, Seg):
                n = n + part.length()
            elif z3.is_expr(part.den) and part.den.sort() == z3.IntSort():
                n = n + part.den
            else:
                raise Unsupported('len() of a list with an opaque part')
        return sym.mk_num(z3.simplify(n))

    eng.len_handlers[AbsList] = abs_len

    def abs_getitem(e, a, key):
        sg = plain_seq(a)
        if sg is None:
            raise Unsupported('indexing an abstract list that is not one '
                              'plain segment')
        n = z3.Length(sg.seq)
        if isinstance(key, slice):
            if key.step not in (None, 1):
                raise Unsupported('slice with a step')
            lo = 0 if key.start is None else key.start
            hi = n if key.stop is None else key.stop
            lo = lo.z if isinstance(lo, SNum) else lo
            hi = hi.z if isinstance(hi, SNum) else hi
            p = cur()
            # within bounds (Python clamps; the contract states the bounds)
            if not e.truth(mk_bool(z3.And(0 <= lo, lo <= hi, hi <= n))):
                raise Unsupported('slice bounds outside 0 <= lo <= hi <= len')
            return AbsList(e, [Seg(z3.SubSeq(sg.seq, lo, hi - lo), None,
                                   False, sg.name)])
        k = key.z if isinstance(key, SNum) else key
        if isinstance(k, bool) or not (isinstance(k, int) or z3.is_expr(k)):
            raise PyRaise(TypeError('list indices must be integers'))
        if e.truth(mk_bool(z3.And(k >= 0, k < n))):
            idx = k
        elif e.truth(mk_bool(z3.And(k < 0, k >= -n))):
            idx = k + n
        else:
            raise PyRaise(IndexError('list index out of range'))
        p = cur()
        return nm.lazy_node(e, p, p.fresh_name(sg.name), sterm=sg.seq[idx])

    eng.getitem_handlers[AbsList] = abs_getitem

    import ast as _ast

    def abs_add(e, op, x, y):
        if not isinstance(x, (AbsList, list)) or not isinstance(
                y, (AbsList, list)):
            return NotImplemented
        return AbsList(e, as_abs(e, x).parts + as_abs(e, y).parts)

    eng.binop_handlers[(_ast.Add, AbsList)] = abs_add
    eng.binop_handlers[(_ast.Add, None, AbsList)] = abs_add

    def comp(e, it, node, env, mod, clsctx):
        """[elt for target in <abstract sequence>] without conditions."""
        import ast
        g = node.generators[0]
        if len(node.generators) != 1 or isinstance(
                node, (ast.DictComp, ast.SetComp)):
            return NotImplemented
        if isinstance(it, ObjVal) and not (
                it.cls is nm.node_class(e) and isinstance(
                    e.getattr(it, 'data'), nm.STuple)):
            return NotImplemented
        src = as_abs(e, it)
        func = env.func if env is not None else None
        trivial = isinstance(node.elt, ast.Name) and isinstance(
            g.target, ast.Name) and node.elt.id == g.target.id

        def compose(inner):

            def wrap(n):
                x = inner(n) if inner else n
                if trivial:
                    return x
                cenv = Env(env, func)
                e.assign(g.target, x, cenv, mod, clsctx)
                return e.eval(node.elt, cenv, mod, clsctx)

            return wrap

        def make_cond(inner):
            if not g.ifs:
                return None

            def cond(n):
                x = inner(n) if inner else n
                cenv = Env(env, func)
                e.assign(g.target, x, cenv, mod, clsctx)
                return all(e.truth(e.eval(c, cenv, mod, clsctx))
                           for c in g.ifs)

            return cond

        parts = []
        for part in src.parts:
            if isinstance(part, tuple):
                c = make_cond(None)
                if c is None or c(part[1]):
                    parts.append(('item', compose(None)(part[1])))
            elif isinstance(part, Seg):
                if part.cond is not None and g.ifs:
                    return NotImplemented
                sg2 = Seg(part.seq, compose(part.wrap), part.rev,
                          part.name, make_cond(part.wrap) or part.cond)
                sg2.owner = part.owner
                parts.append(sg2)
            else:
                return NotImplemented
        return AbsList(e, parts)

    for t in (AbsList, RevView, nm.STuple, ObjVal):
        eng.comp_handlers[t] = comp

    # list.extend(abstract) on a *real* list is not supported; the
    # traversals build their work lists from comprehensions (abstract)
    def list_ctor(e, it=()):
        if isinstance(it, (AbsList, RevView)):
            return as_abs(e, it)
        return list0(e, it)

    list0 = eng.native_handlers[_hkey(list)]
    eng.native_handlers[_hkey(list)] = list_ctor


def harness_replay(script, args, decides):
    """Replay by search: the bounded native harness of the same functions is
    run on the tree the obligations came from; a violated run-time contract
    there is the failing input."""
    import os
    verif = os.path.dirname(os.path.dirname(os.path.abspath(__file__)))

    def replay(name, model, detail):
        src = f"""
import subprocess, sys, os
r = subprocess.run([sys.executable, {os.path.join(verif, script)!r}] + {
            [str(a) for a in args]!r}, capture_output=True, text=True,
                   env=os.environ)
lines = [l for l in r.stdout.splitlines() if l.startswith('VIOLATED')]
for l in lines[:3]:
    print(l[:400])
if r.returncode not in (0, 1):
    print(r.stderr[-800:])
    sys.exit(0)
print('harness exit', r.returncode)
sys.exit(1 if lines else 0)
"""
        return {'script': src, 'search': True, 'decides': decides}

    return replay
