"""Entry point: ./check <ID> [--tier quick|thorough]"""
import argparse
import os
import sys

PROPS = {
    'C09': ('contracts.c09', 'proof',
            'acceptance rule and invocation: matches_golden/check/execute/'
            'get_tmp_filename against the documented rule'),
    'C10': ('contracts.c10', 'proof',
            'time/memory limit wiring: execute/limit_resources/'
            'do_golden_runs/matches_golden on timed-out records'),
    'C04': ('contracts.c04', 'proof',
            'exception freedom of main-process functions on all '
            's-expression shapes / texts / lists of any size (scanner, '
            'renderers, traversals, rebuilding traversals unbounded); '
            'containment of mutator failures; interrupts; exit status; deep '
            'nesting native'),
    'C12': ('contracts.c12', 'exploration',
            'unbounded: Node.__eq__ on two trees, __deepcopy__, dfs / bfs (incl. '
            'max_depth), count_nodes, count_exprs, filter_nodes, binary_search; '
            'shape-bounded: __eq__/__hash__ on all shape pairs incl. '
            'coercions; native: pickle'),
    'C11': ('contracts.c11', 'proof',
            'unbounded: substitute (structural keys against the reference '
            'substitution; identity keys by per-node contributions and '
            'per-level assembly; identity of untouched nodes), '
            'introduce_variables on lists of any length; shape-bounded / '
            'native as cross-check; apply_simp wiring symbolic'),
    'C13': ('contracts.c13', 'exploration',
            'call sites proved; reduplicate unbounded for structure/tokens '
            'and the local id rules; global distinctness of ids on sharing '
            'patterns (shape-bounded) and DAGs (native)'),
    'C02': ('contracts.c02', 'proof',
            'hierarchical reduce: a pass is left only after an unsuccessful '
            'fresh sweep (loop invariants over all schedules); '
            'Producer.generate complete for inputs / mutator lists / '
            'proposal streams of any length; last pass holds every enabled '
            'mutator'),
    'C05': ('contracts.c05', 'proof',
            'chain of accepted inputs, no stale adoption: loop invariants '
            'over both strategies with havocked completion orders'),
    'C01': ('contracts.c01', 'proof',
            'every write is of an accepted list, result is last written, '
            'only the output file is written (loop invariants, all '
            'schedules)'),
    'C06': ('contracts.c06', 'proof',
            'crash-point invariant of write_smtlib_to_file over a ghost '
            'file system; interrupt handlers write nothing'),
    'C07': ('contracts.c07', 'exploration',
            'four renderers, Node.__str__, write_smtlib: tokens written == '
            'FLAT(input) by ghost denotation of the work list (unbounded); '
            're-parsing the character text bounded'),
    'C08': ('contracts.c08', 'proof',
            'scanner: loop invariants + per-iteration reader step over an '
            'array-modelled text; exhaustive comparison with a reference '
            'reader over class strings as bounded complement'),
    'C14': ('contracts.c14', 'proof',
            'option actions step contracts, registry, get_mutators, pass '
            'construction, theory detection'),
    'C16': ('contracts.c16', 'proof',
            'sort/width inference against a typing table, per operator '
            'schema with opaque operands (structural induction)'),
    'C17': ('contracts.c17', 'proof',
            'documented identities: schematic instances through the real '
            'filter/mutations, denotation in z3; constant evaluation '
            'bounded'),
    'C15': ('contracts.c15', 'exploration',
            'all proposals of all mutators on a corpus: applicable, '
            'lexically closed, fresh names fresh'),
    'C18': ('contracts.c18', 'exploration',
            'determinism reads scan + repeat runs under hash seeds/timing'),
    'C03': ('contracts.c03', 'exploration',
            'per-call termination parts and two-step cycle search; whole-run '
            'termination not decidable by contracts'),
}


def replay(path):
    """Replay a recorded violation: run the native script stored next to the
    record on the current /repo (exit 1 = the failing input still fails),
    or, for a record without failing input, show the failed obligation and
    the verifier's output."""
    import json
    import subprocess
    rec = json.load(open(path))
    print('property  :', rec.get('property'))
    print('obligation:', rec.get('obligation'))
    print('signature :', rec.get('signature'))
    script = path[:-5] + '.py' if path.endswith('.json') else None
    verif = os.path.dirname(os.path.dirname(os.path.abspath(__file__)))
    repo = os.environ.get('PYVC_REPO', '/repo')
    if script and os.path.exists(script):
        env = dict(os.environ, PYTHONPATH=repo + os.pathsep + verif)
        r = subprocess.run(['/venv/bin/python', script], env=env,
                           capture_output=True, text=True, timeout=600)
        print(r.stdout[-3000:])
        if r.returncode not in (0, 1):
            print(r.stderr[-2000:])
        print('replay exit', r.returncode,
              '(1 = the input still fails on the current tree)')
        return 1 if r.returncode == 1 else 0
    rp = rec.get('replay') or {}
    if rp.get('native_check'):
        print('found by the native check', rp['native_check'], 'on input:')
        print(json.dumps(rp.get('failing_input'), indent=1)[:2000])
        print('what:', rp.get('what'))
        return 1
    print('no failing input was found for this obligation; counterexample of '
          'the verifier:')
    print(json.dumps(rec.get('counterexample'), indent=1)[:3000])
    if rec.get('verifier_output'):
        print(str(rec['verifier_output'])[:3000])
    return 1


def main():
    if len(sys.argv) == 3 and sys.argv[1] == '--replay':
        return replay(sys.argv[2])
    ap = argparse.ArgumentParser()
    ap.add_argument('prop')
    ap.add_argument('--tier', default=os.environ.get('VERIF_TIER', 'quick'))
    ap.add_argument('--record-baseline', action='store_true')
    a = ap.parse_args()
    if a.prop not in PROPS:
        print(f'unknown property {a.prop}')
        return 3
    sys.setrecursionlimit(20000)
    from . import api
    modname, level, title = PROPS[a.prop]
    tier = 'thorough' if a.tier == 'thorough' else 'quick'
    return api.run_property(a.prop, modname, tier, level, title,
                            record_baseline=a.record_baseline)


if __name__ == '__main__':
    sys.exit(main())
