SETUP = 'python3-vt -B -m pyvc.selfcheck --fast'
HOOKS = {
    'guard': 'DDSMT_VERIF',
    'enable': 'no hooks: contracts are sidecar files under /verif/contracts keyed by qualified function name; /repo sources are re-read and interpreted on every run, never edited',
    'baseline_off_cmd': 'cd /repo && /venv/bin/python -m pytest -q -p no:cacheprovider --timeout=900',
    'source_commits': [],
    'add_only': True,
}
ENGINES = [{
    'name': 'pyvc',
    'path': 'pyvc/',
    'serves_properties': [],
    'kind_free_text': 'self-built verification-condition generator: AST interpreter of the real /repo/ddsmt sources with symbolic values (z3 Int/Real/Bool/String), path-wise weakest-precondition style obligations against sidecar contracts, loop invariants, callee contracts at call sites; obligations discharged by z3 5.1 (cvc5 1.0.3 for z3 unknowns). Bounded stand-ins (native run-time contracts over enumerated domains) are reported separately and never counted as proved.',
}]
NOTES = 'Exit codes of ./check: 0 held, 1 violation (VIOLATION line), 2 undecided (solver unknown / unsupported construct / spurious counterexample, no VIOLATION line), 3 checker problem. Genuine defects repaired in /repo are listed in known_findings.json under "fixed".'
NOT_APPLICABLE = {}
CHECKS = {
    'C09': {
        'category': 'proof',
        'text': 'All obligations are discharged by z3 for every value of the exit codes, streams (text or None), match strings, ignore flags, cross-check options: matches_golden() returns exactly the documented rule, check() wires options/golden records/cross check as documented (callee matches_golden used through its contract), execute() starts cmd+[file] exactly once unless --unchecked, get_tmp_filename() keeps the input extension and is process-private. Loop-free code, so the proof is complete, not bounded.',
        'note': 'Assumed: argparse gives option attributes their declared types; subprocess.Popen starts argv as given; os.path.splitext/join modelled (uninterpreted extension function); an empty match string counts as absent; floats as reals.',
        'technique': 'contract-based deductive verification: path-wise VCs from the real AST, z3',
    },
}
