"""AST interpreter for the Python subset ddSMT uses.

Concrete values are native Python values; symbolic scalars are the wrapper
classes of ``sym``; instances of classes defined in /repo are ``ObjVal``.
Statements are executed by generator functions so that ``yield`` in the
interpreted code is a native ``yield`` (interpreted generators are lazy).
"""
import ast
import builtins
import hashlib
import importlib
import inspect
import operator
import os
import types

import z3

from . import sym
from .sym import (SBool, SNum, SStr, SOpt, Unsupported, PathAbort, force,
                  is_sym, mk_bool, cur)

REPO = os.environ.get('PYVC_REPO', '/repo')


class PyRaise(Exception):
    """An exception raised by interpreted code; ``value`` is the interpreted
    exception object (native exception instance or ObjVal)."""

    def __init__(self, value, where=None):
        super().__init__(repr(value))
        self.value = value
        self.where = where


class _Return(Exception):

    def __init__(self, value):
        self.value = value


class _Break(Exception):
    pass


class _Continue(Exception):
    pass


class ModuleVal:

    def __init__(self, name, path=None):
        self.name = name
        self.path = path
        self.g = {'__name__': name}
        self.source = None
        self.tree = None

    def __repr__(self):
        return f'<module {self.name}>'


class FuncVal:

    def __init__(self, node, env, module, qualname, cls=None, lam=False):
        self.node = node
        self.env = env  # enclosing Env or None
        self.module = module
        self.qualname = qualname
        self.cls = cls  # ClassVal in whose body it was defined (mangling)
        self.lam = lam
        self.defaults = []
        self.kw_defaults = {}
        self.is_generator = (not lam) and _has_yield(node)
        self.name = 'lambda' if lam else node.name

    def __repr__(self):
        return f'<function {self.qualname}>'


class ClassVal:

    def __init__(self, name, bases, module, qualname):
        self.name = name
        self.bases = bases
        self.module = module
        self.qualname = qualname
        self.ns = {}
        self.mro = self._mro()

    def _mro(self):
        out = [self]
        for b in self.bases:
            if isinstance(b, ClassVal):
                for c in b.mro:
                    if c not in out:
                        out.append(c)
            else:
                for c in b.__mro__:
                    if c not in out:
                        out.append(c)
        return out

    def lookup(self, name):
        for c in self.mro:
            if isinstance(c, ClassVal):
                if name in c.ns:
                    return c.ns[name], c
            else:
                if name in c.__dict__:
                    return c.__dict__[name], c
        raise KeyError(name)

    def __repr__(self):
        return f'<class {self.qualname}>'


class ObjVal:
    __slots__ = ('cls', 'attrs', 'tag')

    def __init__(self, cls):
        self.cls = cls
        self.attrs = {}
        self.tag = None

    def __repr__(self):
        return f'<{self.cls.name} object {self.attrs!r}>'

    # ObjVal must never be hashed/compared natively by accident
    __hash__ = object.__hash__


class BoundMethod:
    __slots__ = ('func', 'self_')

    def __init__(self, func, self_):
        self.func = func
        self.self_ = self_


class ClassMethod:

    def __init__(self, func):
        self.func = func


class SuperProxy:

    def __init__(self, cls, obj):
        self.cls = cls
        self.obj = obj


class Env:
    __slots__ = ('vars', 'parent', 'func', 'globals_decl', 'nonlocals_decl')

    def __init__(self, parent, func):
        self.vars = {}
        self.parent = parent
        self.func = func
        self.globals_decl = set()
        self.nonlocals_decl = set()


def _has_yield(fn):
    for n in ast.walk(fn):
        if n is fn:
            continue
        if isinstance(n, (ast.Yield, ast.YieldFrom)):
            # make sure it belongs to this function, not a nested def
            return _owns(fn, n)
    return False


def _owns(fn, target):
    stack = list(ast.iter_child_nodes(fn))
    while stack:
        n = stack.pop()
        if n is target:
            return True
        if isinstance(n, (ast.FunctionDef, ast.Lambda, ast.AsyncFunctionDef)):
            continue
        stack.extend(ast.iter_child_nodes(n))
    # there may be other yields owned by fn
    for n in ast.walk(fn):
        if isinstance(n, (ast.Yield, ast.YieldFrom)) and n is not target:
            pass
    return any(
        isinstance(m, (ast.Yield, ast.YieldFrom)) for m in _own_nodes(fn))


def _own_nodes(fn):
    stack = list(ast.iter_child_nodes(fn))
    while stack:
        n = stack.pop()
        yield n
        if isinstance(n, (ast.FunctionDef, ast.Lambda, ast.AsyncFunctionDef)):
            continue
        stack.extend(ast.iter_child_nodes(n))


def _local_names(fn):
    """Names bound in the function body (so lookups know they are local)."""
    names = set()
    if isinstance(fn, ast.Lambda):
        return names
    for n in _own_nodes(fn):
        if isinstance(n, ast.Name) and isinstance(n.ctx, (ast.Store, ast.Del)):
            names.add(n.id)
        elif isinstance(n, (ast.FunctionDef, ast.ClassDef)):
            names.add(n.name)
        elif isinstance(n, ast.ExceptHandler) and n.name:
            names.add(n.name)
        elif isinstance(n, (ast.Import, ast.ImportFrom)):
            for a in n.names:
                names.add((a.asname or a.name).split('.')[0])
    return names


class UnboundLocal:
    pass


class StarArgs:
    """``*xs`` of an abstract sequence, passed on to the binder."""

    def __init__(self, value):
        self.value = value


class Poisoned:
    """Value of a local that a loop body assigns but its LoopSpec does not
    havoc: reading it before it is assigned again would use a stale value,
    so it is refused (soundness guard for invariant-based loops)."""


def _names_assigned(stmts):
    names = set()
    for st in stmts:
        for n in ast.walk(st):
            if isinstance(n, ast.Name) and isinstance(n.ctx,
                                                      (ast.Store, ast.Del)):
                names.add(n.id)
            elif isinstance(n, ast.ExceptHandler) and n.name:
                names.add(n.name)
    return names


# syntactic call targets whose calls are dropped (arguments not evaluated)
DROPPED_PREFIXES = ('logging.', 'progress.', 'traceback.print_tb')
DROPPED_NAMES = ('_print_progress', )
DROPPED_ATTRS = ('debug_utils.dump_diff', )


def _dotted(node):
    if isinstance(node, ast.Name):
        return node.id
    if isinstance(node, ast.Attribute):
        b = _dotted(node.value)
        if b is not None:
            return b + '.' + node.attr
    return None


def _all_dropped(body):
    for st in body:
        if isinstance(st, ast.Pass):
            continue
        if isinstance(st, ast.Expr) and isinstance(st.value, ast.Call):
            d = _dotted(st.value.func)
            if d is not None and (d.startswith(DROPPED_PREFIXES) or
                                  d in DROPPED_NAMES or d in DROPPED_ATTRS):
                continue
        return False
    return True


class LoopSpec:
    """Invariant for a loop, keyed by (function qualname, loop ordinal)."""

    def __init__(self, inv, havoc=None, elem=None, exhausted=None,
                 decreases=None, name=None, on_entry=None, on_break=None,
                 on_iter_start=None, on_iter_end=None, on_return=None,
                 sets=()):
        # locals that 'effect:' havoc functions assign (declared, so that the
        # stale-value guard does not mistake an unchanged None for a miss)
        self.sets = set(sets)
        self.on_entry = on_entry  # callable(engine, env, path): snapshots
        self.on_break = on_break  # callable(engine, env, path) at `break`
        # per-iteration contract of the arbitrary iteration: snapshot at its
        # start, obligations at its end (normal end / continue) or when the
        # body returns from the function
        self.on_iter_start = on_iter_start
        self.on_iter_end = on_iter_end
        self.on_return = on_return
        self.inv = inv  # callable(engine, env) -> SBool/bool/z3
        self.havoc = havoc or {}  # var -> callable(engine, env, path)->value
        self.elem = elem  # callable(engine, env, path) -> element (for loops)
        self.exhausted = exhausted  # callable(engine, env, path) assumption
        self.decreases = decreases
        self.name = name


class _GuardedSpec:
    """A LoopSpec whose callbacks turn their own failures (a local of the
    code that no longer exists, a value of an unexpected type) into
    'unsupported': the contract does not fit this version of the code, which
    is undecided, not a crash and not a violation."""

    def __init__(self, spec):
        self._spec = spec

    def __getattr__(self, name):
        v = getattr(self._spec, name)
        if name == 'havoc':
            return {k: self._wrap(f, 'havoc') for k, f in v.items()}
        if callable(v):
            return self._wrap(v, name)
        return v

    @staticmethod
    def _wrap(f, what):

        def g(*a, **k):
            try:
                return f(*a, **k)
            except (KeyError, AttributeError, TypeError, IndexError) as ex:
                raise Unsupported(
                    f'loop contract ({what}) does not fit the code: '
                    f'{type(ex).__name__}: {ex}')

        return g


class Engine:

    def __init__(self, repo=REPO):
        self.repo = repo
        self.modules = {}
        self.native_modules = {}  # name -> replacement object (env models)
        self.overrides = {}  # qualified name -> python callable(engine,*a,**k)
        self.loop_specs = {}  # (qualname, ordinal) -> LoopSpec
        # functions in which every loop must have a LoopSpec
        self.spec_required = set()
        self.comp_handlers = {}  # type of the iterable -> handler
        self.strict_loops = True
        self.spec_missing = []
        # loops over concrete sequences in functions with loop contracts
        self.concrete_loops = {
            ('ddsmt.smtlib.collect_information',
             'for id in range(len(sorts))'),
            ('ddsmt.strategy_hierarchical.reduce',
             'for passid in range(len(passes))'),
        }
        self.call_hooks = {}
        self.sources = {}
        self.steps = 0
        self.max_steps = 2_000_000
        self.iter_bound = 6  # unrolling bound for symbolic-length sequences
        self.dropped_calls = 0
        self.native_handlers = {}
        self.method_handlers = {}
        # modules not interpreted (stated in the evidence as dropped)
        self.module_stubs = {'ddsmt.version': {'VERSION': 'pyvc'}}
        self.stack = []
        self._install_builtins()

    # ------------------------------------------------------------------
    # modules

    def source_path(self, modname):
        if modname == 'bin.ddsmt':
            return os.path.join(self.repo, 'bin', 'ddsmt')
        return os.path.join(self.repo, *modname.split('.')) + '.py'

    def load_module(self, modname):
        if modname in self.modules:
            return self.modules[modname]
        if modname in self.module_stubs:
            mod = ModuleVal(modname)
            mod.g.update(self.module_stubs[modname])
            self.modules[modname] = mod
            return mod
        path = self.source_path(modname)
        if not os.path.exists(path):
            pkg = os.path.join(self.repo, *modname.split('.'), '__init__.py')
            if os.path.exists(pkg):
                path = pkg
            else:
                raise Unsupported(f'no source for module {modname}')
        with open(path) as f:
            src = f.read()
        mod = ModuleVal(modname, path)
        mod.source = src
        mod.tree = ast.parse(src, path)
        self.sources[modname] = hashlib.sha256(src.encode()).hexdigest()[:16]
        self.modules[modname] = mod
        mod.g['__file__'] = path
        mod.g['__package__'] = modname.rsplit('.', 1)[0] \
            if '.' in modname else modname
        self._number_loops(mod)
        env = None
        try:
            for _ in self.exec_block(mod.tree.body, env, mod, None):
                raise Unsupported('yield at module level')
        except BaseException:
            self.modules.pop(modname, None)
            raise
        return mod

    def run_script(self, path, name='__main__', g=None):
        """Execute a source file as a script (module name ``name``)."""
        with open(path) as f:
            src = f.read()
        mod = ModuleVal(name, path)
        mod.source = src
        mod.tree = ast.parse(src, path)
        self.sources[os.path.relpath(path, self.repo)] = hashlib.sha256(
            src.encode()).hexdigest()[:16]
        mod.g['__file__'] = path
        mod.g['__package__'] = ''
        if g:
            mod.g.update(g)
        self._number_loops(mod)
        for _ in self.exec_block(mod.tree.body, None, mod, None):
            raise Unsupported('yield at module level')
        return mod

    def _number_loops(self, mod):
        """Attach a key (function qualname, loop header text) to every loop
        for LoopSpec lookup; a repeated header gets '#2', '#3', ..."""

        def visit(node, qual):
            seen = {}

            def walk(n):
                for ch in ast.iter_child_nodes(n):
                    if isinstance(ch, (ast.FunctionDef, )):
                        visit(ch, (qual + '.' if qual else '') + ch.name)
                    elif isinstance(ch, ast.ClassDef):
                        visit(ch, (qual + '.' if qual else '') + ch.name)
                    else:
                        if isinstance(ch, ast.For):
                            txt = (f'for {ast.unparse(ch.target)} in '
                                   f'{ast.unparse(ch.iter)}')
                        elif isinstance(ch, ast.While):
                            txt = f'while {ast.unparse(ch.test)}'
                        else:
                            txt = None
                        if txt is not None:
                            k = seen.get(txt, 0) + 1
                            seen[txt] = k
                            if k > 1:
                                txt = f'{txt}#{k}'
                            ch._loop_key = (mod.name + '.' + qual, txt)
                        walk(ch)

            walk(node)

        visit(mod.tree, '')

    def import_native(self, name):
        if name in self.native_modules:
            return self.native_modules[name]
        return importlib.import_module(name)

    def function(self, qualname):
        """Look up 'ddsmt.mod.func' or 'ddsmt.mod.Class.method'."""
        parts = qualname.split('.')
        if os.path.exists(self.source_path(qualname)):
            return self.load_module(qualname)
        for i in range(len(parts) - 1, 0, -1):
            modname = '.'.join(parts[:i])
            if os.path.exists(self.source_path(modname)):
                mod = self.load_module(modname)
                obj = mod.g[parts[i]]
                for p in parts[i + 1:]:
                    if isinstance(obj, ClassVal):
                        nm = p
                        if p.startswith('__') and not p.endswith('__'):
                            nm = '_' + obj.name.lstrip('_') + p
                        obj = obj.ns[nm]
                    else:
                        obj = getattr(obj, p)
                return obj
        raise Unsupported(f'cannot resolve {qualname}')

    # ------------------------------------------------------------------
    # names

    def mangle(self, name, func, clsctx):
        if name.startswith('__') and not name.endswith('__'):
            cls = clsctx
            if cls is None and func is not None:
                cls = func.cls
            if cls is not None:
                return '_' + cls.name.lstrip('_') + name
        return name

    def lookup(self, name, env, mod):
        e = env
        while e is not None:
            if name in e.globals_decl:
                break
            if name in e.vars:
                v = e.vars[name]
                if v is UnboundLocal:
                    raise PyRaise(
                        UnboundLocalError(
                            f"cannot access local variable '{name}'"))
                if v is Poisoned:
                    raise Unsupported(
                        f'local {name!r} is assigned in a loop whose '
                        'LoopSpec does not havoc it')
                return v
            e = e.parent
        if name in mod.g:
            return mod.g[name]
        if name in self.builtins:
            return self.builtins[name]
        raise PyRaise(NameError(f"name '{name}' is not defined"))

    def store(self, name, value, env, mod):
        if env is None:
            mod.g[name] = value
            return
        if name in env.globals_decl:
            mod.g[name] = value
            return
        if name in env.nonlocals_decl:
            e = env.parent
            while e is not None:
                if name in e.vars:
                    e.vars[name] = value
                    return
                e = e.parent
        env.vars[name] = value

    # ------------------------------------------------------------------
    # statements (generators)

    def exec_block(self, stmts, env, mod, clsctx):
        for s in stmts:
            yield from self.exec_stmt(s, env, mod, clsctx)

    def exec_stmt(self, s, env, mod, clsctx):  # noqa: C901
        self.steps += 1
        if self.steps > self.max_steps:
            raise Unsupported('step budget exhausted')
        ev = lambda e: self.eval(e, env, mod, clsctx)  # noqa: E731
        t = type(s)
        sym.LAST_LINE = (mod.name, s.lineno)
        if t is ast.Expr:
            v = s.value
            if isinstance(v, ast.Yield):
                yield (ev(v.value) if v.value is not None else None)
                return
            if isinstance(v, ast.YieldFrom):
                yield from self.iterate(ev(v.value))
                return
            if isinstance(v, ast.Constant):
                return  # docstring
            ev(v)
            return
        if t is ast.Assign:
            val = ev(s.value)
            for tgt in s.targets:
                self.assign(tgt, val, env, mod, clsctx)
            return
        if t is ast.AugAssign:
            tgt = s.target
            if isinstance(tgt, ast.Name):
                curv = self.lookup(tgt.id, env, mod)
                self.store(tgt.id, self.binop(s.op, curv, ev(s.value)), env,
                           mod)
            elif isinstance(tgt, ast.Attribute):
                obj = ev(tgt.value)
                nm = self.mangle(tgt.attr, env.func if env else None, clsctx)
                curv = self.getattr(obj, nm)
                self.setattr(obj, nm, self.binop(s.op, curv, ev(s.value)))
            elif isinstance(tgt, ast.Subscript):
                obj = ev(tgt.value)
                key = self.eval_slice(tgt.slice, env, mod, clsctx)
                curv = self.getitem(obj, key)
                self.setitem(obj, key, self.binop(s.op, curv, ev(s.value)))
            else:
                raise Unsupported('augassign target')
            return
        if t is ast.AnnAssign:
            if s.value is not None:
                self.assign(s.target, ev(s.value), env, mod, clsctx)
            return
        if t is ast.Return:
            raise _Return(ev(s.value) if s.value is not None else None)
        if t is ast.If:
            if not s.orelse and _all_dropped(s.body):
                # body has no effect in the engine: evaluate the test (it
                # may raise) but do not fork on it
                self.truth_sym(ev(s.test))
                return
            if self.truth(ev(s.test)):
                yield from self.exec_block(s.body, env, mod, clsctx)
            else:
                yield from self.exec_block(s.orelse, env, mod, clsctx)
            return
        if t is ast.While:
            yield from self.exec_while(s, env, mod, clsctx)
            return
        if t is ast.For:
            yield from self.exec_for(s, env, mod, clsctx)
            return
        if t is ast.Break:
            raise _Break()
        if t is ast.Continue:
            raise _Continue()
        if t is ast.Pass:
            return
        if t is ast.FunctionDef:
            f = self.make_function(s, env, mod, clsctx)
            for d in reversed(s.decorator_list):
                dv = ev(d)
                if dv is classmethod:
                    f = ClassMethod(f)
                elif dv is staticmethod:
                    f = staticmethod(f)
                else:
                    f = self.call(dv, [f], {})
            if clsctx is not None and env is not None and \
                    getattr(env, 'func', None) is None:
                env.vars[s.name] = f
            else:
                self.store(s.name, f, env, mod)
            return
        if t is ast.ClassDef:
            self.exec_classdef(s, env, mod, clsctx)
            return
        if t is ast.Import:
            for a in s.names:
                if a.name.startswith('ddsmt'):
                    m = self.load_module(a.name)
                else:
                    m = self.import_native(a.name)
                if a.asname:
                    self.store(a.asname, m, env, mod)
                else:
                    top = a.name.split('.')[0]
                    self.store(
                        top, m if '.' not in a.name else
                        self.import_native(top), env, mod)
            return
        if t is ast.ImportFrom:
            self.exec_importfrom(s, env, mod)
            return
        if t is ast.Global:
            env.globals_decl.update(s.names)
            return
        if t is ast.Nonlocal:
            env.nonlocals_decl.update(s.names)
            return
        if t is ast.Assert:
            if not self.truth(ev(s.test)):
                msg = ev(s.msg) if s.msg is not None else None
                raise PyRaise(
                    AssertionError(msg) if msg is not None else
                    AssertionError(), s.lineno)
            return
        if t is ast.Raise:
            if s.exc is None:
                if not self.exc_stack:
                    raise PyRaise(RuntimeError('No active exception'))
                raise PyRaise(self.exc_stack[-1], s.lineno)
            exc = ev(s.exc)
            if isinstance(exc, (ClassVal, type)):
                exc = self.call(exc, [], {})
            raise PyRaise(exc, s.lineno)
        if t is ast.Try:
            yield from self.exec_try(s, env, mod, clsctx)
            return
        if t is ast.With:
            yield from self.exec_with(s, 0, env, mod, clsctx)
            return
        if t is ast.Delete:
            for tgt in s.targets:
                if isinstance(tgt, ast.Subscript):
                    obj = ev(tgt.value)
                    key = self.eval_slice(tgt.slice, env, mod, clsctx)
                    self.delitem(obj, key)
                elif isinstance(tgt, ast.Name):
                    env.vars.pop(tgt.id, None)
                else:
                    raise Unsupported('del target')
            return
        raise Unsupported(f'statement {t.__name__}')

    exc_stack = []

    def exec_importfrom(self, s, env, mod):
        if s.level > 0:
            pkg = mod.g.get('__package__', 'ddsmt')
            base = pkg if s.level == 1 else pkg.rsplit('.', s.level - 1)[0]
            full = base + ('.' + s.module if s.module else '')
        else:
            full = s.module
        for a in s.names:
            if full.startswith('ddsmt'):
                if s.module is None or not os.path.exists(
                        self.source_path(full)):
                    # from . import x
                    val = self.load_module(full + '.' + a.name)
                    self.store(a.asname or a.name, val, env, mod)
                    continue
                m = self.load_module(full)
                if a.name == '*':
                    for k, v in m.g.items():
                        if not k.startswith('_'):
                            self.store(k, v, env, mod)
                    continue
                if a.name in m.g:
                    val = m.g[a.name]
                else:
                    val = self.load_module(full + '.' + a.name)
                self.store(a.asname or a.name, val, env, mod)
            else:
                m = self.import_native(full)
                if a.name == '*':
                    raise Unsupported('native import *')
                self.store(a.asname or a.name, getattr(m, a.name), env, mod)

    def exec_classdef(self, s, env, mod, clsctx):
        bases = [self.eval(b, env, mod, clsctx) for b in s.bases]
        qual = s.name
        cls = ClassVal(s.name, bases, mod, mod.name + '.' + qual)
        cenv = Env(env, None)
        for _ in self.exec_block(s.body, cenv, mod, cls):
            raise Unsupported('yield in class body')
        cls.ns = {}
        for k, v in cenv.vars.items():
            if k.startswith('__') and not k.endswith('__'):
                k = '_' + s.name.lstrip('_') + k
            cls.ns[k] = v
        for k, v in cls.ns.items():
            if isinstance(v, FuncVal):
                v.qualname = cls.qualname + '.' + v.name
        self.store(s.name, cls, env, mod)

    def make_function(self, node, env, mod, clsctx, lam=False):
        qual = mod.name + '.' + ('<lambda>' if lam else node.name)
        # functions defined in a class body: closure env is the env enclosing
        # the class (class scope is not visible from methods)
        fenv = env
        cls = clsctx
        if clsctx is not None and env is not None and env.func is None:
            fenv = env.parent
        elif env is not None and env.func is not None:
            cls = env.func.cls if clsctx is None else clsctx
        f = FuncVal(node, fenv, mod, qual, cls, lam)
        a = node.args
        f.defaults = [self.eval(d, env, mod, clsctx) for d in a.defaults]
        f.kw_defaults = {
            k.arg: self.eval(d, env, mod, clsctx)
            for k, d in zip(a.kwonlyargs, a.kw_defaults) if d is not None
        }
        return f

    # -- loops -------------------------------------------------------------

    def loop_spec(self, s):
        key = getattr(s, '_loop_key', None)
        if key is None:
            return None
        return self.loop_specs.get(key)

    def _need_spec(self, s):
        key = getattr(s, '_loop_key', None)
        if key is not None and key[0] not in self.spec_required and \
                self.strict_loops and any(
                    k[0] == key[0] for k in self.loop_specs):
            # a function whose other loops are under contract: a loop
            # without one (and not known to run over a concrete sequence)
            # means the loop structure changed
            self.spec_missing.append(key)
            if key not in self.concrete_loops:
                raise Unsupported(
                    f'loop {key[1]!r} of {key[0]} has no invariant although '
                    'other loops of the function have one (the loop '
                    'structure differs from the one the contract was '
                    'written for)')
        if key is not None and key[0] in self.spec_required:
            raise Unsupported(
                f'loop {key[1]!r} of {key[0]} has no invariant (the loop '
                'structure differs from the one the contract was written '
                'for)')

    def exec_while(self, s, env, mod, clsctx):
        spec = self.loop_spec(s)
        if spec is not None:
            yield from self.exec_loop_inv(s, spec, env, mod, clsctx)
            return
        self._need_spec(s)
        nsym = 0
        while True:
            p_ = cur()
            taken0 = len(p_.taken) if p_ is not None else 0
            c = self.truth(self.eval(s.test, env, mod, clsctx))
            if p_ is not None and len(p_.taken) > taken0:
                # a loop without invariant whose condition depends on
                # symbolic data (decisions were taken to evaluate it):
                # unrolled a bounded number of times
                nsym += 1
                if nsym > self.iter_bound:
                    p_.bounded.append(
                        f'loop {getattr(s, "_loop_key", ("?", "?"))[1]!r} '
                        f'unrolled {self.iter_bound} times')
                    raise PathAbort('iteration bound')
            if not c:
                break
            try:
                yield from self.exec_block(s.body, env, mod, clsctx)
            except _Break:
                return
            except _Continue:
                continue
        yield from self.exec_block(s.orelse, env, mod, clsctx)

    def exec_for(self, s, env, mod, clsctx):
        spec = self.loop_spec(s)
        if spec is not None:
            yield from self.exec_loop_inv(s, spec, env, mod, clsctx)
            return
        self._need_spec(s)
        it = self.eval(s.iter, env, mod, clsctx)
        for x in self.iterate(it):
            self.assign(s.target, x, env, mod, clsctx)
            try:
                yield from self.exec_block(s.body, env, mod, clsctx)
            except _Break:
                return
            except _Continue:
                continue
        yield from self.exec_block(s.orelse, env, mod, clsctx)

    def exec_loop_inv(self, s, spec, env, mod, clsctx):
        """Invariant-based treatment: entry, arbitrary iteration, exit."""
        spec = _GuardedSpec(spec)
        p = cur()
        key = s._loop_key
        nm = spec.name or f'{key[0]}[{key[1]}]'
        is_for = isinstance(s, ast.For)
        if is_for and spec.elem is None:
            raise Unsupported(f'{nm}: for-loop spec needs elem')
        if is_for:
            itv = self.eval(s.iter, env, mod, clsctx)
            env.vars['__iter__'] = itv
        if spec.on_entry is not None:
            spec.on_entry(self, env, p)
        self._oblige_inv(p, f'{nm}/inv-entry', spec, env)
        # havoc
        before_havoc = dict(env.vars)
        for var, mk in spec.havoc.items():
            val = mk(self, env, p)
            if var.startswith('effect:'):
                continue
            if var.startswith('ghost:'):
                p.ghost[var[6:]] = val
            else:
                env.vars[var] = val
        # soundness guard: a local assigned by the body and not havocked
        # must not be read with its pre-loop value
        tgt = _names_assigned([s.target]) if is_for else set()
        for nm_ in _names_assigned(s.body) - set(spec.havoc) - tgt - \
                spec.sets:
            if nm_ in env.vars and nm_ not in env.globals_decl and \
                    env.vars[nm_] is before_havoc.get(nm_) and \
                    env.vars[nm_] is not UnboundLocal:
                env.vars[nm_] = Poisoned
        for c_ in self._spec_inv_list(spec, env):
            p.assume(sym.zbool(c_))
        go = p.decide(p.fresh_bool(f'{nm}_iterates'))
        if go:
            if is_for:
                x = spec.elem(self, env, p)
                self.assign(s.target, x, env, mod, clsctx)
            else:
                if not self.truth(self.eval(s.test, env, mod, clsctx)):
                    raise PathAbort('loop condition false on iterate branch')
            before = None
            if spec.decreases is not None:
                before = spec.decreases(self, env)
            if spec.on_iter_start is not None:
                spec.on_iter_start(self, env, p)
            try:
                yield from self.exec_block(s.body, env, mod, clsctx)
            except _Break:
                if spec.on_break is not None:
                    spec.on_break(self, env, p)
                return
            except _Continue:
                pass
            except _Return:
                if spec.on_return is not None:
                    spec.on_return(self, env, p)
                raise
            if spec.on_iter_end is not None:
                spec.on_iter_end(self, env, p)
            self._oblige_inv(p, f'{nm}/inv-preserved', spec, env)
            if before is not None:
                after = spec.decreases(self, env)
                p.oblige(f'{nm}/decreases',
                         sym.s_and(after < before, before >= 0), kind='term')
            raise PathAbort('end of arbitrary iteration')
        else:
            if is_for:
                if spec.exhausted is not None:
                    spec.exhausted(self, env, p)
            else:
                if self.truth(self.eval(s.test, env, mod, clsctx)):
                    raise PathAbort('loop condition true on exit branch')
            yield from self.exec_block(s.orelse, env, mod, clsctx)

    def _oblige_inv(self, p, name, spec, env):
        """One obligation per conjunct; a conjunct may be (label, formula):
        the label (a property id) prefixes the obligation name."""
        r = spec.inv(self, env)
        if not isinstance(r, (list, tuple)) or (
                len(r) == 2 and isinstance(r[0], str)):
            r = [r]
        for i, x in enumerate(r):
            nm = name
            if isinstance(x, tuple) and len(x) == 2 and isinstance(x[0], str):
                nm = f'{x[0]}/{name}'
                x = x[1]
            p.oblige(nm, x if not z3.is_expr(x) else mk_bool(x),
                     info=f'conjunct {i}', kind='inv')

    def _spec_inv_list(self, spec, env):
        r = spec.inv(self, env)
        if isinstance(r, tuple) and len(r) == 2 and isinstance(r[0], str):
            r = [r]
        if not isinstance(r, (list, tuple)):
            r = [r]
        out = []
        for x in r:
            if isinstance(x, tuple) and len(x) == 2 and isinstance(x[0], str):
                x = x[1]
            out.append(x if not z3.is_expr(x) else mk_bool(x))
        return out

    def _spec_inv(self, spec, env):
        r = spec.inv(self, env)
        if isinstance(r, tuple) and len(r) == 2 and isinstance(r[0], str):
            r = [r]
        if isinstance(r, (list, tuple)):
            out = True
            for x in r:
                if isinstance(x, tuple) and len(x) == 2 and \
                        isinstance(x[0], str):
                    x = x[1]
                out = sym.s_and(out, x if not z3.is_expr(x) else mk_bool(x))
            return out
        if z3.is_expr(r):
            return mk_bool(r)
        return r

    # -- try / with ----------------------------------------------------------

    def exc_matches(self, value, cls):
        if isinstance(cls, tuple):
            return any(self.exc_matches(value, c) for c in cls)
        if isinstance(value, ObjVal):
            if isinstance(cls, ClassVal):
                return cls in value.cls.mro
            return any((not isinstance(c, ClassVal)) and issubclass(c, cls)
                       for c in value.cls.mro if isinstance(c, type))
        if isinstance(cls, ClassVal):
            return False
        return isinstance(value, cls)

    def exec_try(self, s, env, mod, clsctx):
        try:
            try:
                yield from self.exec_block(s.body, env, mod, clsctx)
            except PyRaise as e:
                handled = False
                for h in s.handlers:
                    hcls = self.eval(h.type, env, mod, clsctx) \
                        if h.type is not None else BaseException
                    if self.exc_matches(e.value, hcls):
                        handled = True
                        if h.name:
                            self.store(h.name, e.value, env, mod)
                        self.exc_stack.append(e.value)
                        try:
                            yield from self.exec_block(h.body, env, mod,
                                                       clsctx)
                        finally:
                            self.exc_stack.pop()
                        break
                if not handled:
                    raise
            else:
                yield from self.exec_block(s.orelse, env, mod, clsctx)
        finally:
            if s.finalbody:
                # note: a generator closed early also runs this
                for _ in self.exec_block(s.finalbody, env, mod, clsctx):
                    raise Unsupported('yield in finally')

    def exec_with(self, s, idx, env, mod, clsctx):
        if idx == len(s.items):
            yield from self.exec_block(s.body, env, mod, clsctx)
            return
        item = s.items[idx]
        d = _dotted(item.context_expr.func) if isinstance(
            item.context_expr, ast.Call) else None
        if d == 'debug_utils.Profiler':
            self.dropped_calls += 1
            yield from self.exec_with(s, idx + 1, env, mod, clsctx)
            return
        mgr = self.eval(item.context_expr, env, mod, clsctx)
        enter = self.getattr(mgr, '__enter__')
        exit_ = self.getattr(mgr, '__exit__')
        v = self.call(enter, [], {})
        if item.optional_vars is not None:
            self.assign(item.optional_vars, v, env, mod, clsctx)
        try:
            yield from self.exec_with(s, idx + 1, env, mod, clsctx)
        except PyRaise as e:
            sup = self.call(exit_, [type(e.value), e.value, None], {})
            if not self.truth(sup):
                raise
        except (_Return, _Break, _Continue):
            self.call(exit_, [None, None, None], {})
            raise
        else:
            self.call(exit_, [None, None, None], {})

    # ------------------------------------------------------------------
    # assignment

    def assign(self, tgt, val, env, mod, clsctx):
        t = type(tgt)
        if t is ast.Name:
            self.store(tgt.id, val, env, mod)
        elif t in (ast.Tuple, ast.List):
            vals = list(self.iterate(val))
            star = [i for i, e in enumerate(tgt.elts)
                    if isinstance(e, ast.Starred)]
            if star:
                i = star[0]
                after = len(tgt.elts) - i - 1
                if len(vals) < len(tgt.elts) - 1:
                    raise PyRaise(ValueError('not enough values to unpack'))
                for e, v in zip(tgt.elts[:i], vals[:i]):
                    self.assign(e, v, env, mod, clsctx)
                self.assign(tgt.elts[i].value,
                            vals[i:len(vals) - after], env, mod, clsctx)
                for e, v in zip(tgt.elts[i + 1:], vals[len(vals) - after:]):
                    self.assign(e, v, env, mod, clsctx)
                return
            if len(vals) != len(tgt.elts):
                raise PyRaise(
                    ValueError(f'unpack: expected {len(tgt.elts)} values, '
                               f'got {len(vals)}'))
            for e, v in zip(tgt.elts, vals):
                self.assign(e, v, env, mod, clsctx)
        elif t is ast.Attribute:
            obj = self.eval(tgt.value, env, mod, clsctx)
            nm = self.mangle(tgt.attr, env.func if env else None, clsctx)
            self.setattr(obj, nm, val)
        elif t is ast.Subscript:
            obj = self.eval(tgt.value, env, mod, clsctx)
            key = self.eval_slice(tgt.slice, env, mod, clsctx)
            self.setitem(obj, key, val)
        else:
            raise Unsupported(f'assignment target {t.__name__}')

    # ------------------------------------------------------------------
    # expressions

    def eval(self, e, env, mod, clsctx=None):  # noqa: C901
        t = type(e)
        if t is ast.Constant:
            return e.value
        if t is ast.Name:
            return self.lookup(e.id, env, mod)
        if t is ast.Attribute:
            obj = self.eval(e.value, env, mod, clsctx)
            nm = self.mangle(e.attr, env.func if env else None, clsctx)
            return self.getattr(obj, nm)
        if t is ast.Call:
            return self.eval_call(e, env, mod, clsctx)
        if t is ast.BinOp:
            return self.binop(e.op, self.eval(e.left, env, mod, clsctx),
                              self.eval(e.right, env, mod, clsctx))
        if t is ast.UnaryOp:
            v = self.eval(e.operand, env, mod, clsctx)
            if isinstance(e.op, ast.Not):
                v = self.truth_sym(v)
                return sym.s_not(v)
            v = force(v)
            if isinstance(e.op, ast.USub):
                return self.guard(lambda: -v)
            if isinstance(e.op, ast.UAdd):
                return self.guard(lambda: +v)
            raise Unsupported('unary op')
        if t is ast.BoolOp:
            if isinstance(e.op, ast.And):
                v = True
                for x in e.values:
                    v = self.eval(x, env, mod, clsctx)
                    if not self.truth(v):
                        return v
                return v
            v = False
            for x in e.values:
                v = self.eval(x, env, mod, clsctx)
                if self.truth(v):
                    return v
            return v
        if t is ast.Compare:
            left = self.eval(e.left, env, mod, clsctx)
            res = True
            for op, rn in zip(e.ops, e.comparators):
                right = self.eval(rn, env, mod, clsctx)
                res = self.compare(op, left, right)
                if len(e.ops) > 1 and not self.truth(res):
                    return res
                left = right
            return res
        if t is ast.IfExp:
            if self.truth(self.eval(e.test, env, mod, clsctx)):
                return self.eval(e.body, env, mod, clsctx)
            return self.eval(e.orelse, env, mod, clsctx)
        if t is ast.Subscript:
            obj = self.eval(e.value, env, mod, clsctx)
            key = self.eval_slice(e.slice, env, mod, clsctx)
            return self.getitem(obj, key)
        if t is ast.Tuple:
            return tuple(self.eval_elts(e.elts, env, mod, clsctx))
        if t is ast.List:
            return list(self.eval_elts(e.elts, env, mod, clsctx))
        if t is ast.Set:
            return self.mk_set(self.eval_elts(e.elts, env, mod, clsctx))
        if t is ast.Dict:
            d = SymDict()
            for k, v in zip(e.keys, e.values):
                if k is None:
                    for kk, vv in self.dict_items(
                            self.eval(v, env, mod, clsctx)):
                        d = self.dict_set(d, kk, vv)
                else:
                    d = self.dict_set(d, self.eval(k, env, mod, clsctx),
                                      self.eval(v, env, mod, clsctx))
            return d
        if t is ast.JoinedStr:
            out = ''
            for part in e.values:
                if isinstance(part, ast.Constant):
                    out = out + part.value
                else:
                    v = self.eval(part.value, env, mod, clsctx)
                    spec = None
                    if part.format_spec is not None:
                        spec = self.eval(part.format_spec, env, mod, clsctx)
                    out = out + self.format_value(v, part.conversion, spec)
            return out
        if t is ast.Lambda:
            return self.make_function(e, env, mod, clsctx, lam=True)
        if t in (ast.ListComp, ast.SetComp, ast.GeneratorExp, ast.DictComp):
            return self.eval_comp(e, env, mod, clsctx)
        if t is ast.Starred:
            raise Unsupported('starred outside call/elts')
        if t is ast.Slice:
            return self.eval_slice(e, env, mod, clsctx)
        raise Unsupported(f'expression {t.__name__}')

    def eval_elts(self, elts, env, mod, clsctx):
        out = []
        for x in elts:
            if isinstance(x, ast.Starred):
                out.extend(self.iterate(self.eval(x.value, env, mod, clsctx)))
            else:
                out.append(self.eval(x, env, mod, clsctx))
        return out

    def eval_slice(self, sl, env, mod, clsctx):
        if isinstance(sl, ast.Slice):
            f = lambda x: None if x is None else force(  # noqa: E731
                self.eval(x, env, mod, clsctx))
            return slice(f(sl.lower), f(sl.upper), f(sl.step))
        return self.eval(sl, env, mod, clsctx)

    def eval_comp(self, e, env, mod, clsctx):
        func = env.func if env is not None else None
        cenv = Env(env, func)
        first_it = _MISSING
        r_ = self._chars_in_comp(e, env, mod, clsctx)
        if r_ is not None:
            return r_
        if getattr(self, '_comp_first', _MISSING) is not _MISSING:
            first_it = self._comp_first
            self._comp_first = _MISSING
        if self.comp_handlers:
            # comprehension over an abstract sequence (contracts/worklist)
            if first_it is _MISSING:
                first_it = self.eval(e.generators[0].iter, env, mod, clsctx)
            h = self.comp_handlers.get(type(force(first_it)))
            if h is not None:
                r = h(self, force(first_it), e, env, mod, clsctx)
                if r is not NotImplemented:
                    return r

        def gen(i):
            if i == len(e.generators):
                if isinstance(e, ast.DictComp):
                    yield (self.eval(e.key, cenv, mod, clsctx),
                           self.eval(e.value, cenv, mod, clsctx))
                else:
                    yield self.eval(e.elt, cenv, mod, clsctx)
                return
            g = e.generators[i]
            if i == 0 and first_it is not _MISSING:
                it = first_it
            else:
                it = self.eval(g.iter, cenv if i else env, mod, clsctx)
            for x in self.iterate(it):
                self.assign(g.target, x, cenv, mod, clsctx)
                ok = True
                for c in g.ifs:
                    if not self.truth(self.eval(c, cenv, mod, clsctx)):
                        ok = False
                        break
                if ok:
                    yield from gen(i + 1)

        if isinstance(e, ast.GeneratorExp):
            return gen(0)
        if isinstance(e, ast.ListComp):
            return list(gen(0))
        if isinstance(e, ast.SetComp):
            return self.mk_set(list(gen(0)))
        d = SymDict()
        for k, v in gen(0):
            d = self.dict_set(d, k, v)
        return d

    def _chars_in_comp(self, e, env, mod, clsctx):
        """``(c in <characters> for c in <symbolic string>)``: kept as a
        regular-language fact (all()/any() of it is decided by z3) instead
        of iterating over a string of unknown length."""
        if not isinstance(e, (ast.GeneratorExp, ast.ListComp)) or \
                len(e.generators) != 1:
            return None
        g = e.generators[0]
        elt = e.elt
        if g.ifs or not isinstance(g.target, ast.Name) or not isinstance(
                elt, ast.Compare) or len(elt.ops) != 1 or not isinstance(
                    elt.ops[0], (ast.In, ast.NotIn)) or not isinstance(
                        elt.left, ast.Name) or elt.left.id != g.target.id:
            return None
        it = force(self.eval(g.iter, env, mod, clsctx))
        if not isinstance(it, SStr):
            # evaluated once already: continue the normal way with the value
            self._comp_first = it
            return None
        chars = force(self.eval(elt.comparators[0], env, mod, clsctx))
        if isinstance(chars, str):
            cs = list(chars)
        elif isinstance(chars, (list, tuple)) and all(
                isinstance(c, str) and len(c) == 1 for c in chars):
            cs = list(chars)
        else:
            raise Unsupported('iteration over symbolic string')
        return sym.CharsIn(it, cs, isinstance(elt.ops[0], ast.NotIn))

    def format_value(self, v, conversion, spec):
        v = force(v)
        if conversion == ord('r'):
            if is_sym(v) or isinstance(v, ObjVal):
                raise Unsupported('repr of symbolic value')
            v = repr(v)
        elif conversion == ord('s'):
            v = self.to_str(v)
        if spec:
            if is_sym(v) or isinstance(v, ObjVal):
                raise Unsupported('format spec on symbolic value')
            return format(v, spec)
        return self.to_str(v)

    def to_str(self, v):
        v = force(v)
        s = sym.to_str(v)
        if s is not None:
            return s
        if isinstance(v, ObjVal):
            try:
                f, _ = v.cls.lookup('__str__')
            except KeyError:
                raise Unsupported('str() of object without __str__')
            if isinstance(f, FuncVal):
                return self.call_function(f, [v], {})
            raise Unsupported('native __str__ on interpreted object')
        return str(v)

    # ------------------------------------------------------------------
    # truth

    def truth_sym(self, v):
        """Truth value as bool or SBool (no fork)."""
        if isinstance(v, (bool, SBool)):
            return v
        if isinstance(v, SOpt):
            inner = self.truth_sym(v.val)
            return sym.s_and(mk_bool(z3.Not(v.is_none)), inner)
        if isinstance(v, SNum):
            return mk_bool(v.z != 0)
        if isinstance(v, SStr):
            for k, p in v.parts:
                if k == 'n' or (k == 'c' and p):
                    return True
            return mk_bool(z3.Length(v.z) > 0)
        return self.truth(v)

    def truth(self, v):
        if isinstance(v, bool):
            return v
        if isinstance(v, ObjVal):
            for nm in ('__bool__', '__len__'):
                try:
                    f, _ = v.cls.lookup(nm)
                except KeyError:
                    continue
                r = self.call(f, [v], {})
                if nm == '__len__':
                    r = self.guard(lambda: r != 0)
                return self.truth(r)
            return True
        h = self.truth_handlers.get(type(v))
        if h is not None:
            return h(self, v)
        return bool(v)

    truth_handlers = {}

    # ------------------------------------------------------------------
    # operators

    BINOPS = {
        ast.Add: operator.add,
        ast.Sub: operator.sub,
        ast.Mult: operator.mul,
        ast.Div: operator.truediv,
        ast.FloorDiv: operator.floordiv,
        ast.Mod: operator.mod,
        ast.Pow: operator.pow,
        ast.BitAnd: operator.and_,
        ast.BitOr: operator.or_,
        ast.BitXor: operator.xor,
        ast.LShift: operator.lshift,
        ast.RShift: operator.rshift,
    }

    def guard(self, thunk):
        """Run a native operation; native exceptions become interpreted."""
        try:
            return thunk()
        except (Unsupported, PathAbort, PyRaise, _Return, _Break, _Continue):
            raise
        except (RecursionError, MemoryError):
            raise
        except (SystemExit, KeyboardInterrupt) as ex:
            raise PyRaise(ex)
        except Exception as ex:  # noqa
            raise PyRaise(ex, sym.LAST_LINE)

    def binop(self, op, a, b):
        a = force(a)
        b = force(b)
        h = self.binop_handlers.get((type(op), type(a)))
        if h is not None:
            r = h(self, op, a, b)
            if r is not NotImplemented:
                return r
        h = self.binop_handlers.get((type(op), None, type(b)))
        if h is not None:
            r = h(self, op, a, b)
            if r is not NotImplemented:
                return r
        if isinstance(a, ObjVal) or isinstance(b, ObjVal):
            raise Unsupported(f'binary op {type(op).__name__} on object')
        if isinstance(op, ast.Mod) and isinstance(a, str) and \
                _deep_sym(b):
            raise Unsupported('%-format with symbolic value')
        if isinstance(op, ast.Mult) and (
            (isinstance(a, (str, list, tuple)) and isinstance(b, SNum)) or
            (isinstance(b, (str, list, tuple)) and isinstance(a, SNum))):
            raise Unsupported('sequence repetition with symbolic count')
        if isinstance(op, ast.Pow) and (is_sym(a) or is_sym(b)):
            raise Unsupported('power with symbolic operand')
        f = self.BINOPS.get(type(op))
        if f is None:
            raise Unsupported(f'binop {type(op).__name__}')
        return self.guard(lambda: f(a, b))

    binop_handlers = {}

    def compare(self, op, a, b):  # noqa: C901
        t = type(op)
        if t is ast.Is:
            return self.is_(a, b)
        if t is ast.IsNot:
            return sym.s_not(self.is_(a, b))
        a = force(a)
        b = force(b)
        if t is ast.In:
            return self.contains(b, a)
        if t is ast.NotIn:
            return sym.s_not(self.contains(b, a))
        if t is ast.Eq:
            return self.eq(a, b)
        if t is ast.NotEq:
            return self.ne(a, b)
        if isinstance(a, ObjVal) or isinstance(b, ObjVal):
            raise Unsupported('ordering of objects')
        f = {
            ast.Lt: operator.lt,
            ast.LtE: operator.le,
            ast.Gt: operator.gt,
            ast.GtE: operator.ge
        }[t]
        return self.guard(lambda: f(a, b))

    def is_(self, a, b):
        if isinstance(a, SOpt) and b is None:
            return mk_bool(a.is_none)
        if isinstance(b, SOpt) and a is None:
            return mk_bool(b.is_none)
        if isinstance(a, SOpt) or isinstance(b, SOpt):
            a = force(a)
            b = force(b)
        if is_sym(a) or is_sym(b):
            if a is None or b is None:
                return False
            if a is b:
                return True
            raise Unsupported('identity test on symbolic values')
        if isinstance(a, (bool, type(None))) or isinstance(
                b, (bool, type(None))):
            return a is b
        if isinstance(a, (int, str)) and isinstance(b, (int, str)):
            # interning-dependent in CPython; ddSMT does not rely on it
            return a is b
        return a is b

    def eq(self, a, b):
        if isinstance(a, ObjVal):
            return self.obj_eq(a, b)
        if isinstance(b, ObjVal):
            r = self.obj_eq(b, a, reflected=True)
            return r
        if isinstance(a, (list, tuple)) and isinstance(b, (list, tuple)) and \
                type(a) is type(b):
            if len(a) != len(b):
                return False
            for x, y in zip(a, b):
                if x is y:
                    continue
                if not self.truth(self.eq(force(x), force(y))):
                    return False
            return True
        return self.guard(lambda: a == b)

    def ne(self, a, b):
        if isinstance(a, ObjVal) or isinstance(b, ObjVal):
            obj = a if isinstance(a, ObjVal) else b
            try:
                f, _ = obj.cls.lookup('__ne__')
                if isinstance(f, FuncVal):
                    return self.call(f, [obj, b if obj is a else a], {})
            except KeyError:
                pass
            return sym.s_not(self.truth_sym(self.eq(a, b)))
        if isinstance(a, (list, tuple)) and isinstance(b, (list, tuple)):
            return sym.s_not(self.truth_sym(self.eq(a, b)))
        return self.guard(lambda: a != b)

    def obj_eq(self, a, b, reflected=False):
        try:
            f, owner = a.cls.lookup('__eq__')
        except KeyError:
            return a is b
        if isinstance(f, FuncVal):
            r = self.call_function(f, [a, b], {})
            if r is NotImplemented:
                return a is b
            return r
        return a is b

    def contains(self, container, item):
        if isinstance(container, (str, SStr)) or isinstance(item, SStr) and \
                isinstance(container, str):
            return self.guard(lambda: sym.str_contains(container, item))
        h = self.contains_handlers.get(type(container))
        if h is not None:
            return h(self, container, item)
        if isinstance(container, ObjVal):
            try:
                f, _ = container.cls.lookup('__contains__')
                return self.truth_sym(self.call(f, [container, item], {}))
            except KeyError:
                pass
            for x in self.iterate(container):
                if x is item or self.truth(self.eq(x, item)):
                    return True
            return False
        if isinstance(container, (dict, SymDict)):
            return self.dict_find(container, item) is not _MISSING
        if isinstance(container, (set, frozenset)):
            if self.plain_hashable(item):
                return item in container
            for x in container:
                if self.truth(self.eq(x, item)):
                    return True
            return False
        if isinstance(container, (list, tuple, type({}.keys()),
                                  type({}.values()))):
            for x in container:
                if x is item or self.truth(self.eq(force(x), item)):
                    return True
            return False
        if isinstance(container, range) and isinstance(item, SNum):
            if container.step == 1:
                return sym.s_and(item >= container.start,
                                 item < container.stop)
            raise Unsupported('symbolic membership in stepped range')
        if is_sym(item) or isinstance(item, ObjVal):
            for x in self.iterate(container):
                if self.truth(self.eq(x, item)):
                    return True
            return False
        return self.guard(lambda: item in container)

    contains_handlers = {}

    # ------------------------------------------------------------------
    # dictionaries / sets keyed by values that cannot be hashed natively

    def plain_hashable(self, k):
        if is_sym(k):
            return False
        if isinstance(k, ObjVal):
            try:
                k.cls.lookup('__hash__')
                return False
            except KeyError:
                return True
        if isinstance(k, tuple):
            return all(self.plain_hashable(x) for x in k)
        return True

    def dict_find(self, d, key):
        """Return the stored key equal to ``key`` or _MISSING."""
        key = force(key)
        if isinstance(d, SymDict):
            return d.find(self, key)
        if self.plain_hashable(key):
            plain = True
            hit = _MISSING
            try:
                if key in d:
                    return key
            except TypeError as ex:
                raise PyRaise(ex)
            # keys in d that are not plainly hashable cannot be there
            return hit
        # symbolic key / interpreted __eq__: association-list semantics
        # (sound when __hash__ is consistent with __eq__; that consistency
        # is C12's obligation)
        for k in list(d.keys()):
            if self.truth(self.key_eq(k, key)):
                return k
        return _MISSING

    def key_eq(self, stored, key):
        if stored is key:
            return True
        # an integer key and an object key: CPython compares hashes first;
        # the engine assumes no collision between hash(int) and the hash of
        # an object (listed as an encoding assumption)
        a_num = isinstance(stored, (int, SNum)) and not isinstance(stored,
                                                                   bool)
        b_num = isinstance(key, (int, SNum)) and not isinstance(key, bool)
        if (a_num and isinstance(key, ObjVal)) or (
                b_num and isinstance(stored, ObjVal)):
            return False
        # dict lookup compares hash first; Node-vs-str relies on
        # hash(Node(s)) == hash(s): modelled as plain equality
        return self.eq(key, stored) if isinstance(key, ObjVal) else \
            self.eq(stored, key)

    def dict_set(self, d, key, value):
        key = force(key)
        if isinstance(d, SymDict):
            d.set(self, key, value)
            return d
        if self.plain_hashable(key):
            try:
                d[key] = value
            except TypeError as ex:
                raise PyRaise(ex)
            return d
        raise Unsupported('symbolic key stored into a native dict')

    def dict_items(self, d):
        if isinstance(d, SymDict):
            return d.items()
        return list(d.items())

    def mk_set(self, elts):
        s = SymSet()
        for x in elts:
            s.add(self, x)
        return s

    # ------------------------------------------------------------------
    # attribute access

    def getattr(self, obj, name):  # noqa: C901
        obj = force(obj)
        if isinstance(obj, ObjVal):
            if name in obj.attrs:
                return obj.attrs[name]
            if name == '__class__':
                return obj.cls
            try:
                v, owner = obj.cls.lookup(name)
            except KeyError:
                h = self.objattr_handlers.get(obj.cls.qualname)
                if h is not None:
                    r = h(self, obj, name)
                    if r is not _MISSING:
                        return r
                raise PyRaise(
                    AttributeError(f"'{obj.cls.name}' object has no "
                                   f"attribute '{name}'"))
            return self.bind(v, obj, obj.cls)
        if isinstance(obj, ClassVal):
            if name == '__name__':
                return obj.name
            try:
                v, owner = obj.lookup(name)
            except KeyError:
                raise PyRaise(
                    AttributeError(f"type object '{obj.name}' has no "
                                   f"attribute '{name}'"))
            if isinstance(v, ClassMethod):
                return BoundMethod(v.func, obj)
            if isinstance(v, staticmethod):
                return v.__func__
            return v
        if isinstance(obj, ModuleVal):
            if name in obj.g:
                return obj.g[name]
            raise PyRaise(
                AttributeError(f"module '{obj.name}' has no attribute "
                               f"'{name}'"))
        if isinstance(obj, SuperProxy):
            mro = obj.obj.cls.mro if isinstance(obj.obj, ObjVal) \
                else obj.obj.mro
            i = mro.index(obj.cls)
            for c in mro[i + 1:]:
                d = c.ns if isinstance(c, ClassVal) else c.__dict__
                if name in d:
                    return self.bind(d[name], obj.obj, c)
            raise PyRaise(AttributeError(f'super has no {name}'))
        h = self.getattr_handlers.get(type(obj))
        if h is not None:
            r = h(self, obj, name)
            if r is not _MISSING:
                return r
        try:
            return getattr(obj, name)
        except AttributeError as ex:
            raise PyRaise(ex)

    getattr_handlers = {}
    objattr_handlers = {}

    def bind(self, v, obj, cls):
        if isinstance(v, FuncVal):
            return BoundMethod(v, obj)
        if isinstance(v, ClassMethod):
            return BoundMethod(v.func, cls if isinstance(obj, ObjVal) else obj)
        if isinstance(v, staticmethod):
            return v.__func__
        if isinstance(v, property):
            raise Unsupported('property')
        if isinstance(v, (types.FunctionType, )) and isinstance(obj, ObjVal):
            # native function found on a native base class
            return BoundMethod(v, obj)
        return v

    def hasattr(self, obj, name):
        try:
            self.getattr(obj, name)
            return True
        except PyRaise as e:
            if isinstance(e.value, AttributeError):
                return False
            raise

    def setattr(self, obj, name, value):
        obj = force(obj)
        if isinstance(obj, ObjVal):
            slots = None
            try:
                slots, _ = obj.cls.lookup('__slots__')
            except KeyError:
                pass
            if slots is not None and not any(
                    isinstance(c, type) and c is not object and
                    '__dict__' in dir(c) for c in obj.cls.mro
                    if isinstance(c, type)):
                if isinstance(slots, str):
                    slots = (slots, )
                if name not in slots:
                    raise PyRaise(
                        AttributeError(
                            f"'{obj.cls.name}' object has no attribute "
                            f"'{name}'"))
            obj.attrs[name] = value
            return
        if isinstance(obj, ClassVal):
            obj.ns[name] = value
            return
        if isinstance(obj, ModuleVal):
            obj.g[name] = value
            return
        try:
            setattr(obj, name, value)
        except (AttributeError, TypeError) as ex:
            raise PyRaise(ex)

    # ------------------------------------------------------------------
    # subscripts

    def getitem(self, obj, key):
        obj = force(obj)
        if not isinstance(key, slice):
            key = force(key)
        if isinstance(obj, ObjVal):
            try:
                f, _ = obj.cls.lookup('__getitem__')
            except KeyError:
                raise PyRaise(TypeError('object is not subscriptable'))
            return self.call(f, [obj, key], {})
        h = self.getitem_handlers.get(type(obj))
        if h is not None:
            # a handler for exactly this type (a model refining SStr too)
            return h(self, obj, key)
        if isinstance(obj, SStr):
            return self.guard(lambda: obj.getitem(key))
        if isinstance(obj, (dict, SymDict)):
            k = self.dict_find(obj, key)
            if k is _MISSING:
                raise PyRaise(KeyError(key if self.plain_hashable(key)
                                       else repr(key)))
            if isinstance(obj, SymDict):
                return obj.get_stored(k)
            return obj[k]
        if isinstance(key, SNum) or (isinstance(key, slice) and any(
                isinstance(x, SNum)
                for x in (key.start, key.stop, key.step))):
            return self.sym_index(obj, key)
        return self.guard(lambda: obj[key])

    getitem_handlers = {}

    def sym_index(self, obj, key):
        """Concrete sequence indexed by a symbolic integer: case split."""
        if isinstance(key, slice):
            raise Unsupported('symbolic slice of concrete sequence')
        n = len(obj)
        for i in range(-n, n):
            if bool(key == i):
                return obj[i]
        raise PyRaise(IndexError('index out of range'))

    def setitem(self, obj, key, value):
        obj = force(obj)
        key = force(key)
        if isinstance(obj, ObjVal):
            try:
                f, _ = obj.cls.lookup('__setitem__')
            except KeyError:
                raise PyRaise(
                    TypeError('object does not support item assignment'))
            self.call(f, [obj, key, value], {})
            return
        if isinstance(obj, SymDict):
            obj.set(self, key, value)
            return
        if isinstance(obj, dict):
            if self.plain_hashable(key):
                obj[key] = value
                return
            k = self.dict_find(obj, key)
            if k is not _MISSING:
                obj[k] = value
                return
            raise Unsupported('dict with symbolic key stored in place '
                              '(use SymDict-aware container)')
        if is_sym(key):
            raise Unsupported('store at symbolic index')
        self.guard(lambda: operator.setitem(obj, key, value))

    def delitem(self, obj, key):
        obj = force(obj)
        key = force(key)
        if isinstance(obj, (dict, SymDict)):
            k = self.dict_find(obj, key)
            if k is _MISSING:
                raise PyRaise(KeyError(repr(key)))
            if isinstance(obj, SymDict):
                obj.remove_stored(k)
            else:
                del obj[k]
            return
        self.guard(lambda: operator.delitem(obj, key))

    # ------------------------------------------------------------------
    # iteration

    def iterate(self, it):
        it = force(it)
        if isinstance(it, ObjVal):
            try:
                f, _ = it.cls.lookup('__iter__')
            except KeyError:
                f = None
            if f is not None:
                itr = self.call(f, [it], {})
                if itr is it or isinstance(itr, ObjVal):
                    nxt, _ = itr.cls.lookup('__next__')
                    return self._iter_next(itr, nxt)
                return self.iterate(itr)
            try:
                g, _ = it.cls.lookup('__getitem__')
            except KeyError:
                raise PyRaise(TypeError(f"'{it.cls.name}' object is not "
                                        'iterable'))
            return self._iter_getitem(it, g)
        h = self.iter_handlers.get(type(it))
        if h is not None:
            return h(self, it)
        if isinstance(it, SStr):
            raise Unsupported('iteration over symbolic string')
        if isinstance(it, SymDict):
            return iter([k for k, _ in it.items()])
        if isinstance(it, SymSet):
            return iter(list(it.elems))
        if is_sym(it):
            raise PyRaise(TypeError('object is not iterable'))
        try:
            return iter(it)
        except TypeError as ex:
            raise PyRaise(ex)

    iter_handlers = {}

    def _iter_next(self, obj, nxt):
        while True:
            try:
                v = self.call(nxt, [obj], {})
            except PyRaise as e:
                if isinstance(e.value, StopIteration):
                    return
                raise
            yield v

    def _iter_getitem(self, obj, g):
        i = 0
        while True:
            if i >= self.iter_bound and i % self.iter_bound == 0:
                ln = self.call(self.builtins['len'], [obj], {}) \
                    if self.hasattr(obj, '__len__') else 0
                if isinstance(ln, SNum):
                    cur().bounded.append(
                        f'iteration over a symbolic node unrolled '
                        f'{self.iter_bound} times')
                    raise PathAbort('iteration bound')
            try:
                v = self.call(g, [obj, i], {})
            except PyRaise as e:
                if isinstance(e.value, IndexError):
                    return
                raise
            yield v
            i += 1

    # ------------------------------------------------------------------
    # calls

    def eval_call(self, e, env, mod, clsctx):
        d = _dotted(e.func)
        if d is not None:
            if d.startswith(DROPPED_PREFIXES) or d in DROPPED_NAMES or \
                    d in DROPPED_ATTRS:
                self.dropped_calls += 1
                if self.eval_log_args and d.startswith('logging.'):
                    # the message is built eagerly in the real program: an
                    # exception while formatting it is an exception of the
                    # program (what the engine cannot evaluate is skipped)
                    self._eval_log_args(e, env, mod, clsctx)
                return None
        # zero-argument super()
        if isinstance(e.func, ast.Name) and e.func.id == 'super' and \
                not e.args:
            f = env.func
            selfv = env.vars[f.node.args.args[0].arg]
            return SuperProxy(f.cls, selfv)
        fn = self.eval(e.func, env, mod, clsctx)
        args = []
        for a in e.args:
            if isinstance(a, ast.Starred):
                sv = force(self.eval(a.value, env, mod, clsctx))
                sh = self.star_handlers.get(type(sv))
                if sh is not None:
                    # abstract sequence: bound to *args as a whole
                    args.append(StarArgs(sh(self, sv)))
                else:
                    args.extend(self.iterate(sv))
            else:
                args.append(self.eval(a, env, mod, clsctx))
        kwargs = {}
        for k in e.keywords:
            if k.arg is None:
                for kk, vv in self.dict_items(
                        self.eval(k.value, env, mod, clsctx)):
                    kwargs[kk] = vv
            else:
                kwargs[k.arg] = self.eval(k.value, env, mod, clsctx)
        return self.call(fn, args, kwargs)

    star_handlers = {}
    eval_log_args = True

    def _eval_log_args(self, e, env, mod, clsctx):
        p = cur()
        for a in e.args:
            taken = len(p.taken)
            try:
                self.eval(a, env, mod, clsctx)
            except Unsupported:
                # best effort; decisions taken while trying stay (they only
                # split the path)
                continue

    def call(self, fn, args, kwargs):  # noqa: C901
        fn = force(fn)
        if isinstance(fn, FuncVal):
            return self.call_function(fn, args, kwargs)
        if isinstance(fn, BoundMethod):
            if isinstance(fn.func, FuncVal):
                return self.call_function(fn.func, [fn.self_] + list(args),
                                          kwargs)
            return self.call(fn.func, [fn.self_] + list(args), kwargs)
        if isinstance(fn, ClassVal):
            return self.instantiate(fn, args, kwargs)
        if isinstance(fn, ObjVal):
            try:
                f, _ = fn.cls.lookup('__call__')
            except KeyError:
                raise PyRaise(TypeError('object is not callable'))
            return self.call(f, [fn] + list(args), kwargs)
        if fn is super:
            return SuperProxy(args[0], args[1])
        h = self.native_handlers.get(_hkey(fn))
        if h is not None:
            return h(self, *args, **kwargs)
        # bound native method with a handler keyed by (type, name)
        slf = getattr(fn, '__self__', None)
        if slf is not None and not isinstance(slf, types.ModuleType):
            mh = self.method_handlers.get((type(slf), fn.__name__))
            if mh is not None:
                return mh(self, slf, *args, **kwargs)
        if not callable(fn):
            raise PyRaise(TypeError(f'{type(fn).__name__} object is not '
                                    'callable'))
        if any(_deep_sym(a) for a in args) or any(
                _deep_sym(a) for a in kwargs.values()):
            if not getattr(fn, '_pyvc_symbolic_ok', False) and \
                    not _container_method(fn) and not str(
                        getattr(fn, '__module__', '')).startswith(
                            ('contracts', 'pyvc', 'harness')):
                raise Unsupported(
                    f'native call {getattr(fn, "__qualname__", fn)!r} with '
                    'symbolic argument')
        if str(getattr(fn, '__module__', '')).startswith(
                ('contracts', 'pyvc', 'harness')):
            # a model that cannot take the call the real code makes is a gap
            # in the model, never a TypeError of the program under proof
            try:
                inspect.signature(fn).bind(*args, **kwargs)
            except TypeError as ex:
                raise Unsupported(
                    f'model {getattr(fn, "__qualname__", fn)!r} does not '
                    f'accept this call: {ex}')
            except ValueError:
                pass
        return self.guard(lambda: fn(*args, **kwargs))

    def instantiate(self, cls, args, kwargs):
        h = self.overrides.get(cls.qualname)
        if h is not None:
            return h(self, *args, **kwargs)
        obj = ObjVal(cls)
        try:
            init, owner = cls.lookup('__init__')
        except KeyError:
            init = None
        if init is not None and init is not object.__init__:
            if isinstance(init, FuncVal):
                self.call_function(init, [obj] + list(args), kwargs)
            elif any(isinstance(c, type) and issubclass(c, BaseException)
                     for c in cls.mro if isinstance(c, type)):
                obj.attrs['args'] = tuple(args)
            else:
                nh = self.native_handlers.get(_hkey(init))
                if nh is None:
                    raise Unsupported(
                        f'native __init__ for interpreted class {cls.name}')
                nh(self, obj, *args, **kwargs)
        return obj

    def call_real(self, f, args, kwargs=None):
        """Call the real body of ``f`` even if it has a contract override
        (used to verify a function against its own contract)."""
        if isinstance(f, BoundMethod):
            args = [f.self_] + list(args)
            f = f.func
        return self.call_function(f, list(args), kwargs or {}, bypass=True)

    def call_function(self, f, args, kwargs, bypass=False):
        h = None if bypass else self.overrides.get(f.qualname)
        if h is not None:
            return h(self, *args, **kwargs)
        env = self.bind_args(f, args, kwargs)
        self.stack.append(f.qualname)
        if len(self.stack) > 400:
            raise Unsupported('interpreter recursion too deep')
        try:
            if f.lam:
                return self.eval(f.node.body, env, f.module, None)
            if f.is_generator:
                return self.run_generator(f, env)
            try:
                for _ in self.exec_block(f.node.body, env, f.module, None):
                    raise Unsupported('yield in non-generator')
            except _Return as r:
                return r.value
            return None
        finally:
            self.stack.pop()

    def run_generator(self, f, env):

        def gen():
            try:
                yield from self.exec_block(f.node.body, env, f.module, None)
            except _Return:
                return

        return gen()

    def bind_args(self, f, args, kwargs):
        a = f.node.args
        env = Env(f.env, f)
        if not f.lam:
            for nm in _local_names(f.node):
                env.vars[nm] = UnboundLocal
        params = [p.arg for p in getattr(a, 'posonlyargs', [])] + \
            [p.arg for p in a.args]
        args = list(args)
        kwargs = dict(kwargs)
        n = len(params)
        star = None
        if any(isinstance(x, StarArgs) for x in args):
            if not isinstance(args[-1], StarArgs) or len(args) - 1 != n or \
                    a.vararg is None or any(
                        isinstance(x, StarArgs) for x in args[:-1]):
                raise Unsupported('abstract *args not bound to the variadic '
                                  'parameter as a whole')
            star = args.pop().value
        if len(args) > n and a.vararg is None:
            raise PyRaise(
                TypeError(f'{f.name}() takes {n} positional arguments but '
                          f'{len(args)} were given'))
        for i, p in enumerate(params):
            if i < len(args):
                if p in kwargs:
                    raise PyRaise(
                        TypeError(f'{f.name}() got multiple values for '
                                  f'argument {p!r}'))
                env.vars[p] = args[i]
            elif p in kwargs:
                env.vars[p] = kwargs.pop(p)
            else:
                di = i - (n - len(f.defaults))
                if di < 0:
                    raise PyRaise(
                        TypeError(f'{f.name}() missing required argument '
                                  f'{p!r}'))
                env.vars[p] = f.defaults[di]
        if a.vararg is not None:
            env.vars[a.vararg.arg] = star if star is not None else \
                tuple(args[n:])
        for p in a.kwonlyargs:
            if p.arg in kwargs:
                env.vars[p.arg] = kwargs.pop(p.arg)
            elif p.arg in f.kw_defaults:
                env.vars[p.arg] = f.kw_defaults[p.arg]
            else:
                raise PyRaise(
                    TypeError(f'{f.name}() missing keyword-only argument '
                              f'{p.arg!r}'))
        if a.kwarg is not None:
            env.vars[a.kwarg.arg] = kwargs
        elif kwargs:
            raise PyRaise(
                TypeError(f'{f.name}() got an unexpected keyword argument '
                          f'{next(iter(kwargs))!r}'))
        return env

    # ------------------------------------------------------------------
    # builtins

    def _install_builtins(self):
        from . import builtins_model
        self.builtins = dict(vars(builtins))
        builtins_model.install(self)


_MISSING = object()


class SymDict:
    """Dictionary of the interpreted program: insertion-ordered association
    list with a native index for plainly hashable keys.  Keys that cannot
    be hashed natively (symbolic values, Nodes) are found by ``==``; that is
    dict semantics provided __hash__ is consistent with __eq__ (C12)."""

    def __init__(self, items=()):
        self.items_ = []
        self.index = {}
        self.nsym = 0
        for k, v in items:
            self._append(k, v)

    def _plain(self, k):
        if is_sym(k) or isinstance(k, ObjVal):
            return False
        if isinstance(k, tuple):
            return all(self._plain(x) for x in k)
        return True

    def _append(self, k, v):
        ent = [k, v]
        self.items_.append(ent)
        if self._plain(k):
            self.index[k] = ent
        else:
            self.nsym += 1

    def find(self, eng, key):
        if self._plain(key):
            try:
                ent = self.index.get(key)
            except TypeError as ex:
                raise PyRaise(ex)
            if ent is not None:
                return ent[0]
            if self.nsym == 0:
                return _MISSING
            for ent in self.items_:
                if not self._plain(ent[0]) and eng.truth(
                        eng.key_eq(ent[0], key)):
                    return ent[0]
            return _MISSING
        for ent in self.items_:
            if eng.truth(eng.key_eq(ent[0], key)):
                return ent[0]
        return _MISSING

    def get_stored(self, k):
        for ent in self.items_:
            if ent[0] is k:
                return ent[1]
        raise KeyError(k)

    def remove_stored(self, k):
        for i, ent in enumerate(self.items_):
            if ent[0] is k:
                del self.items_[i]
                if self._plain(k):
                    self.index.pop(k, None)
                else:
                    self.nsym -= 1
                return
        raise KeyError(k)

    def set(self, eng, key, value):
        k = self.find(eng, key)
        if k is _MISSING:
            self._append(key, value)
        else:
            for ent in self.items_:
                if ent[0] is k:
                    ent[1] = value
                    return

    def items(self):
        return [(k, v) for k, v in self.items_]

    def __len__(self):
        return len(self.items_)

    def __repr__(self):
        return 'SymDict(%r)' % (self.items_, )


class SymSet:
    """Set of the interpreted program (insertion-ordered; membership by
    ``==`` for elements that cannot be hashed natively)."""

    def __init__(self):
        self.elems = []
        self.plain = set()
        self.nsym = 0

    def _is_plain(self, x):
        if is_sym(x) or isinstance(x, ObjVal):
            return False
        if isinstance(x, tuple):
            return all(self._is_plain(y) for y in x)
        return True

    def has(self, eng, x):
        x = force(x)
        if self._is_plain(x):
            try:
                if x in self.plain:
                    return True
            except TypeError as ex:
                raise PyRaise(ex)
            if self.nsym == 0:
                return False
            for e in self.elems:
                if not self._is_plain(e) and eng.truth(eng.eq(e, x)):
                    return True
            return False
        for e in self.elems:
            if e is x or eng.truth(eng.eq(e, x)):
                return True
        return False

    def add(self, eng, x):
        x = force(x)
        if not self.has(eng, x):
            self.elems.append(x)
            if self._is_plain(x):
                self.plain.add(x)
            else:
                self.nsym += 1

    def __len__(self):
        return len(self.elems)

    def __repr__(self):
        return 'SymSet(%r)' % (self.elems, )


def _hkey(fn):
    try:
        hash(fn)
        return fn
    except TypeError:
        return id(fn)


def _deep_sym(v, depth=0):
    if is_sym(v) or isinstance(v, (ObjVal, SymDict, SymSet)):
        return True
    if depth > 3:
        return False
    if isinstance(v, (list, tuple)):
        return any(_deep_sym(x, depth + 1) for x in v)
    if isinstance(v, dict):
        return any(_deep_sym(x, depth + 1) for x in v.values())
    return False


_CONTAINER_METHODS = {
    (list, 'append'), (list, 'extend'), (list, 'insert'), (list, 'pop'),
    (list, 'clear'), (list, 'copy'), (list, 'reverse'),
    (dict, 'get'), (dict, 'items'), (dict, 'values'), (dict, 'keys'),
    (dict, 'setdefault'), (dict, 'update'), (dict, 'pop'),
}


def _container_method(fn):
    slf = getattr(fn, '__self__', None)
    if slf is None:
        return False
    import collections
    if isinstance(slf, collections.deque):
        return True
    return (type(slf), getattr(fn, '__name__', '')) in _CONTAINER_METHODS
