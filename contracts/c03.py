"""C03 -- termination: no cycles, no-ops, hanging mutators (partial).

Decided here: per-call parts (no-op freedom, time and size bounds of every
proposal, termination of the helper loops) and the absence of two-step
cycles on small inputs.  binary_search termination is proved (C12's
contract with a ranking function); substitute termination is part of C11's
bounded contract.  Whole-run termination and cycles across mutators of
length > 2 are outside what contracts on single calls can decide
(DESIGN.md section 4); the two-step cycles that exist are known findings.
"""
from pyvc.api import Contract, NativeCheck
from . import c12

PROPERTY = 'C03'


def contracts(tier):
    cs = [c for c in c12.contracts(tier) if c.name == 'C12/binary_search']
    for c in cs:
        c.name = 'C03/binary_search'
    from . import mutsym
    return cs + mutsym.contracts(tier)


def native_checks(tier):
    n = 2000 if tier == 'thorough' else 400
    return [
        NativeCheck('C03/native/per-call-and-short-cycles',
                    [f'ddsmt.mutators_{t}' for t in
                     ('core', 'smtlib', 'strings', 'bv', 'boolean',
                      'arithmetic', 'datatypes', 'fp')] +
                    ['ddsmt.mutator_utils.apply_simp'],
                    'harness/c03_native.py', [n],
                    bound='18 inputs; every node x every mutator x every '
                    f'proposal; two-step chains from <= {n} first steps on 8 '
                    'small inputs'),
        NativeCheck('C03/native/substitute-terminates',
                    ['ddsmt.nodes.substitute'], 'harness/nodes_native.py',
                    ['substitute', 4 if tier == 'thorough' else 3],
                    bound='forests <= 3/4 nodes incl. replacements '
                    'containing their own key (0.5 s time-out per call)'),
    ]
