"""Launcher: runs ddsmt's main() from $PYVC_REPO with
nodeio.write_smtlib_to_file wrapped so that the digest of every content
written to the output file is appended to $DDSMT_WRITES (observation only;
no change of behaviour).  usage: launch_ddsmt.py <ddsmt arguments>"""
import hashlib
import multiprocessing
import os
import sys

REPO = os.environ.get('PYVC_REPO', '/repo')
sys.path.insert(0, REPO)

if __name__ == '__main__':
    multiprocessing.set_start_method('fork')
    from ddsmt import nodeio, __main__
    real = nodeio.write_smtlib_to_file
    log = os.environ.get('DDSMT_WRITES')
    mask = os.environ.get('DDSMT_WRITES_MASK')

    def wrapped(filename, exprs):
        real(filename, exprs)
        if log:
            with open(filename, 'rb') as f:
                data = f.read()
            h = hashlib.sha256(data).hexdigest()[:16]
            line = h
            if mask:
                # second column: digest with the masked pattern blanked, so
                # that a difference can be attributed to that pattern
                import re
                line += ' ' + hashlib.sha256(
                    re.sub(mask.encode(), b'#', data)).hexdigest()[:16]
            with open(log, 'a') as f:
                f.write(line + '\n')

    nodeio.write_smtlib_to_file = wrapped
    sys.exit(__main__.main())
