#!/usr/bin/env python3-vt
"""Debug: like run1.py but takes the name of the function that lists the
contracts: run1b.py <module> <lister> <contract name> [tier]"""
import sys
sys.path.insert(0, '/verif'); sys.setrecursionlimit(20000)
from pyvc import api
mod = __import__(sys.argv[1], fromlist=['x'])
mod.contracts = getattr(mod, sys.argv[2])
tier = sys.argv[4] if len(sys.argv) > 4 else 'quick'
pk = api._run_contract((sys.argv[1], sys.argv[3], tier))
print('paths', pk['paths'], 'cut', pk['aborted_paths'], 'unsupported', pk['unsupported'][:3], 'canaries', pk['canaries_refuted'], '/', pk['canaries'], 'sec', round(pk['seconds'], 1))
if pk['crash']: print(pk['crash'][-1500:])
from collections import Counter
for k, v in sorted(Counter((r['name'], r['status']) for r in pk['results']).items()):
    if k[1] != 'proved' or '-v' in sys.argv: print(v, k)
for r in pk['results']:
    if r['status'] != 'proved':
        print('NOT PROVED', r['name'], r['status'], str(r['detail'])[:200], str(r['model'])[:400]); break
