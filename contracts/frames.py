"""Rebuilding traversals (``visit`` stack of (node, visited) pairs + ``args``
stack of child lists) for trees of any size: Node.__deepcopy__,
nodes.reduplicate (and the same skeleton in nodes.substitute).

The stacks simulate recursion; the invariant is stated per *level*:

    visit (top first):  items_0  marker(x1)  items_1  marker(x2) ...
    args  (top first):  list_0               list_1              ...

``list_i`` collects the rebuilt children of ``x_{i+1}``; an unvisited item
``(n, False)`` and a marker ``(x, True)`` both stand for "one node with the
structure of n resp. x will be appended to the list of their level".  With
``den(list)`` the structures of the nodes in a list and ``den(items)`` those of
the pending items:

    den(list_i) ++ [S(x_i) if a marker is pending above] ++ den(items_i)
        == kids(S(x_{i+1}))                      (visible levels)
        == CUR                                   (lowest visible level; the
           rest of that level R, CUR and whether it is the bottom level are
           ghosts of the opaque part; at the bottom CUR == the whole input)

Only the levels an iteration touches are visible; deeper ones materialise on
demand (the marker of the enclosing level from the opaque part of ``visit``,
its list from the opaque part of ``args``).
"""
import z3

from pyvc import sym
from pyvc.interp import ObjVal, PyRaise, Unsupported, _hkey
from pyvc.sym import SNum, SStr, mk_bool, cur
from . import nodemodel as nm
from . import worklist as wl

Struct, SeqS = nm.Struct, nm.SeqS


def cat(xs):
    xs = list(xs)
    if not xs:
        return z3.Empty(SeqS)
    return xs[0] if len(xs) == 1 else z3.Concat(*xs)


class ResList(sym.Abstract):
    """A list of rebuilt nodes: unknown prefix with structures ``base`` plus
    the nodes appended since."""

    def __init__(self, base, name='lst'):
        self.base = base
        self.appended = []
        self.name = name

    def append(self, x):
        self.appended.append(x)

    def den(self, S=None):
        S = S or nm.S
        return cat([self.base] + [z3.Unit(S(x)) for x in self.appended])


def list_den(lst, S=None):
    S = S or nm.S
    if isinstance(lst, ResList):
        return lst.den(S)
    if isinstance(lst, list):
        return cat([z3.Unit(S(x)) for x in lst])
    raise Unsupported(f'child list of type {type(lst).__name__}')


class ResTuple(sym.Abstract):
    """``*lst`` / ``tuple(lst)`` of a result list at a given moment."""

    def __init__(self, seq, items=None):
        self.seq = seq  # z3 Seq Struct
        self.items = items  # the concrete nodes, when all are known

    def struct_seq(self):
        return self.seq


class ResMapped(sym.Abstract):

    def __init__(self, tup):
        self.tup = tup


class Level:
    """Ghost of the opaque part of ``visit``: the rest R of the pending items
    of the lowest visible level, its target CUR, and whether it is the bottom
    level."""

    def __init__(self, R, CUR, bottom, tag=None):
        self.R, self.CUR, self.bottom = R, CUR, bottom
        self.tag = tag  # position tag of R (for position-aware specs)


class IdentitySpec:
    """What a pending source node contributes to the list of its level: for
    copying traversals, a node of the same structure."""

    def item(self, s):  # Struct -> Seq Struct
        return z3.Unit(s)

    def seq(self, q):  # Seq Struct -> Seq Struct
        return q

    def target(self, s):  # children list a marker's level has to reach
        return Struct.kids(s)

    def unfold(self, p, s):
        pass

    def marker(self, p, s):
        """facts about a node whose marker is on the stack"""

    # node / position aware variants (default: functions of the structure)
    def item_n(self, node):
        return self.item(nm.S(node))

    def seq_p(self, q, pos):
        return self.seq(q)

    def target_n(self, node):
        return self.target(nm.S(node))

    def unfold_n(self, p, node):
        self.unfold(p, nm.S(node))

    def marker_n(self, p, node):
        self.marker(p, nm.S(node))


T0 = z3.IntVal(0)  # position tag of the whole input


def pos_of(owner):
    """position tag of the children list of a node: its (unique) id"""
    return T0 if owner is None else sym._znum(owner.attrs['id'])


class Frames:
    """State shared by the two stacks of one run (kept in path.ghost).

    ``spec`` says what a pending source node contributes to the list of its
    level.  ``extra`` are further specifications that hold only while a
    guard is true (e.g. the identity specification while substitute has not
    replaced anything yet): their equations are stated under the guard."""

    def __init__(self, eng, F, spec=None, extra=()):
        self.eng = eng
        self.spec = spec or IdentitySpec()
        self.specs = [(self.spec, None)] + list(extra)
        self.F0 = F
        self.F = self.spec.seq_p(F, T0)  # what the bottom level has to reach
        self.pending_list = None  # (A, name): list to materialise next

    @staticmethod
    def _under(guard, f):
        return f if guard is None else z3.Implies(guard(), f)

    # -- havoc ------------------------------------------------------------------
    def havoc(self, p, tag=''):
        R = z3.Const(p.fresh_name('R' + tag), SeqS)
        bottom = p.fresh_bool('bottom' + tag)
        A = z3.Const(p.fresh_name('A' + tag), SeqS)
        rtag = p.fresh_int('postag' + tag)
        CURs = []
        for k, (sp, g) in enumerate(self.specs):
            CUR = z3.Const(p.fresh_name(f'CUR{k or ""}' + tag), SeqS)
            CURs.append(CUR)
            p.assume(self._under(g, z3.Concat(A, sp.seq_p(R, rtag)) == CUR))
            p.assume(self._under(g, z3.Implies(bottom,
                                               CUR == sp.seq_p(self.F0, T0))))
            p.assume(sp.seq_p(z3.Empty(SeqS), rtag) == z3.Empty(SeqS))
        lvl = Level(R, CURs, bottom, rtag)
        visit = wl.AbsList(self.eng, [wl.Opaque(
            lvl, self.split_visit, self.visit_nonempty)])
        nbelow = p.fresh_int('lists_below' + tag)
        p.assume(nbelow >= 0)
        p.assume(bottom == (nbelow == 0))
        args = wl.AbsList(self.eng, [
            wl.Opaque(nbelow, self.split_args, lambda n: n > 0),
            ('item', ResList(A, 'top'))])
        return visit, args

    @staticmethod
    def visit_nonempty(lvl):
        return z3.Or(z3.Length(lvl.R) > 0, z3.Not(lvl.bottom))

    def split_visit(self, e, lvl):
        """Take the next item of the opaque part of ``visit``."""
        p = cur()
        if e.truth(mk_bool(z3.Length(lvl.R) > 0)):
            n = nm.lazy_node(e, p, p.fresh_name('pending'))
            R2 = z3.Const(p.fresh_name('R'), SeqS)
            p.assume(lvl.R == z3.Concat(z3.Unit(nm.S(n)), R2))
            tag2 = p.fresh_int('postag')
            for sp, g in self.specs:
                p.assume(sp.seq_p(lvl.R, lvl.tag) == z3.Concat(
                    sp.item_n(n), sp.seq_p(R2, tag2)))
                p.assume(sp.seq_p(z3.Empty(SeqS), tag2) == z3.Empty(SeqS))
                sp.unfold_n(p, n)
            return (n, False), Level(R2, lvl.CUR, lvl.bottom, tag2)
        # this level is finished: the marker of the enclosing node is next
        if not e.truth(mk_bool(z3.Not(lvl.bottom))):
            raise PyRaise(IndexError('pop from empty list'))
        x = nm.lazy_node(e, p, p.fresh_name('encl'))
        p.assume(Struct.is_tup(nm.S(x)))
        # the enclosing level: its list A', rest R', targets CUR'
        A2 = z3.Const(p.fresh_name('A'), SeqS)
        R2 = z3.Const(p.fresh_name('R'), SeqS)
        bottom2 = p.fresh_bool('bottom')
        tag2 = p.fresh_int('postag')
        CURs2 = []
        for k, (sp, g) in enumerate(self.specs):
            p.assume(self._under(g, sp.target_n(x) == lvl.CUR[k]))
            p.assume(sp.seq_p(z3.Empty(SeqS), tag2) == z3.Empty(SeqS))
            sp.marker_n(p, x)
            sp.unfold_n(p, x)
            CUR2 = z3.Const(p.fresh_name(f'CUR{k or ""}'), SeqS)
            CURs2.append(CUR2)
            p.assume(self._under(g, z3.Concat(
                A2, sp.item_n(x), sp.seq_p(R2, tag2)) == CUR2))
            p.assume(self._under(g, z3.Implies(
                bottom2, CUR2 == sp.seq_p(self.F0, T0))))
        self.pending_list = (A2, bottom2)
        return (x, True), Level(R2, CURs2, bottom2, tag2)

    def split_args(self, e, nbelow):
        """Materialise the list of the enclosing level."""
        p = cur()
        if self.pending_list is None:
            raise Unsupported('list of an enclosing level requested before '
                              'its marker was taken from the visit stack')
        A2, bottom2 = self.pending_list
        self.pending_list = None
        n2 = p.fresh_int('lists_below')
        p.assume(z3.And(n2 >= 0, nbelow == n2 + 1, bottom2 == (n2 == 0)))
        return ResList(A2, 'encl'), n2

    # -- parsing the visible part ---------------------------------------------
    def levels(self, visit, args, S=None):
        """Equations of the visible levels (list of z3 formulas) or None if
        the stacks do not have the expected form."""
        S = S or nm.S
        e = self.eng
        if isinstance(visit, list):
            visit = wl.as_abs(e, visit)
        if isinstance(args, list):
            args = wl.as_abs(e, args)
        if not isinstance(visit, wl.AbsList) or not isinstance(
                args, wl.AbsList):
            return None
        # args: [Opaque?] item*   (top last)
        lists = []
        nbelow = z3.IntVal(0)
        for i, part in enumerate(args.parts):
            if isinstance(part, wl.Opaque) and i == 0:
                nbelow = part.den
            elif isinstance(part, tuple):
                lists.append(part[1])
            else:
                return None
        lists.reverse()  # top first
        # visit: split at the markers, top first; pending items as source
        # structures ('seq', q) / ('item', s)
        groups = [[]]
        markers = []
        lvl = None
        for i, part in enumerate(reversed(visit.parts)):
            if isinstance(part, wl.Opaque):
                if i != len(visit.parts) - 1:
                    return None
                lvl = part.den
            elif isinstance(part, wl.Seg):
                g = nm.lazy_node(e, cur(), cur().fresh_name('probe'))
                w = part.wrap(g) if part.wrap else None
                if not (isinstance(w, tuple) and len(w) == 2 and w[0] is g
                        and w[1] is False and part.rev):
                    return None
                groups[-1].append(('seq', part.seq, pos_of(part.owner)))
            else:
                it = part[1]
                if not (isinstance(it, tuple) and len(it) == 2 and isinstance(
                        it[0], ObjVal) and isinstance(it[1], bool)):
                    return None
                if it[1]:
                    markers.append(it[0])
                    groups.append([])
                else:
                    groups[-1].append(('item', it[0], None))
        if len(lists) != len(groups):
            return None
        eqs = []
        for k, (sp, gd) in enumerate(self.specs):
            for i, (lst, grp) in enumerate(zip(lists, groups)):
                lhs = [list_den(lst, S)]
                if i > 0:
                    lhs.append(sp.item_n(markers[i - 1]))
                lhs.extend(sp.seq_p(x, pos) if kind == 'seq' else sp.item_n(x)
                           for kind, x, pos in grp)
                if i < len(markers):
                    if k == 0:
                        eqs.append(Struct.is_tup(nm.S(markers[i])))
                    eqs.append(self._under(gd, cat(lhs) == sp.target_n(
                        markers[i])))
                elif lvl is not None:
                    eqs.append(self._under(gd, cat(
                        lhs + [sp.seq_p(lvl.R, lvl.tag)]) == lvl.CUR[k]))
                    eqs.append(self._under(gd, z3.Implies(
                        lvl.bottom, lvl.CUR[k] == sp.seq_p(self.F0, T0))))
                    if k == 0:
                        eqs.append(lvl.bottom == (nbelow == 0))
                        eqs.append(nbelow >= 0)
                else:
                    eqs.append(self._under(gd, cat(lhs) == sp.seq_p(self.F0, T0)))
                    if k == 0:
                        eqs.append(nbelow == 0)
        return eqs


def install(eng):
    """Handlers for result lists / tuples and the two stacks."""
    eng.isinstance_handlers[ResList] = lambda e, x, c: isinstance(
        c, type) and issubclass(list, c)
    eng.isinstance_handlers[ResTuple] = lambda e, x, c: isinstance(
        c, type) and issubclass(tuple, c)
    eng.len_handlers[ResList] = lambda e, x: sym.mk_num(
        z3.simplify(z3.Length(x.den())))
    eng.len_handlers[ResTuple] = lambda e, x: sym.mk_num(
        z3.simplify(z3.Length(x.seq)))
    eng.truth_handlers[ResList] = lambda e, x: e.truth(
        mk_bool(z3.Length(x.den()) > 0))
    eng.truth_handlers[ResTuple] = lambda e, x: e.truth(
        mk_bool(z3.Length(x.seq) > 0))
    eng.star_handlers[ResList] = lambda e, xs: ResTuple(
        z3.simplify(xs.den()),
        list(xs.appended) if z3.is_true(z3.simplify(
            z3.Length(xs.base) == 0)) else None)

    def elem(e, seq, k, name):
        p = cur()
        return nm.lazy_node(e, p, p.fresh_name(name), sterm=seq[k])

    def tup_getitem(e, t, key):
        if isinstance(key, int) and key >= 0:
            if not e.truth(mk_bool(z3.Length(t.seq) > key)):
                raise PyRaise(IndexError('tuple index out of range'))
            if t.items is not None and key < len(t.items):
                return t.items[key]
            return elem(e, t.seq, key, 'elem')
        raise Unsupported(f'result tuple [{key!r}]')

    eng.getitem_handlers[ResTuple] = tup_getitem

    def lst_getitem(e, x, key):
        if isinstance(key, int) and key >= 0:
            n = z3.Length(x.den())
            if not e.truth(mk_bool(n > key)):
                raise PyRaise(IndexError('list index out of range'))
            if z3.is_true(z3.simplify(z3.Length(x.base) == 0)):
                return x.appended[key]
            return elem(e, x.den(), key, 'elem')
        raise Unsupported(f'result list [{key!r}]')

    eng.getitem_handlers[ResList] = lst_getitem

    map0 = eng.native_handlers[_hkey(map)]
    tuple0 = eng.native_handlers[_hkey(tuple)]
    hash0 = eng.native_handlers[_hkey(hash)]

    def b_map(e, f, *its):
        if len(its) == 1 and isinstance(its[0], ResTuple):
            g = nm.lazy_node(e, cur(), cur().fresh_name('elem'))
            r = e.call(f, [g], {})
            if r is not g:
                raise Unsupported('map over a result list with a function '
                                  'that is not the identity on nodes')
            return ResMapped(its[0])
        return map0(e, f, *its)

    def b_tuple(e, it=()):
        if isinstance(it, ResMapped):
            return it.tup
        if isinstance(it, ResTuple):
            return it
        return tuple0(e, it)

    def b_hash(e, x):
        if isinstance(x, ResTuple):
            return SNum(nm.NHASH(Struct.tup(x.seq)))
        return hash0(e, x)

    def tuple_comp(e, it, node, env, mod, clsctx):
        """(f(a) for a in <result tuple>) with f the identity on nodes"""
        import ast
        from pyvc.interp import Env
        g = node.generators[0]
        if len(node.generators) != 1 or g.ifs or not isinstance(
                node, (ast.GeneratorExp, ast.ListComp)):
            return NotImplemented
        x = nm.lazy_node(e, cur(), cur().fresh_name('elem'))
        cenv = Env(env, env.func if env is not None else None)
        e.assign(g.target, x, cenv, mod, clsctx)
        if e.eval(node.elt, cenv, mod, clsctx) is not x:
            raise Unsupported('comprehension over a result list with an '
                              'element expression that is not the identity '
                              'on nodes')
        return ResMapped(it)

    eng.comp_handlers[ResTuple] = tuple_comp

    zip0 = eng.native_handlers[_hkey(zip)]
    any0 = eng.native_handlers[_hkey(any)]

    class AbsPairs(sym.Abstract):
        """zip(node, result list): pairs (child, rebuilt child)."""

    class AbsBools(sym.Abstract):
        """map(predicate, pairs): truth values not known."""

    def b_zip(e, *its):
        if any(isinstance(i, (ResList, ResTuple)) for i in its):
            if len(its) != 2:
                raise Unsupported('zip of a result list with != 2 operands')
            return AbsPairs()
        return zip0(e, *its)

    def b_map2(e, f, *its):
        if len(its) == 1 and isinstance(its[0], AbsPairs):
            # the predicate must not raise on an arbitrary pair of nodes
            a = nm.lazy_node(e, cur(), cur().fresh_name('child'))
            b = nm.lazy_node(e, cur(), cur().fresh_name('rebuilt'))
            for n in (a, b):
                n.attrs['id'] = SNum(cur().fresh_int('pair_id'))
            e.call(f, [(a, b)], {})
            return AbsBools()
        return b_map(e, f, *its)

    def pairs_comp(e, it, node, env, mod, clsctx):
        """(pred for a, b in zip(node, children)): like map(pred, zip(..))"""
        import ast
        from pyvc.interp import Env
        g = node.generators[0]
        if len(node.generators) != 1 or g.ifs or not isinstance(
                node, (ast.GeneratorExp, ast.ListComp)):
            return NotImplemented
        a = nm.lazy_node(e, cur(), cur().fresh_name('child'))
        b = nm.lazy_node(e, cur(), cur().fresh_name('rebuilt'))
        for n in (a, b):
            n.attrs['id'] = SNum(cur().fresh_int('pair_id'))
        cenv = Env(env, env.func if env is not None else None)
        e.assign(g.target, (a, b), cenv, mod, clsctx)
        e.eval(node.elt, cenv, mod, clsctx)  # must not raise
        return AbsBools()

    eng.comp_handlers[AbsPairs] = pairs_comp

    def b_any(e, it):
        if isinstance(it, AbsBools):
            return cur().decide(cur().fresh_bool('any_pair'))
        return any0(e, it)

    eng.native_handlers[_hkey(map)] = b_map2
    eng.native_handlers[_hkey(tuple)] = b_tuple
    eng.native_handlers[_hkey(hash)] = b_hash
    eng.native_handlers[_hkey(zip)] = b_zip
    eng.native_handlers[_hkey(any)] = b_any

    # the stacks themselves: args[-1], args[0], len(args)
    def abs_getitem(e, a, key):
        if key == -1:
            if not a.nonempty():
                raise PyRaise(IndexError('list index out of range'))
            top = a.parts[-1]
            if isinstance(top, tuple):
                return top[1]
            if isinstance(top, wl.Opaque):
                item, rest = top.split(e, top.den)
                a.parts[-1] = wl.Opaque(rest, top.split, top.nonempty,
                                        top.top_end)
                a.parts.append(('item', item))
                return item
            raise Unsupported('[-1] of a list that ends in a segment')
        if key == 0:
            first = a.parts[0] if a.parts else None
            if isinstance(first, wl.Opaque):
                if e.truth(mk_bool(first.nonempty(first.den))):
                    raise Unsupported('[0] of a list with an opaque bottom')
                first = a.parts[1] if len(a.parts) > 1 else None
            if isinstance(first, tuple):
                return first[1]
            if first is None:
                raise PyRaise(IndexError('list index out of range'))
        raise Unsupported(f'abstract list [{key!r}]')

    prev_getitem = eng.getitem_handlers.get(wl.AbsList)

    def abs_getitem2(e, a, key):
        if isinstance(key, int) and not isinstance(key, bool) and key in (
                0, -1) and any(
                isinstance(p_, (wl.Opaque, tuple)) for p_ in a.parts):
            return abs_getitem(e, a, key)
        if prev_getitem is not None:
            return prev_getitem(e, a, key)
        return abs_getitem(e, a, key)

    eng.getitem_handlers[wl.AbsList] = abs_getitem2

    def abs_len(e, a):
        n = z3.IntVal(0)
        for part in a.parts:
            if isinstance(part, tuple):
                n = n + 1
            elif isinstance(part, wl.Seg):
                n = n + part.length()
            elif z3.is_expr(part.den) and part.den.sort() == z3.IntSort():
                n = n + part.den
            else:
                raise Unsupported('len() of a list with an opaque part')
        return sym.mk_num(z3.simplify(n))

    eng.len_handlers[wl.AbsList] = abs_len


def install_struct_hook():
    """nm.S of a node whose data is a ResTuple."""
    if getattr(nm, '_frames_hook', False):
        return
    orig = nm.S

    def S(obj):
        if isinstance(obj, ObjVal) and (obj.tag or {}).get('S') is None:
            d = obj.attrs.get('data')
            if isinstance(d, ResTuple):
                if obj.tag is None:
                    obj.tag = {}
                obj.tag['S'] = Struct.tup(d.seq)
                return obj.tag['S']
        return orig(obj)

    nm.S = S
    nm._frames_hook = True
