"""Bounded stand-in / replay vehicle for C16: a typed term generator built on
the same typing table (contracts/typing_table.py).  Runs under python3-vt
(ddSMT is pure standard library).  For every schema, every small assignment
of widths / indices and every choice of operand kind -- a declared variable,
or an application of a declared function whose sort ddSMT cannot infer --
the real collect_information + get_sort + get_bv_width are run on a
well-sorted script and compared with the table.

usage: c16_native.py <max_int_choices>
"""
import itertools
import os
import sys

ARGS = sys.argv[1:]
REPO = os.environ.get('PYVC_REPO', '/repo')
sys.path.insert(0, REPO)
sys.argv = ['ddsmt', 'in.smt2', 'out.smt2', 'cmd']
from harness.bounded import Recorder  # noqa: E402
from contracts.typing_table import table, leaf_table, width_of  # noqa: E402
from ddsmt import smtlib, nodeio, options  # noqa: E402
from ddsmt.nodes import Node  # noqa: E402

options.args()


class Retry(Exception):
    pass


class NCtx:
    """Concrete context: integers from ``ints`` (in order), operand kinds
    from ``kinds``."""

    def __init__(self, ints, kinds):
        self.ints = list(ints)
        self.kinds = list(kinds)
        self.decls = []
        self.nvars = 0
        self.used_ints = 0
        self.used_ops = 0
        self.sort_decls = set()

    def fresh_pos(self, name, lo=1):
        if self.used_ints >= len(self.ints):
            raise Retry('ints')
        v = lo + self.ints[self.used_ints]
        self.used_ints += 1
        return v

    def require(self, *conds):
        if not all(conds):
            raise Retry('require')

    def product(self, a, b):
        return a * b

    def numeral(self, v):
        return str(v)

    plain_numeral = numeral

    def leaf(self, text):
        return text

    def bvtext(self, v):
        return f'bv{v}'

    def node(self, *kids):
        return list(kids)

    def Bool(self):
        return ('Bool', )

    def Int(self):
        return ('Int', )

    def Real(self):
        return ('Real', )

    def String(self):
        return ('String', )

    def RM(self):
        return ('RoundingMode', )

    def BV(self, w):
        return ('BV', w)

    def FP(self, e, s):
        return ('FP', e, s)

    def Array(self, i, e):
        return ('Array', i, e)

    def Alpha(self, name):
        u = f'U{len(self.sort_decls) + 1}'
        self.sort_decls.add(u)
        self.decls.append(['declare-sort', u, '0'])
        return ('alpha', u)

    def sort_node(self, s):
        k = s[0]
        if k in ('Bool', 'Int', 'Real', 'String', 'RoundingMode'):
            return k
        if k == 'BV':
            return ['_', 'BitVec', str(s[1])]
        if k == 'FP':
            return ['_', 'FloatingPoint', str(s[1]), str(s[2])]
        if k == 'Array':
            return ['Array', self.sort_node(s[1]), self.sort_node(s[2])]
        return s[1]

    def declare(self, name, sort):
        self.decls.append(['declare-const', name, self.sort_node(sort)])
        return name

    def operand(self, sort, name=None):
        if self.used_ops >= len(self.kinds):
            raise Retry('kinds')
        kind = self.kinds[self.used_ops]
        self.used_ops += 1
        self.nvars += 1
        v = f'v{self.nvars}'
        self.decls.append(['declare-const', v, self.sort_node(sort)])
        if kind == 'var':
            return v
        f = f'uf{self.nvars}'
        sn = self.sort_node(sort)
        self.decls.append(['declare-fun', f, [sn], sn])
        return [f, v]


def build(pl):
    if isinstance(pl, str):
        return Node(pl)
    return Node(*[build(c) for c in pl])


def plain(n):
    return n.data if n.is_leaf() else [plain(c) for c in n.data]


def sexpr(pl):
    return pl if isinstance(pl, str) else '(' + ' '.join(
        sexpr(c) for c in pl) + ')'


def main():
    nint = int(ARGS[0])
    rec = Recorder('C16/native/typed-terms',
                   f'every schema of the typing table, widths/indices from '
                   f'{nint} small values each, every operand either a '
                   'declared variable or an application of unknown sort')
    schemas = {**table(), **leaf_table()}
    for name, builder in schemas.items():
        done = set()
        for ints in itertools.product(range(nint), repeat=4):
            for kinds in itertools.product(('var', 'opaque'), repeat=4):
                c = NCtx(ints, kinds)
                try:
                    term, want = builder(c)
                except Retry:
                    continue
                key = (tuple(ints[:c.used_ints]), tuple(kinds[:c.used_ops]))
                if key in done:
                    continue
                done.add(key)
                sn = c.sort_node(want)
                script = c.decls + [['define-fun', 'the-term', [], sn, term]]
                exprs = [build(x) for x in script]
                tnode = exprs[-1][4]
                smtlib.collect_information(exprs)
                case = {'schema': name, 'script': ' '.join(
                    sexpr(x) for x in script)}
                rec.case((name, key), case)
                try:
                    got = smtlib.get_sort(tnode)
                    gw = smtlib.get_bv_width(tnode)
                except Exception as e:  # noqa
                    rec.violation(f'C16/native/{name}/raises-nothing', case,
                                  f'{type(e).__name__}: {e}')
                    continue
                if got is not None and plain(got) != sn:
                    rec.violation(
                        f'C16/native/{name}/sort-unknown-or-right', case,
                        f'get_sort gives {sexpr(plain(got))}, the term has '
                        f'sort {sexpr(sn)}')
                w = width_of(want)
                if gw != -1 and gw != w:
                    rec.violation(
                        f'C16/native/{name}/width-unknown-or-right', case,
                        f'get_bv_width gives {gw}, the term has '
                        + (f'width {w}' if w is not None else
                           'no bit-vector sort'))
    rec.finish()


if __name__ == '__main__':
    main()
