"""C07 -- rendering and re-parsing is the identity, in every output mode.

Bounded: the four real renderers are run on every forest up to a size bound
with leaves from a lexeme alphabet chosen for the boundaries the property
names; each rendering is tokenised by the reference reader (must equal the
flat token sequence of the input) and re-parsed by ddSMT's parser (must be
structurally the input).
"""
from pyvc.api import Contract, NativeCheck

PROPERTY = 'C07'


def contracts(tier):
    return []


def native_checks(tier):
    n = 6 if tier == 'thorough' else 5
    return [
        NativeCheck('C07/native/render',
                    ['ddsmt.nodeio.write_smtlib',
                     'ddsmt.nodeio.write_smtlib_for_checking',
                     'ddsmt.nodeio.__write_smtlib',
                     'ddsmt.nodeio.__write_smtlib_pretty',
                     'ddsmt.nodeio.__write_smtlib_wrapped',
                     'ddsmt.nodeio.parse_smtlib'],
                    'harness/parser_native.py', ['render', n],
                    bound=f'forests of <= 2 trees, <= {n} nodes, 12 leaf '
                    'lexemes (long token, hyphens, literals with space / '
                    '"" / ( / ;, quoted symbols with space / newline, '
                    'comment, #b, keyword) + 8 wide inputs forcing wraps',
                    timeout=3000),
    ]
