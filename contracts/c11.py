"""C11 -- applying a simplification changes exactly the designated subtrees.

introduce_variables / apply_simp: symbolic contracts (commands are lazy
symbolic nodes; list length bounded).  substitute: bounded native run-time
contracts against a recursive reference (harness/nodes_native.py).
"""
import z3

from pyvc import mk, sym
from pyvc.api import Contract, NativeCheck, outcome
from pyvc.sym import SBool, SNum, SStr, mk_bool
from . import env, nodemodel as nm
from .nodemodel import Struct

PROPERTY = 'C11'


def setup(eng):
    env.static_options(eng)
    nm.install(eng)
    nm.use_eq_contract(eng)


def is_header(s):
    """z3: the command is (set-info ...) or (set-logic ...)"""
    k0 = Struct.kids(s)[0]
    return z3.And(
        Struct.is_tup(s), z3.Length(Struct.kids(s)) >= 1,
        Struct.is_leaf(k0),
        z3.Or(Struct.text(k0) == z3.StringVal('set-info'),
              Struct.text(k0) == z3.StringVal('set-logic')))


def make_run_intro(k, nvars):

    def run(eng, p):
        sm = eng.load_module('ddsmt.smtlib')
        exprs = [nm.lazy_node(eng, p, f'e{i}') for i in range(k)]
        orig = list(exprs)
        vars_ = [nm.lazy_node(eng, p, f'v{i}') for i in range(nvars)]
        out = outcome(eng, sm.g['introduce_variables'], [exprs, vars_])
        N = 'C11/introduce_variables'
        p.oblige(f'{N}/raises-nothing', out.kind == 'return', info=repr(out))
        if out.kind != 'return':
            return
        res = out.value
        p.oblige(f'{N}/argument-not-modified',
                 len(exprs) == k and all(a is b for a, b in zip(exprs, orig)))
        ok = isinstance(res, list) and len(res) == k + nvars
        p.oblige(f'{N}/result-length', ok)
        if not ok:
            return
        # find the insertion point (by identity of the inserted commands)
        pos = None
        for i in range(k + 1):
            if all(res[i + j] is vars_[j] for j in range(nvars)) and \
                    all(res[j] is orig[j] for j in range(i)) and \
                    all(res[i + nvars + j] is orig[i + j]
                        for j in range(k - i)):
                pos = i
                break
        p.oblige(f'{N}/is-an-insertion-of-vars', pos is not None)
        if pos is None or nvars == 0:
            return
        # ... after the maximal set-info/set-logic prefix, i.e. before the
        # first other command (hence before every use)
        pre = z3.And(*[is_header(nm.S(orig[j])) for j in range(pos)]) \
            if pos else z3.BoolVal(True)
        stop = z3.Not(is_header(nm.S(orig[pos]))) if pos < k \
            else z3.BoolVal(True)
        p.oblige(f'{N}/after-header-prefix', z3.And(pre, stop),
                 info={'pos': pos, 'signature': 'declarations not placed '
                       'right after the set-info/set-logic prefix'})

    return run


def run_apply_simp(eng, p):
    mu = eng.load_module('ddsmt.mutator_utils')
    S = mu.g['Simplification']
    exprs = [nm.lazy_node(eng, p, 'e0'), nm.lazy_node(eng, p, 'e1')]
    nvars = p.choose(2, 'nvars')
    vars_ = [nm.lazy_node(eng, p, 'v0')] if nvars else []
    changed = p.decide(p.fresh_bool('substitution_changes_something'))
    new_list = [nm.lazy_node(eng, p, 'm0')]
    calls = []

    def substitute(e, ex, repl):
        calls.append((ex, repl))
        return new_list if changed else ex

    intro = []

    def introduce(e, ex, vs):
        intro.append((ex, vs))
        return ['<introduced>']

    eng.overrides['ddsmt.nodes.substitute'] = substitute
    eng.overrides['ddsmt.smtlib.introduce_variables'] = introduce
    substs = {1: None}
    simp = eng.call(S, [substs, vars_], {})
    out = outcome(eng, mu.g['apply_simp'], [exprs, simp])
    N = 'C11/apply_simp'
    p.oblige(f'{N}/raises-nothing', out.kind == 'return', info=repr(out))
    if out.kind != 'return':
        return
    p.oblige(f'{N}/substitutes-the-given-map-once',
             len(calls) == 1 and calls[0][0] is exprs and
             calls[0][1] is simp.substs)
    if not changed:
        p.oblige(f'{N}/unchanged-input-returned-as-is',
                 out.value is exprs and not intro)
    elif nvars:
        p.oblige(f'{N}/declarations-inserted-into-result',
                 len(intro) == 1 and intro[0][0] is new_list and
                 intro[0][1] is vars_ and out.value == ['<introduced>'])
    else:
        p.oblige(f'{N}/no-declarations-no-insertion',
                 out.value is new_list and not intro)


def contracts(tier):
    kmax = 5 if tier == 'thorough' else 3
    cs = []
    for k in range(0, kmax + 1):
        for nv in (0, 1, 2):
            cs.append(
                Contract(f'C11/introduce_variables[{k} commands,{nv} decls]',
                         ['ddsmt.smtlib.introduce_variables'],
                         make_run_intro(k, nv), setup=setup, tier='S',
                         bound=f'lists of <= {kmax} commands; the commands '
                         'themselves are arbitrary (lazy symbolic nodes)',
                         assumptions=[nm.ASSUME_LAZY, nm.ASSUME_EQ_CONTRACT]))
    cs.append(
        Contract('C11/apply_simp', ['ddsmt.mutator_utils.apply_simp'],
                 run_apply_simp, setup=setup,
                 assumptions=['nodes.substitute and '
                              'smtlib.introduce_variables used through their '
                              'contracts (C11/native/substitute, '
                              'C11/introduce_variables)']))
    return cs


def native_checks(tier):
    t = tier == 'thorough'
    S = 'harness/nodes_native.py'
    return [
        NativeCheck('C11/native/substitute', ['ddsmt.nodes.substitute'], S,
                    ['substitute', 5 if t else 4],
                    bound=f'forests <= {5 if t else 4} nodes, <= 2 identity '
                    'keys + 1 structural key, 5 replacement forms'),
        NativeCheck('C11/native/apply_simp',
                    ['ddsmt.mutator_utils.apply_simp',
                     'ddsmt.smtlib.introduce_variables'], S,
                    ['apply_simp', 4 if t else 3],
                    bound='command lists <= 4'),
    ]
