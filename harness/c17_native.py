"""Bounded stand-in for C17: every rewrite the documentation states as an
identity is applied by the real mutator to generated well-sorted instances;
original term and replacement are evaluated by an independent evaluator
(harness/smt_eval.py) under every assignment of a small domain and must have
the same sort and value.

usage: c17_native.py <max_width>
"""
import itertools
import sys

ARGS = sys.argv[1:]
from harness import replaylib as R  # noqa: E402
from harness.bounded import Recorder  # noqa: E402
from harness import smt_eval as E  # noqa: E402

R.init_ddsmt()
from ddsmt import (smtlib, nodes, mutators_bv, mutators_boolean,  # noqa
                   mutators_arithmetic, mutators_smtlib, mutators_datatypes,
                   mutators_fp, mutator_utils)
from ddsmt.nodes import Node  # noqa: E402


def build(pl):
    if isinstance(pl, str):
        return Node(pl)
    return Node(*[build(c) for c in pl])


def plain(n):
    if n is None:
        return None
    return n.data if n.is_leaf() else [plain(c) for c in n.data]


def sexpr(pl):
    return pl if isinstance(pl, str) else '(' + ' '.join(
        sexpr(c) for c in pl) + ')'


def BV(w):
    return ['_', 'BitVec', str(w)]


class Inst:
    """script prefix (declarations), the term, free variables"""

    def __init__(self, decls, term, free, anywhere=False):
        self.decls, self.term, self.free = decls, term, free
        # anywhere: the mutator is tried on every sub-node of the term and
        # the value of the whole term is compared (an occurrence under a
        # binder can only be judged in its context)
        self.anywhere = anywhere


def check_anywhere(rec, mname, mut, inst):
    script = inst.decls + [['assert-term', inst.term]]
    exprs = [build(x) for x in script]
    smtlib.collect_information(exprs)
    root = exprs[-1][1]
    funs = {d[1]: ([a[0] for a in d[2]], d[4]) for d in inst.decls
            if d[0] == 'define-fun'}
    names = [n for n, _ in inst.free]
    doms = [E.domain(s) for _, s in inst.free]
    accepted = 0
    for target in list(nodes.dfs(root)):
        try:
            if hasattr(mut, 'filter') and not mut.filter(target):
                continue
            simps = list(mut.mutations(target))
        except Exception:  # noqa  (a failing mutator proposes nothing)
            continue
        for simp in simps:
            accepted += 1
            new = plain(nodes.substitute(root, dict(simp.substs)))
            case = {'mutator': mname,
                    'decls': ' '.join(sexpr(d) for d in inst.decls),
                    'term': sexpr(inst.term), 'at': sexpr(plain(target)),
                    'result': sexpr(new)}
            rec.case((mname, 'anywhere', sexpr(inst.term), case['at'],
                      case['result']), case)
            for vals in itertools.product(*doms):
                env = dict(zip(names, vals))
                ctx = E.Ctx(env, funs)
                try:
                    v1 = E.ev(inst.term, ctx)
                except E.EvalError:
                    continue
                try:
                    v2 = E.ev(new, ctx)
                except E.EvalError as ex:
                    rec.violation(
                        f'C17/native/{mname}/replacement-well-sorted', case,
                        f'{ex} under {env}')
                    break
                if v1 != v2:
                    rec.violation(f'C17/native/{mname}/same-value', case,
                                  f'{v1} vs {v2} under {env}')
                    break
    return bool(accepted)


def check_instance(rec, mname, mut, inst):
    script = inst.decls + [['assert-term', inst.term]]
    exprs = [build(x) for x in script]
    smtlib.collect_information(exprs)
    target = exprs[-1][1]
    case = {'mutator': mname, 'decls': ' '.join(sexpr(d) for d in inst.decls),
            'term': sexpr(inst.term)}
    try:
        if hasattr(mut, 'filter') and not mut.filter(target):
            return False
        simps = list(mut.mutations(target))
    except Exception as e:  # noqa  (a failing mutator proposes nothing)
        rec.case((mname, 'raised', sexpr(inst.term)))
        return False
    funs = {}
    dts = []
    for d in inst.decls:
        if d[0] == 'define-fun':
            funs[d[1]] = ([a[0] for a in d[2]], d[4])
        if d[0] == 'declare-datatype':
            dts.append((d[1], d[2]))
    for simp in simps:
        if target.id not in simp.substs:
            rec.violation(f'C17/native/{mname}/replaces-the-node', case,
                          'proposal does not designate the accepted node')
            continue
        repl = plain(simp.substs[target.id])
        case2 = dict(case)
        case2['replacement'] = sexpr(repl) if repl is not None else None
        rec.case((mname, sexpr(inst.term), case2['replacement']), case2)
        names = [n for n, _ in inst.free]
        doms = [E.domain(s) for _, s in inst.free]
        for vals in itertools.product(*doms):
            env = dict(zip(names, vals))
            ctx = E.Ctx(env, funs, dts)
            try:
                v1 = E.ev(inst.term, ctx)
            except E.EvalError:
                continue  # not a well-sorted instance for this assignment
            try:
                v2 = E.ev(repl, ctx)
            except E.EvalError as ex:
                rec.violation(f'C17/native/{mname}/replacement-well-sorted',
                              case2, f'{ex} under {env}')
                break
            if E.sort_of_value(v1) != E.sort_of_value(v2):
                rec.violation(f'C17/native/{mname}/same-sort', case2,
                              f'{E.sort_of_value(v1)} vs '
                              f'{E.sort_of_value(v2)}')
                break
            if v1 != v2:
                rec.violation(f'C17/native/{mname}/same-value', case2,
                              f'{v1} vs {v2} under {env}')
                break
    return bool(simps)


def bv_consts(maxw):
    for w in range(1, maxw + 1):
        for v in range(1 << w):
            yield '#b' + format(v, f'0{w}b'), w
            yield ['_', f'bv{v}', str(w)], w
    for h in ('#x0', '#xf', '#x7', '#x80', '#xa5'):
        yield h, 4 * (len(h) - 2)


def instances(maxw):  # noqa: C901
    yield_ = []

    def add(m, inst):
        yield_.append((m, inst))

    # -- constant normalisation / evaluation
    for c, w in bv_consts(maxw):
        add('BVNormalizeConstants', Inst([], c, []))
        for k in range(0, 4):
            for op in ('zero_extend', 'sign_extend'):
                add('BVEvalExtend', Inst([], [['_', op, str(k)], c], []))
        for i in range(w):
            for j in range(i + 1):
                add('BVExtractConstants',
                    Inst([], [['_', 'extract', str(i), str(j)], c], []))
    # -- extract of zero_extend, merging of extensions
    for w in range(1, maxw + 1):
        dx = [['declare-const', 'x', BV(w)]]
        fx = [('x', BV(w))]
        for k in range(0, 4):
            for i in range(w + k):
                for j in range(i + 1):
                    add('BVExtractZeroExtend',
                        Inst(dx, [['_', 'extract', str(i), str(j)],
                                  [['_', 'zero_extend', str(k)], 'x']], fx))
        for op in ('zero_extend', 'sign_extend'):
            for a, b in itertools.product(range(0, 3), repeat=2):
                add('BvMergeExtend',
                    Inst(dx, [['_', op, str(a)], [['_', op, str(b)], 'x']],
                         fx))
                add('BvMergeExtend',
                    Inst(dx, [['_', op, str(a)],
                              [['_', op, str(b)], [['_', op, '1'], 'x']]],
                         fx))
                # near misses: chains that mix the two kinds (only the
                # leading run of one kind may be merged)
                other = 'sign_extend' if op == 'zero_extend' else \
                    'zero_extend'
                add('BvMergeExtend',
                    Inst(dx, [['_', op, str(a)],
                              [['_', op, str(b)], [['_', other, '1'], 'x']]],
                         fx))
                add('BvMergeExtend',
                    Inst(dx, [['_', op, str(a)],
                              [['_', other, str(b)], [['_', op, '1'], 'x']]],
                         fx))
        # previous bit-width reductions
        for n, m in itertools.product(range(1, 3), repeat=2):
            d = [['declare-const', '__w', BV(w)],
                 ['define-fun', '_w', [], BV(w + n),
                  [['_', 'zero_extend', str(n)], '__w']],
                 ['define-fun', 'w', [], BV(w + n + m),
                  [['_', 'zero_extend', str(m)], '_w']]]
            add('BVMergeReducedBW@define-fun',
                Inst(d, 'w', [('__w', BV(w))]))
        # bit-vector laws
        dxy = dx + [['declare-const', 'y', BV(w)]]
        fxy = fx + [('y', BV(w))]
        for t in (['bvnot', ['bvnot', 'x']], ['bvneg', ['bvneg', 'x']],
                  ['bvnot', ['bvnot', ['bvadd', 'x', 'y']]],
                  # near misses: must be rejected or rewritten correctly
                  ['bvnot', ['bvneg', 'x']], ['bvneg', ['bvnot', 'x']],
                  ['bvnot', ['bvadd', 'x', 'y']]):
            add('BVDoubleNegation', Inst(dxy, t, fxy))
        add('BVReflexiveNand', Inst(dxy, ['bvnand', 'x', 'y'], fxy))
        add('BVReflexiveNand', Inst(dxy, ['bvnor', 'x', 'x'], fxy))
        add('BVReflexiveNand', Inst(dxy, ['bvnand', 'x', 'x'], fxy))
        add('BVReflexiveNand',
            Inst(dxy, ['bvnand', ['bvor', 'x', 'y'], ['bvor', 'x', 'y']],
                 fxy))
        for one, zero in (('#b1', '#b0'), (['_', 'bv1', '1'],
                                           ['_', 'bv0', '1'])):
            add('BVIteToBVComp',
                Inst(dxy, ['ite', ['=', 'x', 'y'], one, zero], fxy))
            add('BVElimBVComp', Inst(dxy, ['=', one, ['bvcomp', 'x', 'y']],
                                     fxy))
            add('BVElimBVComp', Inst(dxy, ['=', zero, ['bvcomp', 'x', 'y']],
                                     fxy))
            # near misses
            add('BVIteToBVComp',
                Inst(dxy, ['ite', ['=', 'x', 'y'], zero, one], fxy))
            add('BVIteToBVComp',
                Inst(dxy, ['ite', ['distinct', 'x', 'y'], one, zero], fxy))
            add('BVElimBVComp', Inst(dxy, ['=', ['bvcomp', 'x', 'y'], one],
                                     fxy))
    # -- propositional and relational laws
    dp = [['declare-const', n, 'Bool'] for n in 'pqr']
    fp = [(n, 'Bool') for n in 'pqr']
    add('BoolDoubleNegation', Inst(dp, ['not', ['not', 'p']], fp))
    add('BoolDoubleNegation', Inst(dp, ['not', ['not', ['and', 'p', 'q']]],
                                   fp))
    for op in ('and', 'or'):
        for args in (['p'], ['p', 'q'], ['p', 'q', 'r'],
                     ['p', ['not', 'q'], ['or', 'q', 'r']]):
            add('BoolDeMorgan', Inst(dp, ['not', [op] + args], fp))
    for t in (['=', 'false', 'p'], ['=', 'p', 'false'],
              ['=', 'false', ['and', 'p', 'q']]):
        add('BoolEliminateFalseEquality', Inst(dp, t, fp))
    add('BoolDoubleNegation', Inst(dp, ['not', ['and', ['not', 'p']]], fp))
    add('BoolDeMorgan', Inst(dp, ['not', ['xor', 'p', 'q']], fp))
    add('BoolDeMorgan', Inst(dp, ['not', ['=>', 'p', 'q']], fp))
    add('BoolEliminateFalseEquality', Inst(dp, ['=', 'true', 'p'], fp))
    add('BoolEliminateFalseEquality', Inst(dp, ['distinct', 'false', 'p'],
                                           fp))
    add('BoolXOREliminateBinary', Inst(dp, ['xor', 'p', 'q'], fp))
    add('BoolXOREliminateBinary',
        Inst(dp, ['xor', ['and', 'p', 'q'], 'r'], fp))
    add('BoolEliminateImplication', Inst(dp, ['=>', 'p', 'q'], fp))
    add('BoolEliminateImplication',
        Inst(dp, ['=>', ['or', 'p', 'r'], 'q'], fp))
    for q in ('forall', 'exists'):
        add('BoolNegateQuantifier',
            Inst(dp, ['not', [q, [['b', 'Bool']], ['or', 'b', 'p']]], fp))
        add('BoolNegateQuantifier',
            Inst(dp, ['not', [q, [['b', 'Bool'], ['c', BV(1)]],
                              ['=', ['=', 'c', '#b1'], ['and', 'b', 'q']]]],
                 fp))
    di = [['declare-const', n, 'Int'] for n in 'ab']
    fi = [(n, 'Int') for n in 'ab']
    add('ArithmeticNegateRelation', Inst(di, ['not', ['not', ['<', 'a',
                                                              'b']]], fi))
    for rel in ('=', '<', '>', '<=', '>=', 'distinct'):
        add('ArithmeticNegateRelation', Inst(di, ['not', [rel, 'a', 'b']],
                                             fi))
        add('ArithmeticNegateRelation',
            Inst(di, ['not', [rel, ['+', 'a', '1'], ['*', 'b', '2']]], fi))
    # -- function inlining: actual arguments that mention formal names
    defs = [
        ['define-fun', 'f', [['a', 'Int'], ['b', 'Int']], 'Int',
         ['-', ['*', 'a', '2'], 'b']],
        ['define-fun', 'g', [['p', 'Bool']], 'Bool', ['not', 'p']],
        ['define-fun', 'k', [], 'Int', '3'],
    ]
    for call in (['f', 'a', 'b'], ['f', 'b', 'a'], ['f', ['+', 'a', '1'],
                                                     ['f', 'b', 'b']],
                 ['f', ['+', 'b', 'a'], ['-', 'a']], ['f', 'k', 'a'],
                 ['g', ['=', 'a', 'b']], 'k'):
        add('InlineDefinedFuns', Inst(di + defs, call, fi))
    # ... and bodies with binders: names of the actual arguments that are
    # bound inside the body, formal names re-bound inside the body, a
    # defined name re-bound around an occurrence (C17 has no 'bound once')
    defs_b = [
        ['define-fun', 'h', [['x', 'Int']], 'Int',
         ['let', [['b', '1']], ['+', 'x', 'b']]],
        ['define-fun', 'hq', [['x', 'Int']], 'Bool',
         ['forall', [['a', 'Int']], ['=', 'a', 'x']]],
        ['define-fun', 'hs', [['x', 'Int']], 'Int',
         ['+', 'x', ['let', [['x', '2']], ['*', 'x', 'x']]]],
        ['define-fun', 'k', [], 'Int', '3'],
    ]
    for call in (['h', 'b'], ['h', ['+', 'a', 'b']], ['h', 'a'],
                 ['hq', 'a'], ['hq', ['+', 'b', '1']], ['hs', 'a'],
                 ['hs', ['+', 'a', 'b']]):
        add('InlineDefinedFuns', Inst(di + defs_b, call, fi))
    for t in (['let', [['k', ['+', 'a', '1']]], ['*', 'k', '2']],
              ['+', 'k', ['let', [['k', 'b']], 'k']],
              ['exists', [['k', 'Int']], ['=', ['+', 'k', 'a'], '0']]):
        add('InlineDefinedFuns', Inst(di + defs_b, t, fi, anywhere=True))
    # -- let substitution
    for t in (['let', [['x', ['+', 'a', '1']]], ['*', 'x', 'x']],
              ['let', [['x', ['+', 'a', '1']], ['y', 'b']],
               ['+', 'x', ['*', 'y', 'x']]],
              ['let', [['x', 'b'], ['y', 'a']], ['-', 'x', 'y']],
              ['let', [['a2', ['*', 'a', 'a']]], ['let', [['c', 'a2']],
                                                  ['+', 'c', 'a2']]]):
        add('LetSubstitution', Inst(di, t, fi))
    # capture by an inner binder, re-binding of the substituted name
    for t in (['let', [['x', ['+', 'b', '1']]],
               ['let', [['b', '5']], ['+', 'x', 'b']]],
              ['let', [['x', 'a']], ['let', [['x', 'b']], ['*', 'x', '2']]],
              ['let', [['x', ['+', 'a', '1']]],
               ['+', 'x', ['let', [['x', 'b']], 'x']]],
              ['let', [['x', 'b']],
               ['exists', [['b', 'Int']], ['=', ['+', 'x', '1'], 'b']]],
              ['let', [['x', ['+', 'a', '1']], ['y', 'x']],
               ['+', 'x', 'y']],
              # the bound term mentions the very name it is bound to: inside
              # the let that name is the bound one
              ['let', [['x', ['+', 'x', '1']]], ['*', 'x', '2']],
              ['let', [['a', ['+', 'a', '1']]], ['*', 'a', '2']],
              ['let', [['x', ['*', 'x', 'a']], ['y', ['+', 'y', 'x']]],
               ['-', 'x', 'y']]):
        add('LetSubstitution', Inst(di + [['declare-const', 'x', 'Int'],
                                          ['declare-const', 'y', 'Int']], t,
                                    fi + [('x', 'Int'), ('y', 'Int')]))
    # -- selector of constructor
    dt = [['declare-datatype', 'T', [['C', ['s1', 'Int'], ['s2', 'Int']],
                                     ['D']]]]
    for t in (['s1', ['C', 'a', 'b']], ['s2', ['C', 'a', 'b']],
              ['s2', ['C', ['+', 'a', '1'], ['s1', ['C', 'b', 'a']]]]):
        add('RemoveDatatypeIdentity', Inst(di + dt, t, fi))
    return yield_


MUTATORS = {
    'BVNormalizeConstants': mutators_bv.BVNormalizeConstants,
    'BVEvalExtend': mutators_bv.BVEvalExtend,
    'BVExtractConstants': mutators_bv.BVExtractConstants,
    'BVExtractZeroExtend': mutators_bv.BVExtractZeroExtend,
    'BvMergeExtend': mutators_bv.BvMergeExtend,
    'BVDoubleNegation': mutators_bv.BVDoubleNegation,
    'BVReflexiveNand': mutators_bv.BVReflexiveNand,
    'BVIteToBVComp': mutators_bv.BVIteToBVComp,
    'BVElimBVComp': mutators_bv.BVElimBVComp,
    'BoolDoubleNegation': mutators_boolean.BoolDoubleNegation,
    'BoolDeMorgan': mutators_boolean.BoolDeMorgan,
    'BoolEliminateFalseEquality': mutators_boolean.BoolEliminateFalseEquality,
    'BoolXOREliminateBinary': mutators_boolean.BoolXOREliminateBinary,
    'BoolEliminateImplication': mutators_boolean.BoolEliminateImplication,
    'BoolNegateQuantifier': mutators_boolean.BoolNegateQuantifier,
    'ArithmeticNegateRelation': mutators_arithmetic.ArithmeticNegateRelation,
    'InlineDefinedFuns': mutators_smtlib.InlineDefinedFuns,
    'LetSubstitution': mutators_smtlib.LetSubstitution,
    'RemoveDatatypeIdentity': mutators_datatypes.RemoveDatatypeIdentity,
}


def check_merge_reduced_bw(rec, inst):
    """BVMergeReducedBW rewrites a define-fun command; compare the value of
    the defined constant before and after."""
    script = inst.decls
    exprs = [build(x) for x in script]
    smtlib.collect_information(exprs)
    m = mutators_bv.BVMergeReducedBW()
    target = exprs[-1]
    case = {'mutator': 'BVMergeReducedBW',
            'script': ' '.join(sexpr(d) for d in script)}
    try:
        if not m.filter(target):
            return False
        simps = list(m.mutations(target))
    except Exception:  # noqa
        return False
    for simp in simps:
        new = plain(simp.substs[target.id])
        case2 = dict(case)
        case2['replacement'] = sexpr(new)
        rec.case(('BVMergeReducedBW', case['script']), case2)

        def value(cmds, env):
            funs = {d[1]: ([a[0] for a in d[2]], d[4]) for d in cmds
                    if d[0] == 'define-fun'}
            return E.ev('w', E.Ctx(env, funs))

        for vals in itertools.product(*[E.domain(s) for _, s in inst.free]):
            env = dict(zip([n for n, _ in inst.free], vals))
            try:
                v1 = value(script, env)
                v2 = value(script[:-1] + [new], env)
            except E.EvalError as ex:
                rec.violation('C17/native/BVMergeReducedBW/well-sorted',
                              case2, str(ex))
                break
            if v1 != v2:
                rec.violation('C17/native/BVMergeReducedBW/same-value',
                              case2, f'{v1} vs {v2} under {env}')
                break
    return bool(simps)


def check_fp_short_sort(rec):
    m = mutators_fp.FPShortSort()
    want = {(5, 11): 'Float16', (8, 24): 'Float32', (11, 53): 'Float64',
            (15, 113): 'Float128'}
    for e in (2, 5, 8, 11, 15, 16):
        for s in (3, 11, 24, 53, 113, 112):
            n = build(['_', 'FloatingPoint', str(e), str(s)])
            rec.case(('FPShortSort', e, s))
            props = list(m.mutations(n)) if m.filter(n) else []
            got = [plain(p.substs[n.id]) for p in props]
            if got != ([want[(e, s)]] if (e, s) in want else []):
                rec.violation('C17/native/FPShortSort/synonym',
                              {'sort': f'(_ FloatingPoint {e} {s})'},
                              f'proposed {got}')


def main():
    maxw = int(ARGS[0])
    rec = Recorder('C17/native/identities',
                   f'generated well-sorted instances of every listed '
                   f'rewrite: bit-widths 1..{maxw}, all constants in the three '
                   'notations, all index values, all assignments of the '
                   'free symbols (Bool, bit-vectors, Int in -2..3)')
    accepted = {}
    for mname, inst in instances(maxw):
        if mname == 'BVMergeReducedBW@define-fun':
            ok = check_merge_reduced_bw(rec, inst)
            accepted['BVMergeReducedBW'] = accepted.get(
                'BVMergeReducedBW', 0) + ok
            continue
        chk = check_anywhere if inst.anywhere else check_instance
        ok = chk(rec, mname, MUTATORS[mname](), inst)
        accepted[mname] = accepted.get(mname, 0) + ok
    check_fp_short_sort(rec)
    # vacuity: every listed mutator accepted at least one instance
    for mname, n in accepted.items():
        if n == 0:
            rec.violation(f'C17/native/{mname}/vacuous', mname,
                          'no generated instance was accepted by the '
                          'mutator (generator or mutator changed)')
    rec.samples.append({'accepted_instances': accepted})
    rec.finish()


if __name__ == '__main__':
    main()
