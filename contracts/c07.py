"""C07 -- rendering and re-parsing is the identity, in every output mode.

Tier S (this file): the four real renderers are interpreted on every forest
shape up to a bound with *symbolic* leaf texts (any text; a leaf is a comment
iff it starts with ';').  The produced text is a concatenation of literal
pieces and leaf texts; discharged structurally per path:

* every leaf text occurs exactly once, verbatim, in depth-first order;
* everything else is white space or a parenthesis, and the parentheses,
  interleaved with the leaves, spell exactly the flat token sequence of the
  input (nothing split, merged, reordered or swallowed);
* two adjacent leaves are separated by white space, and a comment is
  followed by a newline before the next token.

So for leaves that are lexemes the rendering tokenises to the input's token
sequence, for all leaf contents.  Bounded (harness/parser_native.py): the
same on concrete lexemes through an independent reader, plus re-parsing.
"""
import itertools
import types

import z3

from pyvc import mk, sym
from pyvc.api import Contract, NativeCheck, outcome
from pyvc.interp import ObjVal, PyRaise
from pyvc.sym import SStr, mk_bool
from . import env, nodemodel as nm
from . import c12
from .c06 import GhostFS, FileObj, install_fs

PROPERTY = 'C07'


class StringIOModel:

    def __init__(self):
        self.text = ''

    def write(self, s):
        if not isinstance(s, (str, SStr)):
            raise PyRaise(TypeError('string argument expected'))
        self.text = self.text + s
        return 0

    def getvalue(self):
        return self.text


StringIOModel.__module__ = 'contracts.c07'


def setup(eng):
    eng._fs = {'fs': GhostFS({})}
    eng._ns = env.static_options(eng)
    install_fs(eng, eng._fs)
    nm.install(eng)
    eng.native_modules['io'] = types.SimpleNamespace(StringIO=StringIOModel)


def forest_shapes(maxn):
    from .c11 import forest_shapes as fs
    return [f for f in fs(maxn, 2) if f]


def build(eng, p, shape, tag, leaves, top=True):
    cls = nm.node_class(eng)
    o = ObjVal(cls)
    o.tag = {'name': tag}
    o.attrs['id'] = sym.SNum(p.fresh_int('id_' + tag))
    o.attrs['hash'] = 0
    if shape is None:
        t = p.fresh_str('txt_' + tag)
        # leaves obtainable from the parser are never empty
        p.assume(z3.Length(t) > 0)
        if not top:
            # a comment inside a list ends with its line break (the parser
            # keeps it; only a comment that ends the input may lack it)
            p.assume(z3.Implies(z3.PrefixOf(z3.StringVal(';'), t),
                                z3.SuffixOf(z3.StringVal('\n'), t)))
        o.attrs['data'] = sym.mk_str([('v', t)])
        o.tag['top'] = top
        leaves.append(o)
    else:
        o.attrs['data'] = tuple(build(eng, p, s, f'{tag}_{i}', leaves, False)
                                for i, s in enumerate(shape))
    return o


def flat_marks(node, out):
    d = node.attrs['data']
    if isinstance(d, (str, SStr)):
        out.append(node)
    else:
        out.append('(')
        for c in d:
            flat_marks(c, out)
        out.append(')')
    return out


def check_rendering(eng, p, N, text, forest, leaves):
    """The structural obligations on the rendered text."""
    parts = list(text.parts) if isinstance(text, SStr) else (
        [('c', text)] if text else [])
    # project: leaf markers, parentheses; everything else must be blank
    leaf_of = {str(l.attrs['data'].parts[0][1]): l for l in leaves}
    seq = []
    gaps = ['']
    ok_blank = True
    for k, v in parts:
        if k == 'v' and str(v) in leaf_of:
            seq.append(leaf_of[str(v)])
            gaps.append('')
        elif k == 'c':
            gaps[-1] += v
            for ch in v:
                if ch in '()':
                    seq.append(ch)
                elif ch not in ' \n':
                    ok_blank = False
        else:
            ok_blank = False
    want = []
    for t in forest:
        flat_marks(t, want)
    p.oblige(f'{N}/only-blanks-and-parentheses-besides-leaf-texts', ok_blank,
             info=repr(text)[:300])
    same = len(seq) == len(want) and all(
        (a is b) if isinstance(b, ObjVal) else a == b
        for a, b in zip(seq, want))
    p.oblige(f'{N}/tokens-in-order-each-exactly-once', same,
             info={'rendering': repr(text)[:300], 'signature':
                   'a token is missing, duplicated, reordered or the '
                   'parentheses do not match the input'})
    if not same:
        return
    # separation: between two leaves that are adjacent in the token sequence
    # there is white space; after a comment a newline comes first
    leaf_positions = [i for i, x in enumerate(seq) if isinstance(x, ObjVal)]
    sep_ok = True
    nl_ok = True
    g = 1
    for idx, i in enumerate(leaf_positions):
        gap_after = gaps[idx + 1]
        leaf = seq[i]
        is_comment = eng.truth(leaf.attrs['data'].startswith(';'))
        if is_comment and leaf.tag.get('top') and gap_after and \
                not gap_after.startswith('\n'):
            # a top-level comment may lack its line break: it must be
            # terminated before anything else follows
            nl_ok = False
        nxt = seq[i + 1] if i + 1 < len(seq) else None
        if isinstance(nxt, ObjVal) and not any(ch in ' \n'
                                               for ch in gap_after):
            sep_ok = False
    p.oblige(f'{N}/adjacent-tokens-are-separated', sep_ok,
             info={'rendering': repr(text)[:300], 'signature':
                   'two tokens are written without white space between '
                   'them'})
    p.oblige(f'{N}/comment-is-terminated-by-a-newline', nl_ok,
             info={'rendering': repr(text)[:300], 'signature':
                   'a comment swallows the tokens that follow it'})


def make_run(mode, shapes_):

    def run(eng, p):
        eng._ns.pretty_print = mode == 'pretty'
        eng._ns.wrap_lines = mode == 'wrap'
        # the wrapping renderer uses token lengths / newline positions only
        # for its column bookkeeping: arbitrary integers (over-approximation)
        sym.ABSTRACT_METRICS[0] = mode == 'wrap'
        nodeio = eng.load_module('ddsmt.nodeio')
        leaves = []
        forest = [build(eng, p, s, f't{i}', leaves)
                  for i, s in enumerate(shapes_)]
        N = f'C07/render[{mode}]'
        if mode == 'checking':
            fs = GhostFS({})
            eng._fs['fs'] = fs
            o = outcome(eng, nodeio.g['write_smtlib_for_checking'],
                        ['/tmp/cand.smt2', forest])
            text = fs.files.get('/tmp/cand.smt2', '')
        else:
            o = outcome(eng, nodeio.g['write_smtlib_to_str'], [forest])
            text = o.value if o.kind == 'return' else ''
        p.oblige(f'{N}/raises-nothing', o.kind == 'return', info=repr(o))
        if o.kind != 'return':
            return
        check_rendering(eng, p, N, text, forest, leaves)

    return run


def contracts(tier):
    from . import writers, c08
    maxn = 4 if tier == 'thorough' else 3
    shapes_ = forest_shapes(maxn)
    # the scanner's step contract carries C07's precondition on what the
    # renderers are given: a comment leaf ends with a line break
    cs = list(writers.contracts(tier)) + list(c08.scanner_contracts(tier))
    cs.append(Contract(
        'C07/lemma/reread', [], run_reread_lemmas,
        assumptions=['lemmas over the specification of the reader step '
                     '(C08) only; induction over the positions of a string '
                     'literal stated as base / step / conclusion; the fold '
                     'over the pieces of a rendering is not machine-checked']))
    for mode in ('default', 'pretty', 'wrap', 'checking'):

        def run(eng, p, mode=mode):
            k = p.choose(len(shapes_), 'shape')
            make_run(mode, shapes_[k])(eng, p)

        cs.append(Contract(
            f'C07/render[{mode}]',
            ['ddsmt.nodeio.write_smtlib', 'ddsmt.nodeio.__write_smtlib',
             'ddsmt.nodeio.__write_smtlib_pretty',
             'ddsmt.nodeio.__write_smtlib_wrapped',
             'ddsmt.nodeio.write_smtlib_for_checking'],
            run, setup=setup, tier='S', max_paths=200000,
            bound=f'forests of <= 2 trees with <= {maxn} nodes; leaf texts '
            'symbolic (any non-empty text; comment iff it starts with ";")',
            assumptions=['io.StringIO / file objects modelled as string '
                         'accumulators; leaves of parser output are never '
                         'empty; in the wrapping renderer len()/rfind() of a '
                         'token are arbitrary integers (over-approximation '
                         'of the column bookkeeping)']))
    return cs


def native_checks(tier):
    n = 6 if tier == 'thorough' else 5
    return [
        NativeCheck('C07/native/render',
                    ['ddsmt.nodeio.write_smtlib',
                     'ddsmt.nodeio.write_smtlib_for_checking',
                     'ddsmt.nodeio.__write_smtlib',
                     'ddsmt.nodeio.__write_smtlib_pretty',
                     'ddsmt.nodeio.__write_smtlib_wrapped',
                     'ddsmt.nodeio.parse_smtlib'],
                    'harness/parser_native.py', ['render', n],
                    bound=f'forests of <= 2 trees, <= {n} nodes, 15 leaf '
                    'lexemes (long token, hyphens, literals with space / '
                    '"" / ( / ;, quoted symbols with space / newline, '
                    'comment, #b, keyword) + 8 wide inputs forcing wraps',
                    timeout=3000),
    ]


# ---------------------------------------------------------------------------
# Re-reading a rendering: the step of the reader (as specified and proved for
# the real scanner in C08) is *determined* by the piece that starts at the
# current position.  If the text continues with a piece [a, b) that is a
# token / comment / quoted symbol / string literal of the shape the renderers
# emit (a leaf text followed by white space, a parenthesis or the end), then
# every [a, hi) that satisfies the step's postcondition has hi == b.  With the
# renderer contracts (the pieces written are the tokens of the input, atoms
# separated) the reader therefore re-reads the same token sequence; the fold
# over the pieces is the scanner's loop.  Pure lemmas over the specification
# (no code involved); the string-literal case needs an induction over the
# positions, given as base / step / conclusion.


def run_reread_lemmas(eng, p):
    T = z3.Array('T', z3.IntSort(), z3.IntSort())
    a, b, hi, size, k = z3.Ints('a b hi size k')
    i = z3.Int('i!l')
    WS = [32, 9, 10, 13]
    DEL = WS + [40, 41, 59]
    NL = [10, 13]
    BAR, Q = 124, 34

    def isin(c, cs):
        return z3.Or([c == x for x in cs])

    def fa(lo, h, pred):
        return z3.ForAll([i], z3.Implies(z3.And(lo <= i, i < h), pred(i)))

    N = 'C07/lemma/reread'
    # token
    def tok(e):
        return z3.And(a < e, e <= size,
                      fa(a, e, lambda j: z3.Not(isin(T[j], DEL))),
                      z3.Or(e == size, isin(T[e], DEL)))

    p.oblige(f'{N}/token-piece-determines-the-step',
             mk_bool(z3.Implies(z3.And(tok(b), tok(hi)), hi == b)))

    def com(e):
        return z3.And(a < e, e <= size,
                      fa(a + 1, e - 1, lambda j: z3.Not(isin(T[j], NL))),
                      z3.Or(z3.And(isin(T[e - 1], NL), e - 1 > a),
                            e == size))

    p.oblige(f'{N}/comment-piece-determines-the-step',
             mk_bool(z3.Implies(z3.And(com(b), com(hi)), hi == b)))

    def qsym(e):
        return z3.And(e - 1 > a, e <= size, T[a] == BAR, T[e - 1] == BAR,
                      fa(a + 1, e - 1, lambda j: T[j] != BAR))

    p.oblige(f'{N}/quoted-symbol-piece-determines-the-step',
             mk_bool(z3.Implies(z3.And(qsym(b), qsym(hi)), hi == b)))
    # string literal: two readings (closing quote at e1 resp. e2, pairing
    # arrays P1, P2) agree.  Induction on k: the pairings agree below k.
    P1 = z3.Array('P1', z3.IntSort(), z3.IntSort())
    P2 = z3.Array('P2', z3.IntSort(), z3.IntSort())
    e1, e2 = z3.Ints('e1 e2')

    def tiled(P, end):
        return fa(a + 1, end, lambda j: z3.Implies(T[j] == Q, z3.Or(
            z3.And(P[j] == 1, j + 1 < end, T[j + 1] == Q, P[j + 1] == 2),
            z3.And(P[j] == 2, j - 1 > a, T[j - 1] == Q, P[j - 1] == 1))))

    def reading(P, e):
        return z3.And(e > a, e < size, T[a] == Q, T[e] == Q,
                      z3.Or(e + 1 == size, T[e + 1] != Q), tiled(P, e))

    def agree(n):
        return fa(a + 1, n, lambda j: z3.Implies(T[j] == Q, P1[j] == P2[j]))

    both = z3.And(reading(P1, e1), reading(P2, e2), e1 < e2)
    p.oblige(f'{N}/string-literal/induction-base', mk_bool(agree(a + 1)))
    p.oblige(f'{N}/string-literal/induction-step', mk_bool(z3.Implies(
        z3.And(both, a + 1 <= k, k < e1, agree(k)), agree(k + 1))))
    p.oblige(f'{N}/string-literal/two-readings-are-impossible',
             mk_bool(z3.Implies(z3.And(both, agree(e1)), z3.BoolVal(False))))
