"""C10 -- runs exceeding the time or memory limit are rejected, never stall.

Proved here is the *wiring* (what ddSMT asks of the OS and what it does with
the answer); that the kernel enforces rlimits, that kill() ends the child and
that communicate(timeout) returns in time are assumptions (env.py).
"""
import z3

from pyvc import mk, sym
from pyvc.api import Contract, outcome
from pyvc.sym import SBool, SNum, SStr, SOpt, mk_bool, force
from . import env
from .env import as_opt, opt_eq, zb
from .c09 import sym_record, spec_matches, setup as c09_setup

PROPERTY = 'C10'


def make_run_execute(with_prlimit):
    tag = 'prlimit' if with_prlimit else 'setrlimit'

    def run(eng, p):
        chk = eng.load_module('ddsmt.checker')
        ns = env.symbolic_options(p)
        eng._ns = ns
        p.assume(z3.Not(zb(ns.unchecked)))
        p.assume(z3.Or(ns.memout.is_none, ns.memout.val.z >= 0))
        cmd = [mk.sstr(p, 'a0')]
        fname = mk.sstr(p, 'filename')
        tmo = mk.opt_real(p, 'tmo')
        p.assume(z3.Or(tmo.is_none, tmo.val.z > 0))
        out = outcome(eng, chk.g['execute'], [cmd, fname, tmo])
        N = f'C10/execute[{tag}]'
        p.oblige(f'{N}/raises-nothing', out.kind == 'return', info=repr(out))
        if out.kind != 'return':
            return
        ev = p.ghost.get('events', [])
        procs = p.ghost.get('procs', [])
        limits = p.ghost.get('limits', [])
        p.oblige(f'{N}/one-process', len(procs) == 1)
        if len(procs) != 1:
            return
        pr = procs[0]
        # wall-clock limit is handed to communicate()
        p.oblige(f'{N}/communicate-gets-timeout',
                 pr.communicated[:1] == [tmo])
        timed_out = ('timeout', 0) in ev
        if timed_out:
            i = ev.index(('timeout', 0))
            after = ev[i + 1:]
            p.oblige(f'{N}/killed-after-timeout', ('kill', 0) in after)
            # after the time limit has expired nothing may wait for the
            # child without a limit -- not even after kill(): a wrapper
            # script's grandchildren can keep the pipes open
            p.oblige(f'{N}/no-blocking-call-after-timeout',
                     not any(e[0] == 'blocking-wait' for e in after) and
                     not any(e[0] in ('communicate', 'wait') and
                             (len(e) < 3 or e[2] is None) for e in after),
                     info={'events': repr(after), 'signature':
                           'unbounded wait for the child after the time '
                           'limit expired'})
            r = out.value
            p.oblige(f'{N}/timeout-record-has-no-output',
                     r.out is None and r.err is None)
        else:
            p.oblige(f'{N}/no-kill-without-timeout', ('kill', 0) not in ev)
        # resource limits on the child
        target = pr.pid if with_prlimit else ('child', 0)
        as_lims = [x for x in limits if x[1] == 'RLIMIT_AS']
        cpu_lims = [x for x in limits if x[1] == 'RLIMIT_CPU']
        has_mem = eng.truth_sym(ns.memout)
        if as_lims:
            who, _, lim = as_lims[0]
            p.oblige(f'{N}/memout-applied-iff-set', zb(has_mem))
            p.oblige(f'{N}/memout-on-child', len(as_lims) == 1 and (
                who is target or who == target))
            mz = as_opt(ns.memout, 'int')[1]
            soft = lim[0]
            p.oblige(f'{N}/memout-bytes',
                     isinstance(soft, (SNum, int)) and
                     mk_bool(sym._znum(soft) == mz * 1024 * 1024))
        else:
            p.oblige(f'{N}/memout-applied-iff-set', z3.Not(zb(has_mem)))
        has_t = eng.truth_sym(tmo)
        if cpu_lims:
            who, _, lim = cpu_lims[0]
            p.oblige(f'{N}/cpu-limit-iff-timeout', zb(has_t))
            p.oblige(f'{N}/cpu-limit-on-child', len(cpu_lims) == 1 and (
                who is target or who == target))
            tz = as_opt(tmo, 'real')[1]
            soft, hard = lim
            sz = sym._znum(soft)
            p.oblige(f'{N}/cpu-limit-is-ceil-timeout',
                     z3.And(z3.ToReal(sz) >= tz, z3.ToReal(sz) - 1 < tz,
                            sym._znum(hard) == sz))
        else:
            p.oblige(f'{N}/cpu-limit-iff-timeout', z3.Not(zb(has_t)))

    return run


def run_timeout_rejected(eng, p):
    """A timed-out candidate does not match a golden run that finished."""
    chk = eng.load_module('ddsmt.checker')
    RunInfo = chk.g['RunInfo']
    g = RunInfo(mk.sint(p, 'gexit'), mk.sstr(p, 'gout'), mk.sstr(p, 'gerr'),
                mk.sreal(p, 'grt'))
    r = RunInfo(None, None, None, mk.sreal(p, 'limit'))
    io, ie = mk.sbool(p, 'ignore_out'), mk.sbool(p, 'ignore_err')
    mo, me = mk.opt_str(p, 'match_out'), mk.opt_str(p, 'match_err')
    out = outcome(eng, chk.g['matches_golden'], [g, r, io, ie, mo, me])
    p.oblige('C10/matches_golden/timeout-raises-nothing',
             out.kind == 'return', info=repr(out))
    if out.kind == 'return':
        p.oblige('C10/matches_golden/timeout-rejected',
                 sym.s_not(eng.truth_sym(out.value)))
    # a candidate killed by a signal has a negative exit status: rejected
    # when the golden run exited differently (any streams, any options)
    r2 = RunInfo(mk.sint(p, 'rexit'), mk.sstr(p, 'rout'), mk.sstr(p, 'rerr'),
                 mk.sreal(p, 'rrt'))
    p.assume(r2.exit.z != g.exit.z)
    out2 = outcome(eng, chk.g['matches_golden'], [g, r2, io, ie, mo, me])
    p.oblige('C10/matches_golden/other-exit-raises-nothing',
             out2.kind == 'return', info=repr(out2))
    if out2.kind == 'return':
        p.oblige('C10/matches_golden/other-exit-rejected',
                 sym.s_not(eng.truth_sym(out2.value)))


def run_golden(eng, p):
    chk = eng.load_module('ddsmt.checker')
    RunInfo = chk.g['RunInfo']
    ns = env.symbolic_options(p)
    eng._ns = ns
    chk.g['__GOLDEN'] = None
    chk.g['__GOLDEN_CC'] = None
    calls = []

    def execute_stub(e, cmd, filename, timeout):
        r = sym_record(p, RunInfo, f'g{len(calls)}')
        p.assume(r.runtime.z >= 0)
        calls.append((cmd, filename, timeout, r))
        return r

    eng.overrides['ddsmt.checker.execute'] = execute_stub
    t_before = ns.timeout
    tcc_before = ns.timeout_cc
    out = outcome(eng, chk.g['do_golden_runs'], [])
    N = 'C10/do_golden_runs'
    exited = out.kind == 'raise' and isinstance(out.value, SystemExit)
    p.oblige(f'{N}/raises-only-SystemExit', out.kind == 'return' or exited,
             info=repr(out))
    if out.kind == 'raise' and not exited:
        return
    g0 = calls[0][3]

    def lacks(match, stream):
        m_none, m = as_opt(match)
        s_none, s = as_opt(stream)
        return z3.And(z3.Not(m_none), z3.Length(m) > 0,
                      z3.Or(s_none, z3.Not(z3.Contains(s, m))))

    # C10: "a golden run whose output lacks a configured match string stops
    # ddSMT with status 1" - every golden run, so the cross-check run with
    # its own strings as well as the main one.  Stated from the property,
    # not from the branches the code happens to have.
    bad_main = z3.Or(lacks(ns.match_out, g0.out),
                     lacks(ns.match_err, g0.err))
    if len(calls) > 1:
        g1c = calls[1][3]
        bad_cc = z3.Or(lacks(ns.match_out_cc, g1c.out),
                       lacks(ns.match_err_cc, g1c.err))
    else:
        bad_cc = z3.BoolVal(False)
    bad = z3.Or(bad_main, bad_cc)
    if exited:
        p.oblige(f'{N}/exit-status-1', out.value.code == 1)
        p.oblige(f'{N}/exit-only-if-match-string-absent', bad)
        return
    p.oblige(f'{N}/absent-match-string-stops', z3.Not(bad_main))
    p.oblige(f'{N}/absent-cc-match-string-stops', z3.Not(bad_cc))
    p.oblige(f'{N}/golden-run-on-input-file',
             calls[0][0] is ns.cmd and calls[0][1] is ns.infile and
             calls[0][2] is t_before)
    p.oblige(f'{N}/golden-recorded', chk.g['__GOLDEN'] is g0)
    # default time limit: 1.5 x (golden run time + 1 s), two decimals
    tn, tv = as_opt(t_before, 'real')
    an, av = as_opt(ns.timeout, 'real')
    want = (g0.runtime.z + 1) * z3.RealVal('1.5')
    p.oblige(f'{N}/default-timeout',
             z3.If(tn, z3.And(z3.Not(an), av - want <= z3.RealVal('0.005'),
                              want - av <= z3.RealVal('0.005')),
                   z3.And(z3.Not(an), av == tv)))
    has_cc = zb(eng.truth_sym(ns.cmd_cc))
    if len(calls) == 1:
        p.oblige(f'{N}/cc-golden-iff-configured', z3.Not(has_cc))
    else:
        p.oblige(f'{N}/cc-golden-iff-configured', has_cc)
        g1 = calls[1][3]
        p.oblige(f'{N}/cc-golden-run',
                 len(calls) == 2 and calls[1][0] is ns.cmd_cc and
                 calls[1][1] is ns.infile and calls[1][2] is tcc_before and
                 chk.g['__GOLDEN_CC'] is g1)
        tn, tv = as_opt(tcc_before, 'real')
        an, av = as_opt(ns.timeout_cc, 'real')
        want = (g1.runtime.z + 1) * z3.RealVal('1.5')
        p.oblige(f'{N}/default-timeout-cc',
                 z3.If(tn, z3.And(z3.Not(an),
                                  av - want <= z3.RealVal('0.005'),
                                  want - av <= z3.RealVal('0.005')),
                       z3.And(z3.Not(an), av == tv)))


def replay_golden(name, model, detail):
    """The real do_golden_runs() with execute() returning the records of the
    counter-model; fails when the outcome disagrees with the property: exit
    status 1 iff some configured match string (main or cross-check) is
    absent from its golden run, and nothing else raised."""
    def opt(tag, kind):
        if model.get(f'{tag}_is_none', False):
            return None
        return model.get(tag, '' if kind == 'str' else 0)

    def rec(tag):
        to = bool(model.get(f'{tag}_timed_out', False))
        return [opt(f'{tag}_exit', 'int'),
                None if to else model.get(f'{tag}_out', ''),
                None if to else model.get(f'{tag}_err', ''), 0.0]

    A = {
        'opts': {
            'cmd': ['cmd'], 'infile': 'in.smt2',
            'cmd_cc': None if model.get('cmd_cc_is_none', False) else ['cc'],
            'timeout': None if model.get('timeout_is_none', False) else 1.0,
            'timeout_cc': None if model.get('timeout_cc_is_none', False)
            else 2.0,
            'ignore_output': bool(model.get('ignore_output', False)),
            'ignore_out': bool(model.get('ignore_out', False)),
            'ignore_err': bool(model.get('ignore_err', False)),
            'match_out': opt('match_out', 'str'),
            'match_err': opt('match_err', 'str'),
            'match_out_cc': opt('match_out_cc', 'str'),
            'match_err_cc': opt('match_err_cc', 'str'),
        },
        'g0': rec('g0'), 'g1': rec('g1'),
    }
    script = f'''
import sys, types
sys.argv = ['ddsmt', 'in.smt2', 'out.smt2', 'cmd']
from ddsmt import checker, options
A = {A!r}
ns = types.SimpleNamespace(**A['opts'])
setattr(options, '__PARSED_ARGS', ns)
R = checker.RunInfo
calls = []
def fake_execute(cmd, filename, timeout):
    calls.append(list(cmd))
    return R(*A['g0']) if cmd == ['cmd'] else R(*A['g1'])
checker.execute = fake_execute
def lacks(m, s):
    return bool(m) and (s is None or m not in s)
o = A['opts']
want = lacks(o['match_out'], A['g0'][1]) or lacks(o['match_err'], A['g0'][2])
if not want and o['cmd_cc']:
    want = (lacks(o['match_out_cc'], A['g1'][1]) or
            lacks(o['match_err_cc'], A['g1'][2]))
try:
    checker.do_golden_runs(); got = None
except SystemExit as e:
    got = e.code
except Exception as e:
    print('do_golden_runs raised', type(e).__name__, e, 'on', A); sys.exit(1)
print('input', A, 'golden runs', calls, 'exit status', got,
      '; property: status 1 iff a configured match string is absent:', want)
sys.exit(1 if (got == 1) != want or got not in (None, 1) else 0)
'''
    return {'script': script, 'input': A}


def contracts(tier):
    A = [env.ASSUME_OPTIONS, env.ASSUME_SUBPROCESS, env.ASSUME_RESOURCE,
         env.ASSUME_TIME,
         'kernel enforcement of RLIMIT_CPU/RLIMIT_AS, delivery of SIGKILL, '
         'reaping of the killed child and real elapsed time are outside the '
         'reach of contracts (DESIGN.md section 4)']
    return [
        Contract('C10/execute[prlimit]', ['ddsmt.checker.execute',
                                          'ddsmt.checker.limit_resources'],
                 make_run_execute(True), setup=c09_setup, assumptions=A),
        Contract('C10/execute[setrlimit]', ['ddsmt.checker.execute',
                                            'ddsmt.checker.limit_resources'],
                 make_run_execute(False),
                 setup=lambda e: c09_setup(e, False), assumptions=A),
        Contract('C10/matches_golden', ['ddsmt.checker.matches_golden'],
                 run_timeout_rejected, setup=c09_setup, assumptions=A[:1]),
        Contract('C10/do_golden_runs', ['ddsmt.checker.do_golden_runs'],
                 run_golden, setup=c09_setup, replay=replay_golden,
                 assumptions=A[:1] + [
                     'execute() abstracted: returns an arbitrary record with '
                     'runtime >= 0; round(x, 2) is within 0.005 of x; floats '
                     'are treated as reals'
                 ]),
    ]
