"""C13 -- the working input is a tree: node identities pairwise distinct.

reduplicate: bounded native run-time contract on DAGs (every way of sharing
structurally equal positions).  Call-site obligations (every list handed to
Producer / TaskGenerator is the parser's result or a reduplicate() result)
are part of the strategy contracts, see contracts/strategies.py.
"""
import z3

from pyvc.api import Contract, NativeCheck

PROPERTY = 'C13'


def contracts(tier):
    from . import strategies, rebuild
    return strategies.all_contracts(tier) + reduplicate_contracts(tier) + \
        rebuild.reduplicate_contracts(tier)


def native_checks(tier):
    t = tier == 'thorough'
    return [
        NativeCheck('C13/native/reduplicate', ['ddsmt.nodes.reduplicate'],
                    'harness/nodes_native.py', ['reduplicate', 7 if t else 6],
                    bound=f'forests <= {7 if t else 6} nodes (<= 3 trees), '
                    'one class of structurally equal positions shared'),
        NativeCheck('C13/native/orchestration',
                    ['ddsmt.strategy_ddmin._apply_mutator',
                     'ddsmt.strategy_hierarchical.reduce'],
                    'harness/orch.py', ['all', 10 if not t else 40],
                    bound='ids of every input handed to Producer / '
                    'TaskGenerator in scripted runs'),
    ]


# ---------------------------------------------------------------------------
# nodes.reduplicate, tier S: DAGs of concrete shape, symbolic ids / texts

import itertools  # noqa: E402

from pyvc import sym  # noqa: E402
from pyvc.api import outcome  # noqa: E402
from pyvc.interp import ObjVal  # noqa: E402
from pyvc.sym import SStr, mk_bool  # noqa: E402


def _positions(shape, path=()):
    yield path, shape
    if shape is not None:
        for i, c in enumerate(shape):
            yield from _positions(c, path + (i, ))


def dag_configs(maxn):
    """(forest shapes, tuple of positions that hold one object)"""
    from . import c11
    out = []
    for sh in c11.forest_shapes(maxn, 3):
        pos = [((t, ) + p, s) for t, tree in enumerate(sh)
               for p, s in _positions(tree)]
        out.append((sh, ()))
        for (p1, s1), (p2, s2) in itertools.combinations(pos, 2):
            if repr(s1) != repr(s2):
                continue
            if p1 == p2[:len(p1)] or p2 == p1[:len(p2)]:
                continue  # nested positions cannot hold one object
            out.append((sh, (p1, p2)))
    return out


def make_run_redup(shapes_, share):
    from . import c12, nodemodel as nm

    def run(eng, p):
        nodes_mod = eng.load_module('ddsmt.nodes')
        cls = nm.node_class(eng)
        objs = []  # distinct objects
        shared = {}

        def build(shape, path):
            if share and path == share[1]:
                return shared['obj']
            o = ObjVal(cls)
            o.tag = {'name': 'p' + '_'.join(map(str, path))}
            idv = p.fresh_int('id_' + o.tag['name'])
            p.assume(idv >= nm.LAZY_ID_BASE)
            o.attrs['id'] = sym.SNum(idv)
            if shape is None:
                t = p.fresh_str('txt_' + o.tag['name'])
                o.attrs['data'] = sym.mk_str([('v', t)])
                o.attrs['hash'] = sym.SNum(eng.STRHASH(t))
            else:
                kids = [build(s, path + (i, )) for i, s in enumerate(shape)]
                o.attrs['data'] = tuple(kids)
                o.attrs['hash'] = sym.SNum(0)
            objs.append(o)
            if share and path == share[0]:
                shared['obj'] = o
            return o

        forest = [build(s, (i, )) for i, s in enumerate(shapes_)]
        for a, b in itertools.combinations(objs, 2):
            p.assume(a.attrs['id'].z != b.attrs['id'].z)
        snapshot = [(o, o.attrs['data'], o.attrs['id']) for o in objs]
        out = outcome(eng, nodes_mod.g['reduplicate'], [forest])
        N = 'C13/reduplicate'
        p.oblige(f'{N}/raises-nothing', out.kind == 'return', info=repr(out))
        if out.kind != 'return':
            return
        res = out.value
        p.oblige(f'{N}/argument-not-modified',
                 all(o.attrs['data'] is d and o.attrs['id'] is i
                     for o, d, i in snapshot) and len(forest) == len(shapes_))
        # positions of the result
        rpos = []

        def walk(n, orig):
            rpos.append((n, orig))
            d = n.attrs['data']
            if not isinstance(d, (str, SStr)):
                od = orig.attrs['data']
                if isinstance(od, (str, SStr)) or len(od) != len(d):
                    raise ValueError('shape')
                for c, oc in zip(d, od):
                    walk(c, oc)

        ok_shape = isinstance(res, list) and len(res) == len(forest)
        if ok_shape:
            try:
                for n, o in zip(res, forest):
                    walk(n, o)
            except (ValueError, AttributeError):
                ok_shape = False
        p.oblige(f'{N}/same-shape', ok_shape)
        if not ok_shape:
            return
        same_tokens = True
        for n, o in rpos:
            d, od = n.attrs['data'], o.attrs['data']
            if isinstance(d, (str, SStr)) != isinstance(od, (str, SStr)):
                same_tokens = False
            elif isinstance(d, (str, SStr)) and d is not od and \
                    not eng.truth(d == od):
                same_tokens = False
        p.oblige(f'{N}/same-tokens', same_tokens,
                 info={'signature': 'reduplicate changed a token'})
        distinct = all(a is not b for (a, _), (b, _) in
                       itertools.combinations(rpos, 2))
        p.oblige(f'{N}/positions-hold-pairwise-distinct-nodes', distinct,
                 info={'shapes': repr(shapes_), 'shared': repr(share),
                       'signature': 'one node (one id) at two positions '
                       'after reduplicate'})
        if distinct:
            idz = [sym._znum(n.attrs['id']) for n, _ in rpos]
            p.oblige(f'{N}/ids-pairwise-distinct',
                     z3.And(*[a != b for a, b in
                              itertools.combinations(idz, 2)])
                     if len(idz) > 1 else True)
        # nodes that occur at one position only (and all of whose
        # descendants do) stay the objects they were
        occ = {}

        def count(o):
            occ[id(o)] = occ.get(id(o), 0) + 1
            d = o.attrs['data']
            if not isinstance(d, (str, SStr)):
                for c in d:
                    count(c)

        for o in forest:
            count(o)

        def has_shared(o):
            if occ[id(o)] > 1:
                return True
            d = o.attrs['data']
            return (not isinstance(d, (str, SStr))) and any(
                has_shared(c) for c in d)

        p.oblige(f'{N}/unique-nodes-keep-their-identity',
                 all(n is o for n, o in rpos if not has_shared(o)),
                 info={'signature': 'a node that was already unique was '
                       're-created'})

    return run


def reduplicate_contracts(tier):
    import z3 as _z3  # noqa
    from . import c12
    maxn = 4 if tier == 'thorough' else 3
    configs = dag_configs(maxn)
    nchunks = 8
    cs = []
    for c in range(nchunks):
        chunk = configs[c::nchunks]
        if not chunk:
            continue

        def run(eng, p, chunk=chunk):
            k = p.choose(len(chunk), 'config')
            make_run_redup(*chunk[k])(eng, p)

        cs.append(Contract(
            f'C13/reduplicate[configs {c}]', ['ddsmt.nodes.reduplicate'],
            run, setup=c12.setup, tier='S', max_paths=200000,
            bound=f'forests of <= 3 trees with <= {maxn} nodes; any pair of '
            'non-nested positions of equal shape holding one object; ids and '
            'leaf texts symbolic'))
    return cs
