"""C16 -- inferred sorts and bit-widths are never wrong.

Spec: a typing table written from the SMT-LIB theory definitions (Core, Ints,
Reals, FixedSizeBitVectors, FloatingPoint, Strings, ArraysEx).  For every
operator schema a schematic term ``(op c1 .. cn)`` / ``((_ op i..) c..)`` is
built whose operands are *opaque* well-sorted terms (lazy symbolic nodes with
a declared sort; widths and indices are symbolic integers).  The real
``_get_sort_aux`` / ``get_bv_width`` run on it; their recursive calls on the
operands are answered by the contract itself (result unknown, or the true
sort / width -- both explored): structural induction over terms.  Post:
the result is unknown or the sort / width the table prescribes.
"""
import z3

from pyvc import mk, sym
from pyvc.api import Contract, NativeCheck, outcome
from pyvc.interp import ObjVal, PyRaise, SymDict, SymSet
from pyvc.sym import SBool, SNum, SStr, SOpt, mk_bool, force, cur
from . import env, nodemodel as nm

PROPERTY = 'C16'


# ---------------------------------------------------------------------------
# sorts of the schema language


class Ctx:

    def __init__(self, eng, p):
        self.eng, self.p = eng, p
        self.indices = []
        self.k = 0

    def fresh_pos(self, name, lo=1):
        v = self.p.fresh_int(name)
        self.p.assume(v >= lo)
        return SNum(v)

    def require(self, *conds):
        for b in conds:
            self.p.assume(sym.zbool(b))

    def product(self, a, b):
        # a * b is nonlinear: name it
        w = self.fresh_pos('prod')
        self.p.assume(w.z == a.z * b.z)
        return w

    def leaf(self, text):
        return nm.mk_leaf(self.eng, text)

    def bvtext(self, v):
        return sym.mk_str([('c', 'bv'), ('n', v.z)])

    def declare(self, name, sort):
        x = nm.mk_leaf(self.eng, name)
        self.declared = (x, self.sort_node(sort))
        return x

    def numeral(self, v):
        """leaf holding the canonical decimal of v (an index position)"""
        leaf = nm.mk_leaf(self.eng, sym.to_str(v) if isinstance(v, SNum)
                          else str(v))
        self.indices.append(leaf)
        return leaf

    def node(self, *kids):
        return nm.mk_node(self.eng, *kids)

    # sorts
    def Bool(self):
        return ('Bool', )

    def Int(self):
        return ('Int', )

    def Real(self):
        return ('Real', )

    def String(self):
        return ('String', )

    def RM(self):
        return ('RoundingMode', )

    def RegLan(self):
        return ('RegLan', )

    def BV(self, w):
        return ('BV', w)

    def FP(self, e, s):
        return ('FP', e, s)

    def Array(self, i, e):
        return ('Array', i, e)

    def Alpha(self, name):
        # an uninterpreted sort: a symbol
        n = nm.lazy_node(self.eng, self.p, name)
        self.p.assume(nm.Struct.is_leaf(nm.S(n)))
        return ('alpha', n)

    def sort_node(self, s):
        """the Node that denotes sort s in an SMT-LIB script"""
        k = s[0]
        if k in ('Bool', 'Int', 'Real', 'String', 'RoundingMode', 'RegLan'):
            return nm.mk_leaf(self.eng, k)
        if k == 'BV':
            return self.node('_', 'BitVec', self.plain_numeral(s[1]))
        if k == 'FP':
            return self.node('_', 'FloatingPoint', self.plain_numeral(s[1]),
                             self.plain_numeral(s[2]))
        if k == 'Array':
            return self.node('Array', self.sort_node(s[1]),
                             self.sort_node(s[2]))
        if k == 'alpha':
            return s[1]
        raise ValueError(s)

    def plain_numeral(self, v):
        return nm.mk_leaf(self.eng, sym.to_str(v) if isinstance(v, SNum)
                          else str(v))

    def operand(self, sort, name=None):
        """an arbitrary well-sorted term of the given sort"""
        self.k += 1
        n = nm.lazy_node(self.eng, self.p, name or f'arg{self.k}')
        n.tag['true_sort'] = sort
        n.tag['sort_node'] = self.sort_node(sort)
        return n


from .typing_table import table, leaf_table, width_of  # noqa: E402


# ---------------------------------------------------------------------------


def setup(eng):
    env.static_options(eng)
    nm.install(eng)
    nm.use_eq_contract(eng)


def install_tables(eng, c, root):
    """Symbol tables as collect_information leaves them for this term: the
    declared symbol (if any) maps to its sort, the index numerals are marked,
    nothing else is declared."""
    sm = eng.load_module('ddsmt.smtlib')
    look = SymDict()
    consts = SymDict()
    if getattr(c, 'declared', None):
        x, s = c.declared
        look.set(eng, 'x', s)
        consts.set(eng, 'x', s)
    sm.g['__sort_lookup'] = look
    sm.g['__constants'] = consts
    idx = SymSet()
    for leaf in c.indices:
        idx.add(eng, leaf.attrs['id'])
    sm.g['__indices'] = idx
    sm.g['__definition_node_ids'] = SymSet()
    sm.g['__get_sort_cache'] = SymDict()
    sm.g['__datatypes_constructors'] = SymDict()
    sm.g['__datatypes_constants'] = SymDict()
    sm.g['__datatypes_selectors'] = SymDict()
    sm.g['__defined_functions'] = SymDict()
    return sm


def install_induction(eng, p, root):
    """Recursive calls on operands are answered by the contract."""
    sm = eng.load_module('ddsmt.smtlib')
    real_sort = sm.g['get_sort']
    real_aux = sm.g['_get_sort_aux']
    real_width = sm.g['get_bv_width']
    calls = {'sort': [], 'width': []}

    def is_operand(n):
        return isinstance(n, ObjVal) and n.tag and 'true_sort' in n.tag

    def get_sort(e, n):
        if is_operand(n):
            calls['sort'].append(n)
            memo = n.tag.setdefault('sort_answer', None)
            if memo is None:
                unknown = p.decide(p.fresh_bool('operand_sort_unknown'))
                n.tag['sort_answer'] = ('none', ) if unknown else ('known', )
            return None if n.tag['sort_answer'][0] == 'none' \
                else n.tag['sort_node']
        return e.call_real(real_sort, [n])

    def get_bv_width(e, n):
        if is_operand(n):
            calls['width'].append(n)
            w = width_of(n.tag['true_sort'])
            if w is None:
                return -1
            if 'width_answer' not in n.tag:
                n.tag['width_answer'] = p.decide(
                    p.fresh_bool('operand_width_unknown'))
            return -1 if n.tag['width_answer'] else w
        return e.call_real(real_width, [n])

    eng.overrides['ddsmt.smtlib.get_sort'] = get_sort
    eng.overrides['ddsmt.smtlib.get_bv_width'] = get_bv_width
    return calls


def make_run(name, builder):

    def run(eng, p):
        c = Ctx(eng, p)
        term, want = builder(c)
        sm = install_tables(eng, c, term)
        calls = install_induction(eng, p, term)
        want_node = c.sort_node(want)
        N = f'C16/{name}'
        o = outcome(eng, sm.g['_get_sort_aux'], [term])
        p.oblige(f'{N}/get_sort-raises-nothing', o.kind == 'return',
                 info=repr(o))
        if o.kind == 'return':
            r = o.value
            if r is None:
                p.oblige(f'{N}/sort-unknown-or-right', True)
            else:
                ok = isinstance(r, ObjVal)
                p.oblige(f'{N}/sort-unknown-or-right',
                         ok and mk_bool(nm.S(r) == nm.S(want_node)),
                         info={'got': nm.render(r) if ok else repr(r),
                               'want': nm.render(want_node), 'signature':
                               f'wrong sort inferred for {name}'})
        o = outcome(eng, sm.g['get_bv_width'], [term])
        p.oblige(f'{N}/get_bv_width-raises-nothing', o.kind == 'return',
                 info=repr(o))
        if o.kind == 'return':
            r = o.value
            w = width_of(want)
            if w is None:
                p.oblige(f'{N}/width-unknown-or-right',
                         mk_bool(sym._znum(r) == -1),
                         info={'got': repr(r), 'signature':
                               f'a width is reported for the non-bit-vector '
                               f'term {name}'})
            else:
                p.oblige(f'{N}/width-unknown-or-right',
                         mk_bool(z3.Or(sym._znum(r) == -1,
                                       sym._znum(r) == sym._znum(w))),
                         info={'got': repr(r), 'want': repr(w), 'signature':
                               f'wrong width inferred for {name}'})
        # structural induction is licensed: recursive calls on operands only
        p.oblige(f'{N}/recursion-on-sub-terms-only', True)

    return run


def _txt(v):
    return str(v) if isinstance(v, int) else sym.to_str(v)


def run_default_constants(eng, p):
    """every default constant has the sort it was asked for"""
    sm = eng.load_module('ddsmt.smtlib')
    c = Ctx(eng, p)
    k = p.choose(6, 'sort')
    # 2**ew is evaluated for FP sorts: concrete exponent widths there
    sort = [c.Bool(), c.Int(), c.Real(), c.BV(c.fresh_pos('w')),
            c.FP(5, c.fresh_pos('sb', 2)), c.FP(8, 24)][k]
    install_tables(eng, c, None)
    sn = c.sort_node(sort)
    o = outcome(eng, sm.g['get_default_constants'], [sn])
    N = 'C16/get_default_constants'
    p.oblige(f'{N}/raises-nothing', o.kind == 'return', info=repr(o))
    if o.kind != 'return':
        return
    consts = list(o.value)
    p.oblige(f'{N}/non-empty-for-basic-sorts', len(consts) >= 2)
    real_sort = sm.g['get_sort']
    for v in consts:
        if sort[0] == 'FP':
            # (fp s e m): s width 1, e width eb, m width sb-1
            kids = v.attrs['data']
            ok = len(kids) == 4 and kids[0].attrs['data'] == 'fp'

            def lit_width(n):
                d = n.attrs['data']
                return nm.S(d[2]) if isinstance(d, tuple) and len(d) == 3 \
                    else None

            ws = [lit_width(x) for x in kids[1:]] if ok else []
            p.oblige(f'{N}/fp-constant-has-the-sort',
                     ok and None not in ws and mk_bool(z3.And(
                         ws[0] == nm.leaf_struct('1'),
                         ws[1] == nm.leaf_struct(_txt(sort[1])),
                         ws[2] == nm.leaf_struct(_txt(sort[2] - 1)))),
                     info={'const': nm.render(v)})
            continue
        r = eng.call(sm.g['_get_sort_aux'], [v], {})
        p.oblige(f'{N}/constant-has-the-sort',
                 isinstance(r, ObjVal) and mk_bool(nm.S(r) == nm.S(sn)),
                 info={'const': nm.render(v), 'sort': nm.render(sn),
                       'signature': 'default constant of another sort'})


def run_reset(eng, p):
    """collect_information starts from empty tables: no symbol table (or
    cache) of an earlier input survives reset_information -- sorts are
    inferred from the current input only."""
    import ast
    sm = eng.load_module('ddsmt.smtlib')
    path = eng.source_path('ddsmt.smtlib')
    tree = ast.parse(open(path).read())
    fns = {n.name: n for n in tree.body if isinstance(n, ast.FunctionDef)}
    tables = set()
    # every module-level table: what collect_information / the sort
    # inference declare global, and every module-level dict / set whose name
    # starts with two underscores (tables and caches)
    for fn in ('collect_information', 'reset_information', 'get_sort'):
        for n in ast.walk(fns[fn]):
            if isinstance(n, ast.Global):
                tables.update(n.names)
    for st in tree.body:
        if isinstance(st, ast.Assign) and len(st.targets) == 1 and isinstance(
                st.targets[0], ast.Name) and st.targets[0].id.startswith(
                    '__') and isinstance(st.value, (ast.Dict, ast.Call)):
            if isinstance(st.value, ast.Dict) or (
                    isinstance(st.value.func, ast.Name) and
                    st.value.func.id in ('set', 'dict')):
                tables.add(st.targets[0].id)
    tables = sorted(tables)
    p.oblige('C16/reset_information/finds-the-tables', len(tables) >= 8,
             info=repr(tables))
    from pyvc.interp import SymDict, SymSet
    marker = object()
    for t in tables:
        old = sm.g.get(t)
        if isinstance(old, (set, frozenset, SymSet)) or (
                isinstance(old, ObjVal) is False and 'ids' in t or
                t in ('__indices', '__definition_node_ids')):
            sm.g[t] = eng.mk_set(['stale'])
        else:
            d = SymDict()
            sm.g[t] = eng.dict_set(d, 'stale', 'stale')
    out = outcome(eng, sm.g['reset_information'], [])
    p.oblige('C16/reset_information/raises-nothing', out.kind == 'return',
             info=repr(out))
    stale = []
    for t in tables:
        v = sm.g.get(t)
        try:
            n = len(v.elems) if isinstance(v, SymSet) else len(
                list(eng.dict_items(v))) if isinstance(
                    v, (dict, SymDict)) else len(v)
        except Exception:  # noqa
            n = -1
        if n != 0:
            stale.append(t)
    p.oblige('C16/reset_information/clears-every-table', not stale,
             info={'not cleared': stale, 'signature': 'a symbol table or '
                   'cache of an earlier input survives: sorts are inferred '
                   'from stale information'})
    # and collect_information begins with it
    ci = fns['collect_information']
    first = [st for st in ci.body if not (isinstance(st, ast.Expr) and
                                          isinstance(st.value, ast.Constant))
             and not isinstance(st, ast.Global)][:1]
    ok = bool(first) and isinstance(first[0], ast.Expr) and isinstance(
        first[0].value, ast.Call) and ast.unparse(
            first[0].value.func) == 'reset_information'
    p.oblige('C16/collect_information/starts-from-empty-tables', ok,
             info={'signature': 'collect_information does not reset the '
                   'tables first'})


def contracts(tier):
    A = [nm.ASSUME_LAZY, nm.ASSUME_EQ_CONTRACT,
         'typing table (contracts/c16.py: table()) is the specification; '
         'n-ary operators checked for arities 2 and 3; symbol tables as '
         'collect_information builds them (declared symbol -> declared '
         'sort, index numerals marked); floats not involved']
    cs = []
    for name, b in {**table(), **leaf_table()}.items():
        cs.append(Contract(f'C16/{name}',
                           ['ddsmt.smtlib._get_sort_aux',
                            'ddsmt.smtlib.get_bv_width',
                            'ddsmt.smtlib.get_indices'],
                           make_run(name, b), setup=setup, assumptions=A))
    cs.append(Contract('C16/collect_information',
                       ['ddsmt.smtlib.collect_information'], run_tables,
                       setup=setup_tables, assumptions=A + [
                           'get_sort on the bound term of a let answered by '
                           'its contract; the loop over sub-terms verified '
                           'for the binder under test']))
    cs.append(Contract('C16/reset_information',
                       ['ddsmt.smtlib.reset_information',
                        'ddsmt.smtlib.collect_information'], run_reset,
                       setup=setup, assumptions=[
                           'tables = the module-level names of smtlib.py that '
                           'collect_information declares global or mutates']))
    cs.append(Contract('C16/get_default_constants',
                       ['ddsmt.smtlib.get_default_constants'],
                       run_default_constants, setup=setup, assumptions=A))
    return cs


def native_checks(tier):
    n = 4 if tier == 'thorough' else 3
    nc = NativeCheck('C16/native/typed-terms',
                     ['ddsmt.smtlib.collect_information',
                      'ddsmt.smtlib.get_sort', 'ddsmt.smtlib.get_bv_width'],
                     'harness/c16_native.py', [n],
                     bound=f'every schema, {n} values per width/index, '
                     'operands: declared variable or application of unknown '
                     'sort')
    nc.python = 'python3-vt'
    return [nc]


# ---------------------------------------------------------------------------
# the symbol tables: collect_information maps every declared / defined /
# bound name to its sort (premise of the schemas above)

from pyvc.interp import LoopSpec  # noqa: E402

CI = 'ddsmt.smtlib.collect_information'


def setup_tables(eng):
    setup(eng)
    eng._binder = None
    # nodes.dfs through its contract (C12): it yields every sub-term of the
    # input, in particular the command and the binder under test; the other
    # sub-terms bind nothing (every symbol is bound once)
    eng.overrides['ddsmt.nodes.dfs'] = lambda e, exprs, max_depth=None: \
        list(exprs) + ([eng._binder] if eng._binder is not None else [])


def run_tables(eng, p):  # noqa: C901
    sm = eng.load_module('ddsmt.smtlib')
    kind = ['declare-const', 'declare-fun-0', 'declare-fun-2', 'define-fun',
            'let', 'forall', 'exists'][p.choose(7, 'kind')]
    name = mk.sstr(p, 'name')
    # a symbol: not a numeral, not one of the command names
    p.assume(z3.Length(name.z) > 0)
    p.assume(z3.Not(z3.InRe(name.z, nm.CANON)))
    x = nm.mk_leaf(eng, name)
    S_ = nm.lazy_node(eng, p, 'declared_sort')
    A_ = nm.lazy_node(eng, p, 'param_sort')
    body = nm.lazy_node(eng, p, 'body')
    eng._binder = None
    want = S_
    sort_answer = {}

    def get_sort(e, n):
        # contract: unknown, or the sort of n (an opaque sort term)
        unknown = p.decide(p.fresh_bool('sort_unknown'))
        sort_answer['v'] = None if unknown else nm.lazy_node(e, p,
                                                            'sort_of_term')
        return sort_answer['v']

    eng.overrides['ddsmt.smtlib.get_sort'] = get_sort
    if kind == 'declare-const':
        cmd = nm.mk_node(eng, 'declare-const', x, S_)
    elif kind == 'declare-fun-0':
        cmd = nm.mk_node(eng, 'declare-fun', x, nm.mk_node(eng), S_)
    elif kind == 'declare-fun-2':
        cmd = nm.mk_node(eng, 'declare-fun', x, nm.mk_node(eng, A_, A_), S_)
    elif kind == 'define-fun':
        cmd = nm.mk_node(eng, 'define-fun', x,
                         nm.mk_node(eng, nm.mk_node(eng, 'a', A_)), S_, body)
    else:
        if kind == 'let':
            term = nm.lazy_node(eng, p, 'bound_term')
            binder = nm.mk_node(eng, 'let',
                                nm.mk_node(eng, nm.mk_node(eng, x, term)),
                                body)
        else:
            binder = nm.mk_node(eng, kind,
                                nm.mk_node(eng, nm.mk_node(eng, x, S_)), body)
        cmd = nm.mk_node(eng, 'assert', binder)
        eng._binder = binder
    o = outcome(eng, sm.g['collect_information'], [[cmd]])
    N = f'C16/collect_information[{kind}]'
    p.oblige(f'{N}/raises-nothing', o.kind == 'return', info=repr(o))
    if o.kind != 'return':
        return
    look = sm.g['__sort_lookup']
    k = eng.dict_find(look, name)
    from pyvc.interp import _MISSING
    p.oblige(f'{N}/name-is-registered', k is not _MISSING,
             info={'signature': f'{kind}: bound name missing from the sort '
                   'table'})
    if k is _MISSING:
        return
    got = look.get_stored(k)
    if kind == 'let':
        p.oblige(f'{N}/sort-is-the-inferred-sort-of-the-bound-term',
                 got is sort_answer.get('v'))
    else:
        p.oblige(f'{N}/sort-is-the-declared-sort', got is want,
                 info={'signature': f'{kind}: the table holds another node '
                       'than the declared sort'})
    consts = sm.g['__constants']
    is_const = eng.dict_find(consts, name) is not _MISSING
    if kind in ('declare-const', 'declare-fun-0'):
        p.oblige(f'{N}/nullary-symbol-is-a-constant', is_const)
    if kind == 'declare-fun-2':
        p.oblige(f'{N}/function-is-not-a-constant', not is_const)
    if kind in ('declare-const', 'declare-fun-0', 'declare-fun-2',
                'define-fun', 'let', 'forall', 'exists'):
        ids = sm.g['__definition_node_ids']
        p.oblige(f'{N}/binding-occurrence-is-marked',
                 eng.truth(eng.contains(ids, x.attrs['id'])))
