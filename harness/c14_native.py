"""Bounded stand-in for C14: real command lines through the real argparse
set-up; the classes in the pass lists must be exactly the mutators enabled
by the documented semantics (options processed left to right, last writer
wins; --disable-all; automatic theory detection only for unset groups).

usage: c14_native.py <n_random_sequences>
"""
import itertools
import os
import random
import sys

ARGS = sys.argv[1:]
from harness.bounded import Recorder  # noqa: E402

sys.argv = ['ddsmt', 'in.smt2', 'out.smt2', 'cmd']
from ddsmt import options, mutators  # noqa: E402
from ddsmt import strategy_ddmin, strategy_hierarchical, nodeio  # noqa: E402


def registry():
    out = []
    for th, (mod, mapping) in mutators.get_all_mutators().items():
        for cname, opt in mapping.items():
            out.append((th, cname, opt))
    return out


REG = registry()
THEORIES = sorted({t for t, _, _ in REG})


def reference(seq, text):
    """enabled set by the documented semantics"""
    flag = {c: True for _, c, _ in REG}
    group = {t: None for t in THEORIES}
    for o in seq:
        neg = o.startswith('--no-')
        name = o[5:] if neg else o[2:]
        if o == '--disable-all':
            for c in flag:
                flag[c] = False
            for t in group:
                group[t] = False
        elif name in THEORIES:
            group[name] = not neg
            for t, c, _ in REG:
                if t == name:
                    flag[c] = not neg
        else:
            for t, c, opt in REG:
                if opt == name:
                    flag[c] = not neg
    # automatic theory detection
    exprs = list(nodeio.parse_smtlib(text))
    for t in THEORIES:
        mod = mutators.get_all_mutators()[t][0]
        if group[t] is None and hasattr(mod, 'is_relevant'):
            if not any(mod.is_relevant(n) for n in exprs):
                for tt, c, _ in REG:
                    if tt == t:
                        flag[c] = False
    return {c for c, v in flag.items() if v}


TEXTS = {
    'bv': '(declare-const x (_ BitVec 8))\n(assert (= x x))\n',
    'int': '(declare-fun f (Int) Int)\n(assert (> (f 1) 0))\n',
    'none': '(assert true)\n',
    'str-dt': '(declare-datatype T ((c)))\n(declare-const s String)\n',
}


def run_case(rec, seq, tname):
    setattr(options, '__PARSED_ARGS', None)
    sys.argv = ['ddsmt'] + list(seq) + ['in.smt2', 'out.smt2', 'cmd']
    try:
        options.args()
    except SystemExit:
        rec.violation('C14/native/options-parse', list(seq),
                      'argparse rejected the option sequence')
        return
    text = TEXTS[tname]
    exprs = list(nodeio.parse_smtlib(text))
    mutators.auto_detect_theories(exprs)
    want = reference(seq, text)
    rec.case((tuple(seq), tname), {'options': list(seq), 'input': tname,
                                  'enabled': len(want)})
    last = strategy_hierarchical.get_passes()[-1]
    got = {type(m).__name__ for m in last}
    if got != want:
        rec.violation('C14/native/last-hierarchical-pass',
                      {'options': list(seq), 'input': tname},
                      f'missing {sorted(want - got)}, extra '
                      f'{sorted(got - want)}')
    allp = set()
    for ps in strategy_hierarchical.get_passes():
        ms = ps[0] if isinstance(ps, tuple) else ps
        allp |= {type(m).__name__ for m in ms}
    if not allp <= want:
        rec.violation('C14/native/hierarchical-uses-disabled',
                      {'options': list(seq), 'input': tname},
                      f'{sorted(allp - want)}')
    st1, st2 = strategy_ddmin.ddmin_passes()
    gotd = {type(m).__name__ for m in st1 + st2}
    if gotd != want - {'BinaryReduction'}:
        rec.violation('C14/native/ddmin-passes',
                      {'options': list(seq), 'input': tname},
                      f'missing {sorted(want - gotd)}, extra '
                      f'{sorted(gotd - want)}')


THEORY_SORTS = {
    'arithmetic': ['Int', 'Real', ['Array', 'Int', 'Bool'],
                   ['Array', 'Bool', 'Real']],
    'bv': [['_', 'BitVec', '8'], ['Array', ['_', 'BitVec', '2'], 'Bool']],
    'fp': [['_', 'FloatingPoint', '5', '11'], 'Float32', 'RoundingMode',
           ['Array', 'Bool', 'Float64']],
    'strings': ['String', ['Seq', 'Int'], ['Array', 'String', 'Bool'],
                ['Seq', ['_', 'BitVec', '2']]],
}


def decl_forms(S):
    return [
        ['declare-const', 'x', S],
        ['declare-fun', 'f', [], S],
        ['declare-fun', 'f', ['Bool'], S],
        ['declare-fun', 'f', [S], 'Bool'],
        ['declare-fun', 'f', ['Bool', S], 'Bool'],
        ['define-fun', 'f', [], S, 'v'],
        ['define-fun', 'f', [['a', S]], 'Bool', 'true'],
        ['define-sort', 'N', [], S],
        # the other commands of SMT-LIB 2.6 that declare or define a symbol
        # with a sort: recursive definitions, datatype selectors
        ['define-fun-rec', 'f', [['a', S]], 'Bool', ['f', 'a']],
        ['define-fun-rec', 'f', [['a', 'Bool']], S, ['f', 'a']],
        ['define-funs-rec', [['f', [['a', S]], 'Bool']], [['f', 'a']]],
        ['define-funs-rec', [['f', [], 'Bool'], ['g', [['a', 'Bool']], S]],
         ['true', ['g', 'a']]],
        ['declare-datatype', 'T', [['mk', ['fld', S]]]],
        ['declare-datatypes', [['T', '0']], [[['c'], ['mk', ['fld', S]]]]],
    ]


def check_is_relevant(rec):
    """a declaration whose sort mentions a sort of the theory is relevant:
    theory detection may not disable the group for such an input"""
    from harness import replaylib as R
    for th, sorts in THEORY_SORTS.items():
        mod = mutators.get_all_mutators()[th][0]
        for S in sorts:
            for d in decl_forms(S):
                node = R.build(d)
                rec.case(('is_relevant', th, repr(d)))
                try:
                    got = mod.is_relevant(node)
                except Exception as e:  # noqa
                    got = f'raised {type(e).__name__}'
                if got is not True:
                    rec.violation(
                        f'C14/native/is_relevant[{th}]',
                        {'theory': th, 'declaration': R.sexpr(d)},
                        f'declares a symbol of the {th} theory but '
                        f'is_relevant gives {got}: the group would be '
                        'disabled automatically')
    mod = mutators.get_all_mutators()['datatypes'][0]
    for d in (['declare-datatype', 'T', [['c']]],
              ['declare-datatypes', [['T', '0']], [[['c']]]]):
        rec.case(('is_relevant', 'datatypes', repr(d)))
        if mod.is_relevant(R.build(d)) is not True:
            rec.violation('C14/native/is_relevant[datatypes]',
                          {'declaration': R.sexpr(d)}, 'not relevant')


def main():
    n = int(ARGS[0])
    rec = Recorder('C14/native/options', 'every single option, ordered '
                   f'pairs of a 14-option sample, {n} random sequences of '
                   'length 3-8; 4 inputs')
    seed = int(os.environ.get('VERIF_SEED', '0') or 0)
    rng = random.Random(seed)
    check_is_relevant(rec)
    singles = ['--disable-all']
    for t in THEORIES:
        singles += [f'--{t}', f'--no-{t}']
    for _, _, opt in REG:
        singles += [f'--{opt}', f'--no-{opt}']
    for o in singles:
        for tname in TEXTS:
            run_case(rec, [o], tname)
    sample = ['--disable-all', '--bv', '--no-bv', '--core', '--no-core',
              '--no-strings', '--strings', '--erase-node', '--no-erase-node',
              '--bv-norm-constants', '--no-bv-norm-constants',
              '--no-constants', '--arith-constants', '--no-smtlib']
    for a, b in itertools.permutations(sample, 2):
        run_case(rec, [a, b], 'bv')
        run_case(rec, [a, b], 'none')
    for _ in range(n):
        k = rng.randint(3, 8)
        seq = [rng.choice(singles) for _ in range(k)]
        run_case(rec, seq, rng.choice(list(TEXTS)))
    setattr(options, '__PARSED_ARGS', None)
    rec.finish(exhaustive=False)


if __name__ == '__main__':
    main()
