"""A small SMT-LIB evaluator (the denotation used as ground truth by the
bounded C17 check).  Terms are plain nested lists of strings.  Values:
bool, int, ('bv', width, value), ('dt', constructor, args...).
Written from the SMT-LIB theory definitions, independent of ddSMT.
"""
import itertools
import re


class EvalError(Exception):
    pass


def bv(w, v):
    if w <= 0:
        raise EvalError('bit-vector of width <= 0')
    return ('bv', w, v % (1 << w))


def is_bv(x):
    return isinstance(x, tuple) and x and x[0] == 'bv'


def signed(x):
    _, w, v = x
    return v - (1 << w) if v >> (w - 1) else v


def const(tok):
    if tok == 'true':
        return True
    if tok == 'false':
        return False
    if re.fullmatch(r'0|[1-9][0-9]*', tok):
        return int(tok)
    if tok.startswith('#b') and re.fullmatch(r'#b[01]+', tok):
        return bv(len(tok) - 2, int(tok[2:], 2))
    if tok.startswith('#x') and re.fullmatch(r'#x[0-9a-fA-F]+', tok):
        return bv(4 * (len(tok) - 2), int(tok[2:], 16))
    return None


class Ctx:

    def __init__(self, env=None, funs=None, dts=None, top=None):
        self.env = dict(env or {})
        # the assignment of the declared symbols: SMT-LIB is statically
        # scoped, the body of a defined function sees these and its formal
        # parameters, never the let / quantifier bindings around the call
        self.top = dict(env or {}) if top is None else top
        self.funs = dict(funs or {})  # name -> (formals, body)
        self.ctors = {}  # ctor -> (datatype, [selector names])
        self.sels = {}  # selector -> (ctor, index)
        for d in (dts or []):
            self.add_datatype(*d)

    def add_datatype(self, name, ctors):
        for c in ctors:
            cname, sels = c[0], [s[0] for s in c[1:]]
            self.ctors[cname] = (name, sels)
            for i, s in enumerate(sels):
                self.sels[s] = (cname, i)

    def child(self, extra):
        c = Ctx(self.env, self.funs, top=self.top)
        c.ctors, c.sels = self.ctors, self.sels
        c.env.update(extra)
        return c

    def definition_scope(self, extra):
        """Context for the body of a defined function."""
        c = Ctx(self.top, self.funs, top=self.top)
        c.ctors, c.sels = self.ctors, self.sels
        c.env.update(extra)
        return c


def domain(sort):
    if sort == 'Bool':
        return [False, True]
    if isinstance(sort, list) and sort[:2] == ['_', 'BitVec']:
        w = int(sort[2])
        return [bv(w, v) for v in range(1 << w)]
    if sort == 'Int':
        return [-2, -1, 0, 1, 2, 3]
    raise EvalError(f'no finite domain for {sort}')


def ev(t, c):  # noqa: C901
    if isinstance(t, str):
        if t in c.env:
            return c.env[t]
        k = const(t)
        if k is not None:
            return k
        if t in c.funs and not c.funs[t][0]:
            return ev(c.funs[t][1], c.definition_scope({}))
        if t in c.ctors and not c.ctors[t][1]:
            return ('dt', t)
        raise EvalError(f'unbound symbol {t}')
    if not t:
        raise EvalError('empty application')
    head = t[0]
    if isinstance(head, list):
        if head[0] != '_':
            raise EvalError('bad head')
        op = head[1]
        idx = [int(x) for x in head[2:]]
        args = [ev(a, c) for a in t[1:]]
        x = args[0]
        if op == 'extract':
            i, j = idx
            if not (is_bv(x) and 0 <= j <= i < x[1]):
                raise EvalError('extract indices')
            return bv(i - j + 1, x[2] >> j)
        if op == 'zero_extend':
            return bv(x[1] + idx[0], x[2]) if idx[0] >= 0 else None
        if op == 'sign_extend':
            return bv(x[1] + idx[0], signed(x))
        if op == 'repeat':
            if idx[0] < 1:
                raise EvalError('repeat')
            v = 0
            for _ in range(idx[0]):
                v = (v << x[1]) | x[2]
            return bv(x[1] * idx[0], v)
        if op in ('rotate_left', 'rotate_right'):
            k = idx[0] % x[1]
            if op == 'rotate_right':
                k = (x[1] - k) % x[1]
            return bv(x[1], (x[2] << k) | (x[2] >> (x[1] - k)))
        raise EvalError(f'indexed operator {op}')
    if head == '_':
        if len(t) == 3 and t[1].startswith('bv') and t[1][2:].isdigit():
            return bv(int(t[2]), int(t[1][2:]))
        raise EvalError('bad indexed identifier')
    if head in ('let', 'forall', 'exists'):
        if len(t) != 3 or not isinstance(t[1], list) or not all(
                isinstance(b, list) and len(b) == 2 and isinstance(b[0], str)
                and const(b[0]) is None for b in t[1]):
            raise EvalError(f'ill-formed binder list in {head}')
    if head == 'let':
        vals = {b[0]: ev(b[1], c) for b in t[1]}
        return ev(t[2], c.child(vals))
    if head in ('forall', 'exists'):
        names = [b[0] for b in t[1]]
        doms = [domain(b[1]) for b in t[1]]
        res = (ev(t[2], c.child(dict(zip(names, vs))))
               for vs in itertools.product(*doms))
        return all(res) if head == 'forall' else any(res)
    if head == 'ite':
        return ev(t[2], c) if ev(t[1], c) else ev(t[3], c)
    if head == '!':
        return ev(t[1], c)
    if head in c.funs:
        formals, body = c.funs[head]
        if len(formals) != len(t) - 1:
            raise EvalError('arity')
        vals = [ev(a, c) for a in t[1:]]
        return ev(body, c.definition_scope(dict(zip(formals, vals))))
    if head in c.ctors:
        return ('dt', head) + tuple(ev(a, c) for a in t[1:])
    if head in c.sels:
        x = ev(t[1], c)
        cname, i = c.sels[head]
        if x[1] != cname:
            raise EvalError('selector applied to other constructor')
        return x[2 + i]
    a = [ev(x, c) for x in t[1:]]
    if head == 'not':
        return not a[0]
    if head == 'and':
        return all(a)
    if head == 'or':
        return any(a)
    if head == 'xor':
        r = a[0]
        for x in a[1:]:
            r = r != x
        return r
    if head == '=>':
        r = a[-1]
        for x in reversed(a[:-1]):
            r = (not x) or r
        return r
    if head == '=':
        return all(x == y for x, y in zip(a, a[1:]))
    if head == 'distinct':
        return all(x != y for x, y in itertools.combinations(a, 2))
    if head in ('<', '<=', '>', '>='):
        f = {'<': lambda x, y: x < y, '<=': lambda x, y: x <= y,
             '>': lambda x, y: x > y, '>=': lambda x, y: x >= y}[head]
        return all(f(x, y) for x, y in zip(a, a[1:]))
    if head == '+':
        return sum(a)
    if head == '-':
        return -a[0] if len(a) == 1 else a[0] - sum(a[1:])
    if head == '*':
        r = 1
        for x in a:
            r *= x
        return r
    if head.startswith('bv') or head == 'concat':
        return ev_bv(head, a)
    raise EvalError(f'operator {head}')


def ev_bv(op, a):  # noqa: C901
    x = a[0]
    w = x[1]
    if op == 'concat':
        r = x
        for y in a[1:]:
            r = bv(r[1] + y[1], (r[2] << y[1]) | y[2])
        return r
    if op == 'bvnot':
        return bv(w, ~x[2])
    if op == 'bvneg':
        return bv(w, -x[2])
    if any(y[1] != w for y in a):
        raise EvalError('width mismatch')
    y = a[1] if len(a) > 1 else None
    if op == 'bvand':
        r = x[2]
        for z in a[1:]:
            r &= z[2]
        return bv(w, r)
    if op == 'bvor':
        r = x[2]
        for z in a[1:]:
            r |= z[2]
        return bv(w, r)
    if op == 'bvxor':
        r = x[2]
        for z in a[1:]:
            r ^= z[2]
        return bv(w, r)
    if op == 'bvnand':
        return bv(w, ~(x[2] & y[2]))
    if op == 'bvnor':
        return bv(w, ~(x[2] | y[2]))
    if op == 'bvxnor':
        return bv(w, ~(x[2] ^ y[2]))
    if op == 'bvadd':
        return bv(w, sum(z[2] for z in a))
    if op == 'bvsub':
        return bv(w, x[2] - y[2])
    if op == 'bvmul':
        r = 1
        for z in a:
            r *= z[2]
        return bv(w, r)
    if op == 'bvudiv':
        return bv(w, (1 << w) - 1 if y[2] == 0 else x[2] // y[2])
    if op == 'bvurem':
        return bv(w, x[2] if y[2] == 0 else x[2] % y[2])
    if op == 'bvshl':
        return bv(w, x[2] << y[2] if y[2] < w else 0)
    if op == 'bvlshr':
        return bv(w, x[2] >> y[2] if y[2] < w else 0)
    if op == 'bvcomp':
        return bv(1, 1 if x == y else 0)
    cmp = {'bvult': lambda p, q: p[2] < q[2], 'bvule': lambda p, q: p[2] <= q[2],
           'bvugt': lambda p, q: p[2] > q[2], 'bvuge': lambda p, q: p[2] >= q[2],
           'bvslt': lambda p, q: signed(p) < signed(q),
           'bvsle': lambda p, q: signed(p) <= signed(q),
           'bvsgt': lambda p, q: signed(p) > signed(q),
           'bvsge': lambda p, q: signed(p) >= signed(q)}
    if op in cmp:
        return cmp[op](x, y)
    raise EvalError(f'operator {op}')


def sort_of_value(v):
    if isinstance(v, bool):
        return 'Bool'
    if isinstance(v, int):
        return 'Int'
    if is_bv(v):
        return ('BitVec', v[1])
    if isinstance(v, tuple) and v[0] == 'dt':
        return ('dt', )
    return type(v).__name__
