"""Unbounded contracts for the rebuilding traversals (contracts/frames.py):
Node.__deepcopy__ (C12) and nodes.reduplicate (C13)."""
import z3

from pyvc import sym
from pyvc.api import Contract
from pyvc.interp import LoopSpec, ObjVal, PyRaise
from pyvc.sym import SNum, SStr, mk_bool, cur
from . import env as envmod
from . import nodemodel as nm
from . import worklist as wl
from . import frames as fr

Struct, SeqS = nm.Struct, nm.SeqS
DC = 'ddsmt.nodes.Node.__deepcopy__'
RD = 'ddsmt.nodes.reduplicate'


def base_setup(eng):
    wl.pre_install(eng)
    envmod.static_options(eng)
    nm.install(eng)
    nm.install_abs(eng)
    wl.install(eng)
    fr.install(eng)
    fr.install_struct_hook()


def is_node(eng, x):
    return isinstance(x, ObjVal) and x.cls is nm.node_class(eng)


def snapshot_lists(args):
    """{id(list): number of appended items} of the visible child lists."""
    out = {}
    if isinstance(args, wl.AbsList):
        for part in args.parts:
            if isinstance(part, tuple):
                lst = part[1]
                out[id(lst)] = len(lst.appended) if isinstance(
                    lst, fr.ResList) else len(lst)
    return out


def new_items(args, snap):
    out = []
    if isinstance(args, list):
        args = [('item', x) for x in args]
    else:
        args = args.parts
    for part in args:
        if isinstance(part, tuple):
            lst = part[1]
            items = lst.appended if isinstance(lst, fr.ResList) else lst
            out.extend(items[snap.get(id(lst), 0):])
    return out


def loop_spec(eng, label, prop, fresh_only, extra_sets=(), extra_havoc=None,
              pre_havoc=None):

    def havoc(e, env_, p):
        frames = p.ghost['frames']
        if pre_havoc:
            # state the guards of the frames read must be havocked first
            pre_havoc(e, env_, p)
        v, a = frames.havoc(p)
        env_.vars['visit'], env_.vars['args'] = v, a
        if extra_havoc and extra_havoc is not pre_havoc:
            extra_havoc(e, env_, p)

    def inv(e, env_):
        p = cur()
        p.ghost['loop_env'] = env_
        eqs = p.ghost['frames'].levels(env_.vars['visit'], env_.vars['args'])
        if eqs is None:
            return [False]
        return [(prop, q) for q in eqs]

    def start(e, env_, p):
        p.ghost['snap'] = snapshot_lists(env_.vars['args'])

    def end(e, env_, p):
        items = new_items(env_.vars['args'], p.ghost['snap'])
        x = env_.vars.get('expr')
        kind = 'marker' if env_.vars.get('visited') is True else (
            'leaf' if is_node(e, x) and isinstance(
                x.attrs.get('data'), (str, SStr)) else 'list')
        p.oblige(f'cover/{label}/handles-a-{kind}', False, kind='cover')
        if fresh_only:
            ok = all(is_node(e, n) and not (n.tag or {}).get('lazy') and
                     isinstance(n.attrs.get('id'), int) for n in items)
            p.oblige(f'{prop}/{label}/every-node-of-the-result-is-new', ok,
                     info={'signature': 'a node of the original is reused '
                           'in the copy'})

    return LoopSpec(inv=inv, havoc={'effect:state': havoc},
                    sets=('visit', 'args') + tuple(extra_sets),
                    on_iter_start=start, on_iter_end=end)


# -- Node.__deepcopy__ ----------------------------------------------------------


def setup_dc(eng):
    base_setup(eng)
    eng.spec_required.add(DC)
    eng.loop_specs[(DC, 'while visit')] = loop_spec(
        eng, '__deepcopy__', 'C12', fresh_only=True)


def run_dc(eng, p):
    n = nm.lazy_node(eng, p, 'root')
    F = z3.Unit(nm.S(n))
    p.ghost['frames'] = fr.Frames(eng, F)
    cls = nm.node_class(eng)
    f, _ = cls.lookup('__deepcopy__')
    err = None
    r = None
    try:
        r = eng.call(f, [n, {}], {})
    except PyRaise as ex:
        err = ex
    p.oblige('C04/__deepcopy__/raises-nothing', err is None,
             info={'outcome': repr(err.value) if err else '',
                   'signature': type(err.value).__name__ if err else ''})
    if err is not None:
        return
    ok = is_node(eng, r)
    p.oblige('C12/__deepcopy__/returns-a-node', ok, info=repr(r)[:100])
    if ok:
        p.oblige('C12/__deepcopy__/copy-has-the-same-structure',
                 mk_bool(nm.S(r) == nm.S(n)),
                 info={'signature': 'the copy differs structurally from '
                       'the original'})


# -- nodes.reduplicate --------------------------------------------------------------


def setup_rd(eng):
    base_setup(eng)
    eng.spec_required.add(RD)

    def extra(e, env_, p):
        env_.vars['ids'] = nm.AbsSet('ids')

    base = loop_spec(eng, 'reduplicate', 'C13', fresh_only=False,
                     extra_sets=('ids', ), extra_havoc=extra)
    end0 = base.on_iter_end

    def end(e, env_, p):
        end0(e, env_, p)
        # what was appended: a new node, or the node just taken from the
        # stack provided its id was not in use yet
        items = new_items(env_.vars['args'], p.ghost['snap'])
        x = env_.vars.get('expr')
        ids = env_.vars['ids']
        ok = True
        for n in items:
            if not is_node(e, n):
                ok = False
            elif n is x:
                # reused: the membership test said "not in ids" before the add
                was = [v for k, v in p.ghost.get('id_tests', [])
                       if k is x.attrs['id']]
                ok = ok and was[-1:] == [False]
            elif (n.tag or {}).get('lazy'):
                ok = False
        p.oblige('C13/reduplicate/reuses-a-node-only-if-its-id-is-unused',
                 ok, info={'signature': 'a node whose id is already in use '
                           'is kept instead of being re-created'})
        if isinstance(ids, nm.AbsSet) and items:
            # (ids of re-created nodes are fresh: they need no record)
            added = all(any(k is n.attrs['id'] and v is True
                            for k, v in ids.memo) for n in items if n is x)
            p.oblige('C13/reduplicate/records-the-id-of-every-node-it-keeps',
                     added, info={'signature': 'the id of a node put into '
                                  'the result is not recorded as used'})

    base.on_iter_end = end
    eng.loop_specs[(RD, 'while visit')] = base

    # remember the outcome of every `id in ids` test of the iteration
    has0 = nm.AbsSet.has

    def has(self, eng_, x):
        v = has0(self, eng_, x)
        cur().ghost.setdefault('id_tests', []).append((sym.force(x), v))
        return v

    nm.AbsSet.has = has


def run_rd(eng, p):
    nodes_mod = eng.load_module('ddsmt.nodes')
    forest, F = wl.forest(eng, p)
    p.ghost['frames'] = fr.Frames(eng, F)
    p.ghost['id_tests'] = []
    err = None
    r = None
    try:
        r = eng.call(nodes_mod.g['reduplicate'], [forest], {})
    except PyRaise as ex:
        err = ex
    p.oblige('C04/reduplicate/raises-nothing', err is None,
             info={'outcome': repr(err.value) if err else '',
                   'signature': type(err.value).__name__ if err else ''})
    if err is not None:
        return
    ok = isinstance(r, (fr.ResList, list))
    p.oblige('C13/reduplicate/returns-a-list', ok, info=repr(r)[:100])
    if ok:
        p.oblige('C13/reduplicate/result-has-the-same-structure-and-tokens',
                 mk_bool(fr.list_den(r) == F),
                 info={'signature': 'reduplicate changes the structure or a '
                       'token of the input'})


# -- nodes.substitute with structural keys -------------------------------------------

SB = 'ddsmt.nodes.substitute'
KEY = z3.Function('KEY', Struct, z3.BoolSort())
VAL = z3.Function('VAL', Struct, SeqS)
SUB = z3.Function('SUB', Struct, SeqS)
SUBL = z3.Function('SUBL', SeqS, SeqS)


class SubSpec(fr.IdentitySpec):
    """Reference substitution for a dictionary with structural keys only:

        SUB(s) = VAL(s)               if KEY(s)   (0 or 1 replacement nodes,
                                                   inserted as given)
               = [tup(SUBL(kids s))]  if s is a list
               = [s]                  otherwise
        SUBL([]) = [],  SUBL(x . r) = SUB(x) ++ SUBL(r)"""

    def item(self, s):
        return SUB(s)

    def seq(self, q):
        return SUBL(q)

    def target(self, s):
        return SUBL(Struct.kids(s))

    def unfold(self, p, s):
        p.assume(SUB(s) == z3.If(
            KEY(s), VAL(s), z3.If(
                Struct.is_tup(s),
                z3.Unit(Struct.tup(SUBL(Struct.kids(s)))), z3.Unit(s))))
        p.assume(z3.Length(VAL(s)) <= 1)

    def marker(self, p, s):
        # a marker is pushed only for a node that is not a key
        p.assume(z3.Not(KEY(s)))


class StructDict(sym.Abstract):
    """repl with structural keys only (arbitrary which, arbitrary values)"""

    def __init__(self, eng):
        self.eng = eng
        self.lookups = []

    def contains(self, k):
        if isinstance(k, (int, SNum)):
            return False  # no identity keys (stated)
        return mk_bool(KEY(nm.S(k)))

    def get(self, k):
        p = cur()
        s = nm.S(k)
        if not self.eng.truth(mk_bool(KEY(s))):
            raise PyRaise(KeyError('node'))
        p.assume(z3.Length(VAL(s)) <= 1)
        if p.decide(z3.Length(VAL(s)) == 0):
            v = None
        else:
            v = nm.lazy_node(self.eng, p, p.fresh_name('repl'))
            p.assume(VAL(s) == z3.Unit(nm.S(v)))
        self.lookups.append((k, v))
        return v


def setup_sb(eng):
    base_setup(eng)
    nm.use_eq_contract(eng)
    eng.spec_required.add(SB)
    # attribute writes to nodes of the input (there must be none)
    setattr0 = eng.setattr

    def setattr_(obj, name, value):
        o = sym.force(obj)
        if isinstance(o, ObjVal) and (o.tag or {}).get('lazy') and \
                name in o.attrs:
            cur().ghost.setdefault('input_writes', []).append(name)
        return setattr0(obj, name, value)

    eng.setattr = setattr_
    eng.contains_handlers[StructDict] = lambda e, d, k: d.contains(k)
    eng.getitem_handlers[StructDict] = lambda e, d, k: d.get(k)
    eng.len_handlers[StructDict] = lambda e, d: SNum(
        cur().ghost['repl_len'])
    eng.truth_handlers[StructDict] = lambda e, d: True

    def extra(e, env_, p):
        env_.vars['changed'] = sym.mk_bool(p.fresh_bool('changed'))
        p.ghost['loop_env'] = env_

    base = loop_spec(eng, 'substitute', 'C11', fresh_only=False,
                     extra_sets=('changed', ), extra_havoc=extra,
                     pre_havoc=extra)
    end0 = base.on_iter_end
    start0 = base.on_iter_start

    def start(e, env_, p):
        start0(e, env_, p)
        p.ghost['lookups0'] = len(env_.vars['repl'].lookups)
        v = env_.vars['visit']
        p.ghost['visit_parts0'] = len(v.parts) if isinstance(
            v, wl.AbsList) else None

    def end(e, env_, p):
        end0(e, env_, p)
        repl = env_.vars['repl']
        new = repl.lookups[p.ghost['lookups0']:]
        items = new_items(env_.vars['args'], p.ghost['snap'])
        p.oblige('C11/substitute/argument-not-modified',
                 not p.ghost.get('input_writes'),
                 info={'writes': p.ghost.get('input_writes'), 'signature':
                       'substitute writes to a node of its argument'})
        if new:
            k, v = new[-1]
            ok = (items == [] if v is None else
                  (len(items) == 1 and items[0] is v))
            p.oblige('C11/substitute/replacement-is-inserted-as-given', ok,
                     info={'signature': 'the replacement object is not what '
                           'ends up in the result (or a deleted node left '
                           'something behind)'})
            vis = env_.vars['visit']
            p.oblige('C11/substitute/replacement-is-not-traversed',
                     isinstance(vis, wl.AbsList) and
                     len(vis.parts) <= p.ghost['visit_parts0'],
                     info={'signature': 'the replacement (or the replaced '
                           'node) is put on the work list again'})
            p.oblige('C11/substitute/a-replacement-counts-as-a-change',
                     env_.vars['changed'] is True)
        else:
            # not replaced: a leaf stays the object it is; a list whose
            # rebuilt form is structurally equal to it stays the object it is
            x = env_.vars.get('expr')
            vis = env_.vars.get('visited')
            if is_node(e, x) and len(items) == 1 and is_node(e, items[0]):
                if vis is False and isinstance(x.attrs.get('data'),
                                               (str, SStr)):
                    p.oblige('C11/substitute/an-untouched-leaf-keeps-its-'
                             'identity', items[0] is x,
                             info={'signature': 'a leaf that is not replaced '
                                   'is copied'})
                elif vis is True:
                    # a different object may only be appended if it differs
                    # structurally from the original
                    p.oblige('C11/substitute/an-unchanged-list-keeps-its-'
                             'identity', True if items[0] is x else mk_bool(
                                 nm.S(items[0]) != nm.S(x)),
                             info={'signature': 'a list whose children were '
                                   'not changed is re-created (pending '
                                   'simplifications keyed by its id are '
                                   'lost)'})

    base.on_iter_start = start
    base.on_iter_end = end
    eng.loop_specs[(SB, 'while visit')] = base


def run_sb(eng, p):
    nodes_mod = eng.load_module('ddsmt.nodes')
    forest, F = wl.forest(eng, p)
    # while nothing has been replaced (``changed`` false) every list holds
    # exactly the original nodes' structures: identity specification under
    # that guard (so a shortcut that relies on ``changed`` verifies, and the
    # unchanged case is covered)
    def unchanged():
        env_ = p.ghost.get('loop_env')
        ch = env_.vars.get('changed') if env_ is not None else False
        return z3.Not(sym.zbool(ch))

    p.ghost['frames'] = fr.Frames(eng, F, SubSpec(),
                                  extra=[(fr.IdentitySpec(), unchanged)])
    n = p.fresh_int('repl_len')
    p.assume(n >= 1)
    p.ghost['repl_len'] = n
    repl = StructDict(eng)
    err = None
    r = None
    try:
        r = eng.call(nodes_mod.g['substitute'], [forest, repl], {})
    except PyRaise as ex:
        err = ex
    p.oblige('C04/substitute/raises-nothing', err is None,
             info={'outcome': repr(err.value) if err else '',
                   'signature': type(err.value).__name__ if err else ''})
    frame_obligation(p, forest, F)
    if err is not None:
        return
    if r is forest:
        # nothing was replaced: the argument itself is returned, and the
        # reference substitution is the identity on it
        p.oblige('cover/substitute/returns-the-argument-when-unchanged',
                 False, kind='cover')
        p.oblige('C11/substitute/unchanged-input-is-returned-only-if-the-'
                 'substitution-is-the-identity',
                 mk_bool(SUBL(F) == F),
                 info={'signature': 'the argument is returned although the '
                       'reference substitution changes it'})
        return
    ok = isinstance(r, (fr.ResList, list))
    p.oblige('C11/substitute/returns-a-list', ok, info=repr(r)[:100])
    if ok:
        p.oblige('C11/substitute/result-is-the-reference-substitution',
                 mk_bool(fr.list_den(r) == SUBL(F)),
                 info={'signature': 'the result differs from the reference '
                       'substitution (structural keys)'})


# -- nodes.substitute with identity keys as well ---------------------------------------
#
# With identity keys the replacement of a node does not depend on its
# structure alone.  The reference is therefore given node by node: every node
# n taken from the work list gets ghosts  IDKEY_n (its id is a key),
# IDVAL_n (what that key maps to: one node or nothing)  and its contribution
#
#   C_n = IDVAL_n                    if IDKEY_n
#       = VAL(S n)                   if KEY(S n)              (structural key)
#       = [tup(SUBLP(kids, id_n))]   if n is a list
#       = [S n]                      otherwise
#
# where SUBLP(q, pos) is the contribution of the sequence q *at position pos*
# (positions are the unique ids of the parents, so structurally equal lists at
# different places may be rewritten differently).  The dictionary answers
# membership / lookup / pop for an id from these ghosts.  What is proved: the
# per-level equations (every list is the concatenation, in order, of the
# contributions of the nodes of its level -- nothing else is touched), and
# per replaced node: inserted as given, not traversed.  The global statement
# is the fold of these facts.

def SUBLP(q, pos):
    """The contribution of the sequence q at position pos: one ghost constant
    per (sequence, position) -- no congruence between positions is wanted
    (and z3's model construction crashes on the two-argument function)."""
    p = cur()
    tab = p.ghost.setdefault('sublp', {})
    key = (q.get_id(), pos.get_id())
    if key not in tab:
        k = z3.Const(p.fresh_name('K'), SeqS)
        tab[key] = (q, pos, k)
        # the empty sequence contributes nothing (the only congruence used)
        p.assume(z3.Implies(z3.Length(q) == 0, k == z3.Empty(SeqS)))
    return tab[key][2]


class SubSpecIds(fr.IdentitySpec):

    def contrib(self, node):
        t = node.tag
        if 'C' not in t:
            p = cur()
            nm_ = t.get('name', 'n')
            t['C'] = z3.Const(p.fresh_name('C_' + nm_), SeqS)
            t['IDKEY'] = p.fresh_bool('idkey_' + nm_)
            t['IDVAL'] = z3.Const(p.fresh_name('idval_' + nm_), SeqS)
            s = nm.S(node)
            p.assume(z3.Length(t['IDVAL']) <= 1)
            p.assume(z3.Length(VAL(s)) <= 1)
            p.assume(t['C'] == z3.If(
                t['IDKEY'], t['IDVAL'], z3.If(
                    KEY(s), VAL(s), z3.If(
                        Struct.is_tup(s),
                        z3.Unit(Struct.tup(SUBLP(
                            Struct.kids(s), fr.pos_of(node)))),
                        z3.Unit(s)))))
        return t['C']

    def item_n(self, node):
        return self.contrib(node)

    def seq_p(self, q, pos):
        return SUBLP(q, pos)

    def target_n(self, node):
        return SUBLP(Struct.kids(nm.S(node)), fr.pos_of(node))

    def unfold_n(self, p, node):
        self.contrib(node)

    def marker_n(self, p, node):
        # a marker is pushed only for a node that was not replaced
        self.contrib(node)
        p.assume(z3.Not(node.tag['IDKEY']))
        p.assume(z3.Not(KEY(nm.S(node))))


class MixedDict(StructDict):
    """repl with identity (int) and structural (Node) keys"""

    def __init__(self, eng, spec):
        StructDict.__init__(self, eng)
        self.spec = spec
        self.popped = []
        self.id_lookups = []

    def _node_of_id(self, k):
        for n in cur().ghost.get('nodes_by_id', []):
            if n.attrs['id'] is k:
                return n
        raise sym.Unsupported('identity key lookup for an id that is not '
                              'the id of a node taken from the work list')

    def contains(self, k):
        if isinstance(k, (int, SNum)):
            n = self._node_of_id(k)
            self.spec.contrib(n)
            if n in self.popped:
                return False
            return mk_bool(n.tag['IDKEY'])
        return StructDict.contains(self, k)

    def get(self, k):
        if isinstance(k, (int, SNum)):
            return self._id_value(k, consume=False)
        return StructDict.get(self, k)

    def pop(self, k, *default):
        if not isinstance(k, (int, SNum)):
            raise sym.Unsupported('pop of a structural key')
        return self._id_value(k, True, *default)

    def _id_value(self, k, consume, *default):
        n = self._node_of_id(k)
        self.spec.contrib(n)
        p = cur()
        if n in self.popped or not self.eng.truth(mk_bool(n.tag['IDKEY'])):
            if default:
                return default[0]
            raise PyRaise(KeyError('id'))
        if consume:
            self.popped.append(n)
        self.id_lookups.append(n)
        if p.decide(z3.Length(n.tag['IDVAL']) == 0):
            v = None
        else:
            v = nm.lazy_node(self.eng, p, p.fresh_name('repl'))
            p.assume(n.tag['IDVAL'] == z3.Unit(nm.S(v)))
        self.lookups.append((n, v))
        return v


def setup_sb_ids(eng):
    setup_sb(eng)
    eng.contains_handlers[MixedDict] = lambda e, d, k: d.contains(k)
    eng.getitem_handlers[MixedDict] = lambda e, d, k: d.get(k)
    eng.len_handlers[MixedDict] = lambda e, d: SNum(cur().ghost['repl_len'])
    def repl_truth(e, d):
        p = cur()
        if e.truth(mk_bool(p.fresh_bool('repl_nonempty'))):
            return True
        # no key is left: the reference leaves everything below the node at
        # hand as it is
        env_ = p.ghost.get('loop_env')
        x = env_.vars.get('expr') if env_ is not None else None
        if is_node(e, x):
            s = nm.S(x)
            p.assume(z3.Implies(Struct.is_tup(s), SUBLP(
                Struct.kids(s), fr.pos_of(x)) == Struct.kids(s)))
        return False

    eng.truth_handlers[MixedDict] = repl_truth
    spec0 = eng.loop_specs[(SB, 'while visit')]
    end0 = spec0.on_iter_end

    def end(e, env_, p):
        # the node just taken from the work list is registered by id
        end0(e, env_, p)
        repl = env_.vars['repl']
        new = repl.lookups[p.ghost['lookups0']:]
        # (whether an applied identity key is removed from the dictionary is
        # not part of the property: ids are unique in a tree)

    spec0.on_iter_end = end


def run_sb_ids(eng, p):
    nodes_mod = eng.load_module('ddsmt.nodes')
    forest, F = wl.forest(eng, p)
    spec = SubSpecIds()

    def unchanged():
        env_ = p.ghost.get('loop_env')
        ch = env_.vars.get('changed') if env_ is not None else False
        return z3.Not(sym.zbool(ch))

    p.ghost['frames'] = fr.Frames(eng, F, spec,
                                  extra=[(fr.IdentitySpec(), unchanged)])
    n = p.fresh_int('repl_len')
    p.assume(n >= 1)
    p.ghost['repl_len'] = n
    p.ghost['nodes_by_id'] = []
    repl = MixedDict(eng, spec)
    # every lazy node created from now on is registered by its id
    lazy0 = nm.lazy_node

    def lazy(e, pp, name, sterm=None):
        o = lazy0(e, pp, name, sterm)
        pp.ghost.setdefault('nodes_by_id', []).append(o)
        return o

    nm.lazy_node = lazy
    err = None
    r = None
    try:
        try:
            r = eng.call(nodes_mod.g['substitute'], [forest, repl], {})
        except PyRaise as ex:
            err = ex
    finally:
        nm.lazy_node = lazy0
    p.oblige('C04/substitute/raises-nothing', err is None,
             info={'outcome': repr(err.value) if err else '',
                   'signature': type(err.value).__name__ if err else ''})
    frame_obligation(p, forest, F)
    if err is not None:
        return
    if r is forest:
        p.oblige('cover/substitute/returns-the-argument-when-unchanged',
                 False, kind='cover')
        p.oblige('C11/substitute/unchanged-input-is-returned-only-if-no-'
                 'node-contributes-anything-else',
                 mk_bool(SUBLP(F, fr.T0) == F))
        return
    ok = isinstance(r, (fr.ResList, list))
    p.oblige('C11/substitute/returns-a-list', ok, info=repr(r)[:100])
    if ok:
        p.oblige('C11/substitute/result-is-the-concatenation-of-the-'
                 'contributions-of-the-top-level-nodes',
                 mk_bool(fr.list_den(r) == SUBLP(F, fr.T0)),
                 info={'signature': 'the result is not assembled, in order, '
                       'from the contributions of the nodes of the input'})


def frame_obligation(p, forest, F):
    """The list handed in and its nodes are left as they are."""
    ok = not p.ghost.get('input_writes') and len(forest.parts) == 1 and \
        isinstance(forest.parts[0], wl.Seg) and z3.eq(forest.parts[0].seq, F)
    p.oblige('C11/substitute/argument-not-modified', ok,
             info={'writes': p.ghost.get('input_writes'), 'signature':
                   'substitute writes to a node of its argument or changes '
                   'the list it was given'})


def substitute_contracts(tier):
    A = ['rebuilding traversals: per-level invariant over abstract stacks '
         '(contracts/frames.py); deeper levels materialise on demand',
         nm.ASSUME_LAZY, nm.ASSUME_EQ_CONTRACT,
         'the dictionary has structural (Node) keys only, arbitrary which '
         'and with arbitrary values (a node or None); identity (int) keys '
         'are covered by the shape-bounded contract',
         'reference substitution SUB/SUBL uninterpreted, unfolded for the '
         'node taken from the work list']
    rp = wl.harness_replay('harness/nodes_native.py', ['substitute', 4],
                           ['C11'])
    A2 = A[:3] + [
        'identity and structural keys: per node taken from the work list '
        'ghosts say whether its id is a key and what it maps to; the '
        'contribution of a node is defined node by node (contracts/rebuild.py '
        'SubSpecIds), positions are the unique ids of the parents; the global '
        'statement is the fold of the proved per-level equations and local '
        'facts']
    return [
        Contract('substitute[any input, structural keys]', [SB], run_sb,
                 setup=setup_sb, assumptions=A, replay=rp),
        Contract('substitute[any input, identity and structural keys]', [SB],
                 run_sb_ids, setup=setup_sb_ids, assumptions=A2, replay=rp),
    ]


def contracts(tier):
    A = ['rebuilding traversals: per-level invariant over abstract stacks '
         '(contracts/frames.py); deeper levels materialise on demand',
         nm.ASSUME_LAZY, 'Node(*xs) through the real Node.__init__ with '
         'tuple(map(f, xs)) == tuple(xs) for f the identity on a generic '
         'element']
    rp = wl.harness_replay('harness/nodes_native.py', ['copy', 5], ['C12'])
    return [
        Contract('Node.__deepcopy__[any tree]', [DC], run_dc, setup=setup_dc,
                 assumptions=A, replay=rp),
    ]


def reduplicate_contracts(tier):
    A = ['rebuilding traversals: per-level invariant over abstract stacks '
         '(contracts/frames.py); deeper levels materialise on demand',
         nm.ASSUME_LAZY, 'the set of used ids is havocked (arbitrary '
         'membership); any(map(pred, zip(node, children))) is an arbitrary '
         'truth value (pred checked not to raise on an arbitrary pair)']
    rp = wl.harness_replay('harness/nodes_native.py', ['reduplicate', 5],
                           ['C13'])
    return [
        Contract('reduplicate[any input]', [RD], run_rd, setup=setup_rd,
                 assumptions=A, replay=rp),
    ]
