"""Path exploration, obligation discharge and result bookkeeping."""
import subprocess
import tempfile
import time
import traceback
import os

import z3

from . import sym
from .sym import Path, PathAbort, Unsupported, set_cur
from .interp import PyRaise, ObjVal

OBLIGATION_TIMEOUT_MS = 30000


class Outcome:
    """How one path of the function under contract ended."""

    def __init__(self, kind, value=None, where=None):
        self.kind = kind  # 'return' | 'raise'
        self.value = value
        self.where = where

    def exc_name(self):
        v = self.value
        if isinstance(v, ObjVal):
            return v.cls.name
        return type(v).__name__

    def __repr__(self):
        if self.kind == 'raise':
            return f'raise {self.exc_name()}({self.value})'
        return f'return {self.value!r}'


class ObResult:

    def __init__(self, name, status, backend, seconds, model=None,
                 detail=None, kind='post', bounded=False, smt2=None):
        self.name = name
        self.status = status  # proved | refuted | unknown
        self.backend = backend
        self.seconds = seconds
        self.model = model
        self.detail = detail
        self.kind = kind
        self.bounded = bounded
        self.smt2 = smt2


class FunctionReport:

    def __init__(self, contract_name, functions):
        self.contract = contract_name
        self.functions = functions
        self.results = []
        self.paths = 0
        self.aborted_paths = 0
        self.unsupported = []
        self.crash = None
        self.bounded_reasons = []
        self.notes = []
        self.seconds = 0.0
        self.solver_seconds = 0.0
        self.canaries = 0
        self.canaries_refuted = 0
        self.unknown_branches = 0
        self.covers = {}

    @property
    def proved(self):
        return [r for r in self.results if r.status == 'proved']

    @property
    def refuted(self):
        return [r for r in self.results if r.status == 'refuted']

    @property
    def unknown(self):
        return [r for r in self.results if r.status == 'unknown']


def struct_to_plain(v):
    """z3 value of the Struct datatype -> nested lists / strings."""
    name = v.decl().name()
    if name == 'leaf':
        a = v.arg(0)
        return a.as_string() if z3.is_string_value(a) else 'x'
    if name == 'num':
        a = v.arg(0)
        return str(a.as_long()) if z3.is_int_value(a) else '0'
    if name == 'tup':
        return seq_to_plain(v.arg(0))
    return 'x'


def seq_to_plain(s):
    k = s.decl().kind()
    if k == z3.Z3_OP_SEQ_EMPTY:
        return []
    if k == z3.Z3_OP_SEQ_UNIT:
        return [struct_to_plain(s.arg(0))]
    if k == z3.Z3_OP_SEQ_CONCAT:
        out = []
        for i in range(s.num_args()):
            out.extend(seq_to_plain(s.arg(i)))
        return out
    return []


def plain_to_sexpr(x):
    if isinstance(x, str):
        return x if x != '' else '||'
    return '(' + ' '.join(plain_to_sexpr(y) for y in x) + ')'


def model_to_dict(m):
    out = {}
    for d in m.decls():
        try:
            v = m[d]
            if d.arity() == 0 and v.sort().name() == 'Struct':
                out[d.name()] = {'sexpr': struct_to_plain(v)}
                continue
            if d.arity() == 0 and d.range().kind() == z3.Z3_ARRAY_SORT and \
                    d.range().domain() == z3.IntSort() and \
                    d.range().range() == z3.IntSort():
                # array of character codes: the first entries
                c = d()
                out[d.name()] = {'array': [
                    m.eval(z3.Select(c, z3.IntVal(i)),
                           model_completion=True).as_long()
                    for i in range(48)]}
                continue
            if z3.is_string_value(v):
                out[d.name()] = v.as_string()
            elif z3.is_int_value(v):
                out[d.name()] = v.as_long()
            elif z3.is_true(v):
                out[d.name()] = True
            elif z3.is_false(v):
                out[d.name()] = False
            else:
                out[d.name()] = str(v)
        except Exception:  # noqa
            pass
    return out


def _has_strings(fml):
    s = fml.sexpr()
    return 'String' in s or 'str.' in s or 're.' in s


def solve(pc, goal, timeout_ms=OBLIGATION_TIMEOUT_MS):
    """Decide validity of ``And(pc) => goal``.  Returns
    (status, backend, seconds, model, smt2)."""
    t0 = time.time()
    s = z3.Solver()
    s.set('timeout', timeout_ms)
    for c in pc:
        s.add(c)
    s.add(z3.Not(goal))
    r = s.check()
    dt = time.time() - t0
    if r == z3.unsat:
        return 'proved', 'z3', dt, None, None
    if r == z3.sat:
        return 'refuted', 'z3', dt, model_to_dict(s.model()), None
    smt2 = s.to_smt2()
    # z3 gave up: let cvc5 try (string obligations mostly)
    st, m = cvc5_check(smt2, timeout_ms // 1000 or 1)
    dt = time.time() - t0
    if st == 'unsat':
        return 'proved', 'cvc5', dt, None, smt2
    if st == 'sat':
        if m is None:
            m = _candidate_model(pc, goal, timeout_ms)
        return 'refuted', 'cvc5', dt, m, smt2
    return 'unknown', 'z3+cvc5', dt, None, smt2


def _candidate_model(pc, goal, timeout_ms):
    """cvc5 refuted the obligation but prints no model here: a candidate
    from z3 on the quantifier-free hypotheses (it may violate the quantified
    ones -- the native replay decides whether it is a real failing input)."""
    try:
        s = z3.Solver()
        s.set('timeout', timeout_ms)
        for c in pc:
            if not sym.has_quantifier(c):
                s.add(c)
        ng = z3.Not(goal)
        if not sym.has_quantifier(ng):
            s.add(ng)
        if s.check() == z3.sat:
            return model_to_dict(s.model())
    except Exception:  # noqa
        pass
    return None


def cvc5_check(smt2, timeout_s):
    try:
        with tempfile.NamedTemporaryFile('w', suffix='.smt2',
                                         delete=False) as f:
            f.write('(set-logic ALL)\n')
            f.write(smt2.replace('(check-sat)', ''))
            f.write('\n(check-sat)\n')
            name = f.name
        try:
            out = subprocess.run(
                ['/usr/bin/cvc5', '--strings-exp', f'--tlimit={timeout_s*1000}',
                 name], capture_output=True, text=True,
                timeout=timeout_s + 5)
            first = out.stdout.strip().splitlines()[:1]
            if first and first[0] in ('sat', 'unsat'):
                return first[0], None
        finally:
            os.unlink(name)
    except Exception:  # noqa
        pass
    return 'unknown', None


class Explorer:
    """Runs ``body(path)`` on every feasible path."""

    def __init__(self, max_paths=4000):
        self.max_paths = max_paths

    def explore(self, report, body, on_outcome):
        pending = [[]]
        t0 = time.time()
        while pending:
            if report.paths + report.aborted_paths >= self.max_paths:
                report.unsupported.append(
                    f'path budget {self.max_paths} exhausted')
                break
            prefix = pending.pop()
            p = Path(prefix)
            set_cur(p)
            try:
                try:
                    v = body(p)
                    out = Outcome('return', v)
                except PyRaise as e:
                    out = Outcome('raise', e.value, e.where)
                on_outcome(p, out)
                report.paths += 1
            except PathAbort:
                report.aborted_paths += 1
            except Unsupported as u:
                report.unsupported.append(f'{u} (at {sym.LAST_LINE})')
                if os.environ.get('PYVC_TB'):
                    report.unsupported.append(traceback.format_exc()[-3000:])
                report.paths += 1
            except RecursionError:
                report.unsupported.append('recursion limit in engine')
            except BaseException:  # noqa  engine crash
                report.crash = traceback.format_exc()
                set_cur(None)
                return
            finally:
                set_cur(None)
            report.unknown_branches += p.unknown_branches
            for b in p.bounded:
                if b not in report.bounded_reasons:
                    report.bounded_reasons.append(b)
            for n in p.notes:
                if n not in report.notes:
                    report.notes.append(n)
            pending.extend(p.pending)
            self.discharge(report, p)
        report.seconds += time.time() - t0

    def discharge(self, report, p):
        for ob in p.obligations:
            goal = z3.simplify(ob.goal)
            if z3.is_true(goal):
                res = ObResult(ob.name, 'proved', 'simplify', 0.0,
                               kind=ob.kind)
            else:
                st, be, dt, model, smt2 = solve(ob.pc, goal)
                report.solver_seconds += dt
                res = ObResult(ob.name, st, be, dt, model, ob.info, ob.kind,
                               smt2=smt2)
            if ob.kind == 'cover':
                # reachability check: must be refuted (reached with a
                # satisfiable path condition) on at least one path
                report.covers.setdefault(ob.name, 0)
                if res.status == 'refuted':
                    report.covers[ob.name] += 1
                continue
            if ob.kind == 'canary':
                report.canaries += 1
                if res.status == 'refuted':
                    report.canaries_refuted += 1
                continue
            res.bounded = bool(p.bounded)
            report.results.append(res)


_PROBE_COUNT = [0]


def probe(body, max_paths=400):
    """Explore ``body()`` on all its paths under the current path condition
    *without* forking the current path.  Returns the list of Outcomes.  Used
    by contract stubs that only need to know whether a callee can raise."""
    outer = sym._Cur.path
    _PROBE_COUNT[0] += 1
    tag = f'probe{len(outer.taken)}_{outer.ghost.setdefault("nprobes", 0)}_'
    outer.ghost['nprobes'] += 1
    outs = []
    pending = [[]]
    n = 0
    try:
        while pending:
            n += 1
            if n > max_paths:
                raise Unsupported('probe path budget exhausted')
            p = Path(pending.pop(), name_prefix=tag)
            for c in outer.pc:
                p.pc.append(c)
                p.solver.add(c)
            p.ghost['lazy_ids'] = list(outer.ghost.get('lazy_ids', []))
            set_cur(p)
            n_outer = len(outer.pc)
            try:
                try:
                    o = Outcome('return', body())
                except PyRaise as e:
                    o = Outcome('raise', e.value, e.where)
                # what this path assumed beyond the outer path condition
                o.extra_pc = list(p.pc[n_outer:])
                outs.append(o)
            except PathAbort:
                pass
            pending.extend(p.pending)
            for b in p.bounded:
                if b not in outer.bounded:
                    outer.bounded.append(b)
    finally:
        set_cur(outer)
    return outs
