#!/usr/bin/env python3
"""Evaluate a behaviour-preserving edit: no check may report a violation.

usage: edit_eval.py <dir with patch.diff, meta.json> [PROP ...]

On a scratch copy of /repo: the patch must apply and the 117 unit tests must
pass; every check (default: all 18) is run with PYVC_REPO pointing at the
copy.  Exit codes per check: 0 held, 2 undecided (the contract does not fit
the edited code: acceptable), 1 = false alarm, 3 = checker problem.
"""
import json
import os
import shutil
import subprocess
import sys

d = os.path.abspath(sys.argv[1])
props = sys.argv[2:] or ['C%02d' % i for i in range(1, 19)]
scratch = '/tmp/edit_eval_%d' % os.getpid()
repo = os.path.join(scratch, 'repo')
os.makedirs(scratch)
res = {'edit': d}
try:
    subprocess.run(['cp', '-r', '/repo', repo], check=True)
    r = subprocess.run(['git', 'apply', os.path.join(d, 'patch.diff')],
                       cwd=repo, capture_output=True, text=True)
    res['applies'] = r.returncode == 0
    if res['applies']:
        t = subprocess.run(['/venv/bin/python', '-m', 'pytest', '-q', '-p',
                            'no:cacheprovider', '-x'], cwd=repo,
                           capture_output=True, text=True)
        res['tests'] = t.stdout.strip().splitlines()[-1] if t.stdout else ''
        res['checks'] = {}
        for pr in props:
            c = subprocess.run(['./check', pr], cwd='/verif',
                               capture_output=True, text=True,
                               env=dict(os.environ, PYVC_REPO=repo))
            lines = [l for l in c.stdout.splitlines()
                     if l.startswith(('VIOLATION', '  undecided',
                                      '  CHECKER'))]
            res['checks'][pr] = {'exit': c.returncode,
                                 'lines': [l[:200] for l in lines[:4]]}
    else:
        res['apply_error'] = r.stderr[-300:]
finally:
    shutil.rmtree(scratch, ignore_errors=True)
bad = {p: c for p, c in res.get('checks', {}).items() if c['exit'] != 0}
print(json.dumps({'edit': d, 'applies': res.get('applies'),
                  'tests': res.get('tests'),
                  'exit_codes': {p: c['exit'] for p, c in
                                 res.get('checks', {}).items()},
                  'not_held': bad}, indent=1))
