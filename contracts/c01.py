"""C01 -- the output file reproduces the golden behaviour.

Composition over the contracts of strategies.py (every write is of an
accepted list; what is returned is what was last written; only the output
file is written, the input file is only read), C09 (acceptance rule, the
candidate file is the one checked) and C07 (renderers emit the tokens of the
list).  The final lemma is stated over the ghost predicates.
"""
import z3

from pyvc.api import Contract, NativeCheck
from . import strategies
from .strategies import E, Tok, FLAT, ACC

PROPERTY = 'C01'


def run_lemma(eng, p):
    """tokens(file) == FLAT(c) for the last written c, ACC(FLAT(c)), and the
    command is deterministic on token sequences => running it on the output
    file matches golden."""
    c = z3.Const('c', E)
    file_tokens = z3.Const('file_tokens', Tok)
    MATCH = z3.Function('command_matches_golden_on', Tok, z3.BoolSort())
    # ACC(t): the command was run on a file with tokens t and matched;
    # determinism on token sequences: it matches on every file with tokens t
    p.assume(z3.ForAll([file_tokens], z3.Implies(ACC(file_tokens),
                                                 MATCH(file_tokens))))
    out_tokens = z3.Const('output_file_tokens', Tok)
    p.assume(out_tokens == FLAT(c))  # C07: renderer emits FLAT(c)
    p.assume(ACC(FLAT(c)))  # C01/*/write-accepted
    p.oblige('C01/lemma/output-file-matches-golden', MATCH(out_tokens))


def contracts(tier):
    from . import c09, env
    A9 = [env.ASSUME_OPTIONS]
    acceptance = [
        # the candidate is accepted only under the documented comparison,
        # and is checked in a process-private file (mechanisms of C01)
        Contract('C01/matches_golden', ['ddsmt.checker.matches_golden'],
                 lambda e, p: c09.run_matches_golden(e, p, 'C01'),
                 setup=c09.setup, assumptions=A9,
                 replay=c09.replay_matches_golden),
        Contract('C01/check', ['ddsmt.checker.check'],
                 lambda e, p: c09.run_check(e, p, 'C01'), setup=c09.setup,
                 assumptions=A9, replay=c09.replay_check),
        Contract('C01/get_tmp_filename', ['ddsmt.tmpfiles.get_tmp_filename'],
                 lambda e, p: c09.run_tmpname(e, p, 'C01'),
                 setup=c09.setup_tmp, assumptions=A9),
    ]
    from . import writers
    # the renderers write exactly the tokens of the list (obligations shared
    # with C07): what the output file holds is what was accepted
    return strategies.all_contracts(tier) + acceptance + \
        writers.contracts(tier) + [
        Contract('C01/lemma', [], run_lemma,
                 assumptions=['the command is deterministic and its '
                              'behaviour depends on the token sequence only '
                              '(quantifier of C01)',
                              'renderers emit exactly the tokens of the list '
                              '(contracts of contracts/writers.py, verified '
                              'in this check)']),
    ]


def native_checks(tier):
    b = 60 if tier == 'thorough' else 12
    return [
        NativeCheck('C01/native/orchestration', ['ddsmt.strategy_ddmin.reduce',
                                                 'ddsmt.strategy_hierarchical.reduce'],
                    'harness/orch.py', ['all', b],
                    bound=f'3 inputs x 4 scripted commands x 3 strategies x '
                    f'-j in (1,3), {b} schedules each'),
    ]
