"""C02 -- hierarchical/hybrid result is a fixed point of every enabled mutator."""
from pyvc.api import NativeCheck
from . import strategies

PROPERTY = 'C02'


def contracts(tier):
    from . import c14
    # the final pass holds every enabled mutator (shared with C14)
    passes = [c for c in c14.contracts(tier) if c.name == 'C14/get_passes']
    return strategies.hier_contracts(tier) + \
        strategies.worker_contracts(tier) + passes


def native_checks(tier):
    b = 150 if tier == 'thorough' else 30
    return [
        NativeCheck('C02/native/orchestration',
                    ['ddsmt.strategy_hierarchical.reduce'],
                    'harness/orch.py', ['hier', b],
                    bound=f'3 inputs x 4 scripted commands x -j in (1,3), '
                    f'{b} schedules each; fixed point checked by enumerating '
                    'every proposal of the last pass on the result'),
    ]
