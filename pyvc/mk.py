"""Constructors for symbolic inputs used by contracts."""
import z3

from .sym import SBool, SNum, SStr, SOpt, sym_str, sym_numeral, mk_bool  # noqa


def sbool(p, name):
    return SBool(p.fresh_bool(name))


def sint(p, name):
    return SNum(p.fresh_int(name))


def sreal(p, name):
    return SNum(p.fresh_real(name))


def sstr(p, name):
    return sym_str(p, name)


def opt(p, name, val):
    return SOpt(p.fresh_bool(name + '_is_none'), val)


def opt_str(p, name):
    return opt(p, name, sstr(p, name))


def opt_int(p, name):
    return opt(p, name, sint(p, name))


def opt_real(p, name):
    return opt(p, name, sreal(p, name))


class Namespace:
    """Plain attribute bag (stands for argparse.Namespace)."""

    def __init__(self, **kw):
        self.__dict__.update(kw)

    def __repr__(self):
        return f'Namespace({self.__dict__})'
