"""C13 -- the working input is a tree: node identities pairwise distinct.

reduplicate: bounded native run-time contract on DAGs (every way of sharing
structurally equal positions).  Call-site obligations (every list handed to
Producer / TaskGenerator is the parser's result or a reduplicate() result)
are part of the strategy contracts, see contracts/strategies.py.
"""
from pyvc.api import Contract, NativeCheck

PROPERTY = 'C13'


def contracts(tier):
    from . import strategies
    return strategies.all_contracts(tier)


def native_checks(tier):
    t = tier == 'thorough'
    return [
        NativeCheck('C13/native/reduplicate', ['ddsmt.nodes.reduplicate'],
                    'harness/nodes_native.py', ['reduplicate', 7 if t else 6],
                    bound=f'forests <= {7 if t else 6} nodes (<= 3 trees), '
                    'one class of structurally equal positions shared'),
        NativeCheck('C13/native/orchestration',
                    ['ddsmt.strategy_ddmin._apply_mutator',
                     'ddsmt.strategy_hierarchical.reduce'],
                    'harness/orch.py', ['all', 10 if not t else 40],
                    bound='ids of every input handed to Producer / '
                    'TaskGenerator in scripted runs'),
    ]
