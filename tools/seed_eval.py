#!/usr/bin/env python3
"""Evaluate a seeded breaking change.

usage: seed_eval.py <dir with patch.diff, demo.*, meta.json> [PROP ...]

On a scratch copy of /repo (outside /repo and /verif, removed afterwards):
1. demo on the unchanged tree must exit 0;
2. the patch must apply, the 117 unit tests must pass, demo must exit != 0;
3. ./check <PROP> (default: the property of meta.json) is run with
   PYVC_REPO pointing at the patched copy; prints what it reported.
"""
import json
import os
import shutil
import subprocess
import sys

d = os.path.abspath(sys.argv[1])
meta = json.load(open(os.path.join(d, 'meta.json')))
props = sys.argv[2:] or [meta['property']]
scratch = '/tmp/seed_eval_%d' % os.getpid()
repo = os.path.join(scratch, 'repo')
os.makedirs(scratch)
res = {'seed': d, 'property': meta['property']}
try:
    subprocess.run(['cp', '-r', '/repo', repo], check=True)
    demo = [f for f in os.listdir(d) if f.startswith('demo.')][0]
    cmd = (['/venv/bin/python'] if demo.endswith('.py') else ['sh']) + [
        os.path.join(d, demo), repo]
    env = dict(os.environ, PYTHONPATH=repo)

    def run_demo():
        try:
            r = subprocess.run(cmd, capture_output=True, text=True,
                               timeout=300, env=env, cwd=scratch)
            return r.returncode, (r.stdout + r.stderr)[-400:]
        except subprocess.TimeoutExpired:
            return 'timeout', ''

    res['demo_clean'] = run_demo()[0]
    r = subprocess.run(['git', 'apply', os.path.join(d, 'patch.diff')],
                       cwd=repo, capture_output=True, text=True)
    res['applies'] = r.returncode == 0
    if not res['applies']:
        res['apply_error'] = r.stderr[-300:]
    else:
        t = subprocess.run(['/venv/bin/python', '-m', 'pytest', '-q', '-p',
                            'no:cacheprovider', '-x'], cwd=repo,
                           capture_output=True, text=True)
        res['tests'] = t.stdout.strip().splitlines()[-1] if t.stdout else ''
        rc, out = run_demo()
        res['demo_patched'] = rc
        res['demo_output'] = out
        res['checks'] = {}
        for pr in props:
            c = subprocess.run(['./check', pr], cwd='/verif',
                               capture_output=True, text=True,
                               env=dict(os.environ, PYVC_REPO=repo))
            lines = [l for l in c.stdout.splitlines()
                     if l.startswith(('VIOLATION', 'KNOWN', '['))]
            res['checks'][pr] = {'exit': c.returncode,
                                 'lines': [l[:230] for l in lines[:6]]}
finally:
    shutil.rmtree(scratch, ignore_errors=True)
print(json.dumps(res, indent=1))
