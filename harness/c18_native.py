"""Bounded stand-in for C18: end-to-end runs of the real ddsmt executable
with -j 1 and a deterministic command, repeated under different
PYTHONHASHSEED values and with timing perturbation of the command; the
sequence of contents written to the output file (the accepted inputs) and the
final output file must be byte-identical across repetitions.  (The sequence
of *tests* may differ: with one worker the feeder runs ahead and how many
already submitted candidates are still tested after a success depends on
timing; they are discarded.)

usage: c18_native.py <n_seeds>
"""
import concurrent.futures
import hashlib
import os
import re
import shutil
import subprocess
import sys
import tempfile

ARGS = sys.argv[1:]
from harness.bounded import Recorder  # noqa: E402

REPO = os.environ.get('PYVC_REPO', '/repo')

KEEP = '(assert (not (not (not (distinct ' + ' '.join(
    f'(+ a {i + 2})' for i in range(7)) + ')))))'

INPUTS = {
    'vars': '(set-logic QF_LIA)\n(declare-const bb Int)\n(declare-const aa '
            'Int)\n(declare-const cc Int)\n(assert (> (+ aa bb cc) 0))\n'
            '(assert (= (* 2 aa) bb))\n(assert (< cc 10))\n(check-sat)\n',
    'bv': '(declare-const v (_ BitVec 8))\n(declare-const w (_ BitVec 8))\n'
          '(assert (= ((_ extract 3 0) v) #xa))\n(assert (bvult v w))\n'
          '(assert (= w (bvnot (bvnot v))))\n(check-sat)\n',
    'bool': '(declare-const p Bool)\n(declare-const q Bool)\n'
            '(assert (and p (or q (not p)) (=> p q) (xor p q true)))\n'
            '(assert (let ((r (and p q))) (or r (not r))))\n(check-sat)\n',
    # several equally good replacements: which one wins must not depend on
    # hash seeds (datatype constants) ...
    'dt': '(declare-datatypes ((Color 0)) (((red) (green) (blue) (cyan) '
          '(magenta) (yellow))))\n(declare-const c Color)\n'
          '(declare-const d Color)\n(assert (distinct c d))\n(check-sat)\n',
    # ... nor on timing (order-sensitive command: which assertions survive
    # depends on the order in which they are removed)
    'order': '(set-logic QF_LIA)\n' + ''.join(
        f'(declare-const x{i} Int)\n' for i in range(8)) + ''.join(
        f'(assert (> x{i} {i}))\n' for i in range(8)) + '(check-sat)\n',
    # a fresh variable is introduced and accepted; the command is slow on
    # some rejected candidates only (EXTRA / SLOW_ON below)
    'fresh': '(declare-const a Int)\n(declare-const b Int)\n'
             '(assert (> (+ (* a 3) b) 5))\n' + KEEP + '\n',
}

# per input: extra options, and a text on which the command sleeps longer
EXTRA = {'fresh': ['--disable-all', '--constants',
                   '--introduce-fresh-variables']}
SLOW_ON = {'fresh': '(+ 0 0)'}

CMD = r'''#!%(py)s
import sys, hashlib, time, os, re
data = open(sys.argv[1], 'rb').read()
text = data.decode()
toks = re.findall(r'[()]|[^\s()]+', text)
ok = %(pred)s
delay = float(os.environ.get('C18_DELAY', '0'))
if delay:
    # timing perturbation: slows every test of this run down
    time.sleep(delay)
    slow_on = os.environ.get('C18_SLOW_ON', '')
    if slow_on and slow_on in text:
        # ... and some tests much more than others
        time.sleep(40 * delay)
with open(%(log)r, 'a') as f:
    f.write(hashlib.sha256(' '.join(toks).encode()).hexdigest()[:16] + (' ok' if ok else ' no') + '\n')
if ok:
    print('bug')
    sys.exit(1)
sys.exit(0)
'''

PREDS = {
    'vars': "toks.count('assert') >= 1 and 'aa' in text",
    'bv': "'v' in toks and toks.count('(') >= 4",
    'bool': "'p' in toks and 'assert' in toks",
    'dt': "'declare-datatypes' in toks and 'distinct' in toks and "
          "'assert' in toks",
    'order': "len(re.findall(r'\\(assert \\(> x[0-9]+ [0-9]+\\)\\)', "
             "text)) >= 4",
    'fresh': "'(+ 0 0)' not in text and %r in text and "
             "re.search(r'\\(assert \\(> [a-z(]', text) is not None" % KEEP,
}


def one_run(args):
    iname, strategy, seed, delay = args
    d = tempfile.mkdtemp(prefix='c18-')
    try:
        inp = os.path.join(d, 'in.smt2')
        out = os.path.join(d, 'out.smt2')
        log = os.path.join(d, 'log.txt')
        cmd = os.path.join(d, 'cmd.py')
        open(inp, 'w').write(INPUTS[iname])
        open(cmd, 'w').write(CMD % {'py': sys.executable,
                                    'pred': PREDS[iname], 'log': log})
        os.chmod(cmd, 0o755)
        env = dict(os.environ)
        env['PYTHONHASHSEED'] = str(seed)
        env['C18_DELAY'] = str(delay)
        env['C18_SLOW_ON'] = SLOW_ON.get(iname, '')
        env['PYTHONPATH'] = REPO
        wlog = os.path.join(d, 'writes.txt')
        env['DDSMT_WRITES'] = wlog
        env['DDSMT_WRITES_MASK'] = 'x[0-9]+__fresh'
        launcher = os.path.join(os.path.dirname(os.path.abspath(__file__)),
                                'launch_ddsmt.py')
        r = subprocess.run([sys.executable, launcher,
                            '-j', '1', '--strategy', strategy, '-q'] +
                           EXTRA.get(iname, []) + [inp, out, cmd], capture_output=True, text=True, env=env,
                           timeout=600, cwd=d)
        # the sequence of accepted inputs = contents successively written
        rows = [ln.split() for ln in open(wlog)] if os.path.exists(wlog) \
            else []
        seq = ''.join(r[0] + '\n' for r in rows)
        mseq = ''.join(r[-1] + '\n' for r in rows)
        outb = open(out, 'rb').read() if os.path.exists(out) else b''
        def h(t):
            return hashlib.sha256(t.encode()).hexdigest()[:16]

        def masked(t):
            return re.sub(r'x[0-9]+__fresh', 'x#__fresh', t)

        outt = outb.decode()
        return (iname, strategy, seed, delay, r.returncode,
                h(seq), seq.count('\n'), h(outt),
                outt[:200], r.stderr[-300:], h(mseq), h(masked(outt)))
    finally:
        shutil.rmtree(d, ignore_errors=True)


def main():
    nseeds = int(ARGS[0])
    rec = Recorder('C18/native/repeat-runs',
                   f'{len(INPUTS)} inputs x 3 strategies x {nseeds} values of '
                   'PYTHONHASHSEED, with and without timing perturbation of '
                   'the command')
    jobs = []
    for iname in INPUTS:
        for strategy in ('ddmin', 'hierarchical', 'hybrid'):
            for seed in range(nseeds):
                for delay in ((0, 0.003, 0.012) if seed < 1 else (0, )):
                    jobs.append((iname, strategy, seed, delay))
    groups = {}
    with concurrent.futures.ProcessPoolExecutor(12) as ex:
        for res in ex.map(one_run, jobs):
            (iname, strategy, seed, delay, rc, seqh, ntests, outh, outtxt,
             err, mseqh, mouth) = res
            rec.case((iname, strategy, seed, delay),
                     {'input': iname, 'strategy': strategy, 'seed': seed,
                      'delay': delay, 'tests': ntests})
            if rc != 0:
                rec.violation('C18/native/run-completes',
                              {'input': iname, 'strategy': strategy,
                               'seed': seed}, f'exit {rc}: {err}')
                continue
            groups.setdefault((iname, strategy), []).append(
                (seed, delay, seqh, outh, ntests, mseqh, mouth, outtxt))
    for (iname, strategy), runs in groups.items():
        seqs = {r[2] for r in runs}
        outs = {r[3] for r in runs}
        # is a difference confined to the number in a name x<n>__fresh?
        only_id = ' that differ only in the number of the fresh-variable ' \
            'name x<id>__fresh (IntroduceFreshVariable writes a node id ' \
            'into the file)'
        if len(outs) > 1:
            same_masked = len({r[6] for r in runs}) == 1
            rec.violation('C18/native/same-output-file',
                          {'input': iname, 'strategy': strategy,
                           'runs': [(r[0], r[1], r[3]) for r in runs],
                           'outputs': sorted({r[7] for r in runs})[:3]},
                          'output files differ between repetitions' +
                          (only_id if same_masked else ''))
        if len(seqs) > 1:
            same_masked = len({r[5] for r in runs}) == 1
            rec.violation('C18/native/same-sequence-of-accepted-inputs',
                          {'input': iname, 'strategy': strategy,
                           'runs': [(r[0], r[1], r[2], r[4]) for r in runs]},
                          'the output file went through different sequences '
                          'of contents' + (only_id if same_masked else ''))
    rec.finish(exhaustive=False)


if __name__ == '__main__':
    main()
