#!/usr/bin/env python3
"""Regenerate MANIFEST.json from tools/manifest_table.py."""
import json, os, sys
here = os.path.dirname(os.path.abspath(__file__))
sys.path.insert(0, here)
import manifest_table as T
ids = [json.loads(l)['id'] for l in open(os.path.join(here, '..', 'properties.jsonl'))]
checks = []
for pid in ids:
    if pid not in T.CHECKS:
        continue
    c = T.CHECKS[pid]
    checks.append({
        'property_id': pid,
        'quick_cmd': f'./check {pid}',
        'thorough_cmd': f'./check {pid} --tier thorough',
        'evidence_file': f'evidence/{pid}.json',
        'replay_cmd_template': './check --replay {path}',
        'engine': 'pyvc',
        'level_claimed': {'category': c['category'], 'text': c['text'], 'design_ref': c.get('design_ref', 'DESIGN.md section 3')},
        'level_note': c['note'],
        'technique': c['technique'],
    })
m = {
    'version': 1,
    'setup_cmd': T.SETUP,
    'hooks': T.HOOKS,
    'engines': T.ENGINES,
    'checks': checks,
    'not_applicable': [{'property_id': p, 'reason': T.NOT_APPLICABLE.get(p, 'check not built yet in this session (planned, see DESIGN.md section 3)')} for p in ids if p not in T.CHECKS],
    'notes': T.NOTES,
}
json.dump(m, open(os.path.join(here, '..', 'MANIFEST.json'), 'w'), indent=1)
print('checks:', [c['property_id'] for c in checks])
