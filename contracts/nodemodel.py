"""Symbolic s-expression nodes for the engine.

Nodes are instances (ObjVal) of the *real* class ``ddsmt.nodes.Node``; its
methods are interpreted from source.  Two kinds of symbolic input nodes:

* shaped nodes: concrete shape, symbolic leaf texts / ids / hashes (tier S);
* lazy nodes: shape undetermined until the code inspects it.  A lazy node is
  described by a z3 term of sort ``Struct``; looking at ``.data`` forks into
  leaf (text / numeral) or tuple (symbolic length, children again lazy).

``Struct = leaf(text) | num(value) | tup(Seq Struct)`` -- canonical decimal
numerals are kept apart from other texts so that index arithmetic stays in
linear integer arithmetic (``num`` is used exactly for texts matching
``0|[1-9][0-9]*``).

``Node.__eq__`` / ``__hash__`` can be replaced by their *contract*
(structural equality, C12) with ``use_eq_contract``; C12 itself verifies the
real methods against that contract.
"""
import z3

from pyvc import sym, mk
from pyvc.sym import (SBool, SNum, SStr, SOpt, Unsupported, PathAbort, cur,
                      mk_bool, force)
from pyvc.interp import ObjVal, PyRaise, ClassVal

Struct = z3.Datatype('Struct')
Struct.declare('leaf', ('text', z3.StringSort()))
Struct.declare('num', ('numval', z3.IntSort()))
Struct.declare('tup', ('kids', z3.SeqSort(z3.DatatypeSort('Struct'))))
Struct = Struct.create()
SeqS = z3.SeqSort(Struct)

CANON = z3.Union(z3.Re(z3.StringVal('0')),
                 z3.Concat(z3.Range('1', '9'), z3.Star(z3.Range('0', '9'))))
NHASH = z3.Function('nodehash', Struct, z3.IntSort())
# number of nodes of a tree (only used to state: a child is smaller than its
# parent, hence never structurally equal to it)
SIZE = z3.Function('treesize', Struct, z3.IntSort())

LAZY_ID_BASE = 10**9


def is_canon(s):
    return s.isascii() and s.isdigit() and (s == '0' or s[0] != '0')


class LazyData:

    def __init__(self, name):
        self.name = name


class STuple:
    """Tuple of lazy nodes with symbolic length (a view kids[start:])."""

    def __init__(self, owner, start=0):
        self.owner = owner  # lazy ObjVal whose children these are
        self.start = start

    def kids_term(self):
        return Struct.kids(S(self.owner))

    def full_len(self):
        return z3.Length(self.kids_term())

    def length(self):
        n = self.full_len() - self.start
        return sym.mk_num(z3.simplify(z3.If(n < 0, z3.IntVal(0), n)))

    def seq_term(self):
        k = self.kids_term()
        if self.start == 0:
            return k
        return z3.SubSeq(k, self.start, z3.Length(k) - self.start)

    def item(self, eng, i):
        """Child at absolute position start+i (caller checked the bound)."""
        cache = self.owner.tag.setdefault('kids', {})
        k = self.start + i
        if k not in cache:
            name = f"{self.owner.tag['name']}.{k}"
            child = self.kids_term()[k]
            cache[k] = lazy_node(eng, cur(), name, sterm=child)
            cur().assume(z3.And(SIZE(child) >= 1,
                                SIZE(child) < SIZE(S(self.owner))))
        return cache[k]

    def __repr__(self):
        return f"<STuple of {self.owner.tag['name']} from {self.start}>"


def node_class(eng):
    return eng.load_module('ddsmt.nodes').g['Node']


def _fresh_lazy_id(p):
    v = p.fresh_int('nid')
    ids = p.ghost.setdefault('lazy_ids', [])
    p.assume(v >= LAZY_ID_BASE)
    for o in ids:
        p.assume(v != o)
    ids.append(v)
    return SNum(v)


def lazy_node(eng, p, name, sterm=None):
    cls = node_class(eng)
    o = ObjVal(cls)
    if sterm is None:
        sterm = z3.Const('S_' + p.fresh_name(name), Struct)
    o.tag = {'S': sterm, 'name': name, 'lazy': True}
    o.attrs['id'] = _fresh_lazy_id(p)
    o.attrs['hash'] = SNum(NHASH(sterm))
    o.attrs['data'] = LazyData(name)
    return o


def expand(eng, obj):
    """Decide the top-level form of a lazy node (forks)."""
    p = cur()
    s = obj.tag['S']
    if p.decide(Struct.is_tup(s)):
        data = STuple(obj)
    elif p.decide(Struct.is_num(s)):
        v = Struct.numval(s)
        p.assume(v >= 0)
        # valid string fact the solvers do not find by themselves: the
        # decimal rendering of a non-negative integer is a canonical numeral
        p.assume(z3.InRe(z3.IntToStr(v), CANON))
        data = SStr([('n', v)])
    else:
        p.assume(Struct.is_leaf(s))
        t = Struct.text(s)
        p.assume(z3.Not(z3.InRe(t, CANON)))
        # leaves come from the parser / from token-producing mutators:
        # never the empty text (C15 checks the mutators)
        p.assume(z3.Length(t) > 0)
        data = sym.mk_str([('v', t)])
        if isinstance(data, str):
            pass
    obj.attrs['data'] = data
    return data


def leaf_struct(text):
    """Struct term of a leaf with the given (symbolic) text."""
    if isinstance(text, str):
        if is_canon(text):
            return Struct.num(z3.IntVal(int(text)))
        return Struct.leaf(z3.StringVal(text))
    if isinstance(text, SStr):
        n = text.single_numeral()
        if n is not None:
            return Struct.num(n)
        pre = text._concrete_prefix()
        if pre and not pre[0].isdigit():
            return Struct.leaf(text.z)
        if len(text.parts) == 1 and text.parts[0][0] == 'v':
            t = text.parts[0][1]
            # accessor of an expanded lazy leaf: known not to be canonical
            if t.decl().name() == 'text':
                return Struct.leaf(t)
        z = text.z
        return z3.If(z3.InRe(z, CANON), Struct.num(z3.StrToInt(z)),
                     Struct.leaf(z))
    raise Unsupported(f'leaf text of type {type(text).__name__}')


def S(obj):
    """Structural term of a node (ObjVal of class Node)."""
    if not isinstance(obj, ObjVal):
        raise Unsupported(f'S() of {type(obj).__name__}')
    if obj.tag is None:
        obj.tag = {}
    if 'S' in obj.tag:
        return obj.tag['S']
    d = obj.attrs.get('data')
    if isinstance(d, (str, SStr)):
        t = leaf_struct(d)
    elif isinstance(d, STuple):
        t = Struct.tup(d.seq_term())
    elif isinstance(d, (tuple, list)):
        if len(d) == 0:
            t = Struct.tup(z3.Empty(SeqS))
        else:
            units = [z3.Unit(S(c)) for c in d]
            t = Struct.tup(units[0] if len(units) == 1 else
                           z3.Concat(*units))
    else:
        raise Unsupported(f'S(): node data of type {type(d).__name__}')
    obj.tag['S'] = t
    return t


def S_of_value(eng, v):
    """Struct term of ``Node(v)`` coercions used by Node.__eq__."""
    if isinstance(v, ObjVal):
        return S(v)
    if isinstance(v, (str, SStr)):
        return leaf_struct(v)
    if isinstance(v, (int, SNum)) and not isinstance(v, bool):
        return leaf_struct(sym.to_str(v) if isinstance(v, SNum) else str(v))
    if isinstance(v, STuple):
        return Struct.tup(v.seq_term())
    if isinstance(v, tuple):
        if not v:
            return Struct.tup(z3.Empty(SeqS))
        units = [z3.Unit(S_of_value(eng, c)) for c in v]
        return Struct.tup(units[0] if len(units) == 1 else z3.Concat(*units))
    raise Unsupported(f'structure of {type(v).__name__}')


# ---------------------------------------------------------------------------
# engine integration


def install(eng):
    """Teach the engine about LazyData / STuple."""
    from pyvc import interp

    def node_attr(e, obj, name):
        return interp._MISSING

    # expansion on first access of .data
    orig_getattr = eng.getattr

    def getattr_(obj, name):
        o = force(obj)
        if isinstance(o, ObjVal) and name == 'data' and isinstance(
                o.attrs.get('data'), LazyData):
            return expand(eng, o)
        return orig_getattr(o, name)

    eng.getattr = getattr_

    eng.len_handlers[STuple] = lambda e, t: t.length()

    def st_getitem(e, t, key):
        if isinstance(key, slice):
            return st_slice(e, t, key)
        if isinstance(key, SNum):
            raise Unsupported('symbolic index into symbolic tuple')
        if not isinstance(key, int):
            raise PyRaise(TypeError('tuple indices must be integers'))
        ln = t.length()
        if key >= 0:
            if not e.truth(ln > key):
                raise PyRaise(IndexError('tuple index out of range'))
            return t.item(e, key)
        # negative index: enumerate the length up to the bound
        n = concretize_len(e, t)
        if -key > n:
            raise PyRaise(IndexError('tuple index out of range'))
        return t.item(e, n + key)

    def concretize_len(e, t):
        ln = t.length()
        if isinstance(ln, int):
            return ln
        for n in range(0, e.iter_bound + 1):
            if e.truth(ln == n):
                return n
        cur().bounded.append(
            f'symbolic tuple length enumerated up to {e.iter_bound}')
        raise PathAbort('length bound')

    def st_slice(e, t, sl):
        if sl.step not in (None, 1):
            raise Unsupported('tuple slice with step')
        lo, hi = sl.start, sl.stop
        if hi is None and isinstance(lo, int) and lo >= 0:
            return STuple(t.owner, t.start + lo)
        if hi is None and lo is None:
            return t
        n = concretize_len(e, t)
        idx = range(n)[slice(lo if not isinstance(lo, SNum) else None,
                             hi if not isinstance(hi, SNum) else None)]
        if isinstance(lo, SNum) or isinstance(hi, SNum):
            raise Unsupported('symbolic slice bounds on symbolic tuple')
        return tuple(t.item(e, i) for i in idx)

    eng.getitem_handlers[STuple] = st_getitem

    def st_iter(e, t):
        k = 0
        ln = t.length()
        while True:
            if not e.truth(ln > k):
                return
            if k >= e.iter_bound:
                cur().bounded.append(
                    f'children of a lazy node unrolled {e.iter_bound} times')
                raise PathAbort('iteration bound')
            yield t.item(e, k)
            k += 1

    eng.iter_handlers[STuple] = st_iter

    def st_reversed(e, t):
        n = concretize_len(e, t)
        return iter([t.item(e, i) for i in range(n - 1, -1, -1)])

    eng.reversed_handlers[STuple] = st_reversed
    eng.isinstance_handlers[STuple] = lambda e, t, c: (
        not isinstance(c, ClassVal)) and issubclass(tuple, c)
    eng.truth_handlers[STuple] = lambda e, t: e.truth(t.length() > 0)
    eng.isinstance_handlers[LazyData] = None
    del eng.isinstance_handlers[LazyData]

    def st_contains(e, t, item):
        for x in st_iter(e, t):
            if x is item or e.truth(e.eq(x, item)):
                return True
        return False

    eng.contains_handlers[STuple] = st_contains
    eng.concretize_len = concretize_len

    # tuple + STuple etc.
    import ast as _ast

    def st_add(e, op, a, b):
        xs = list(e.iterate(a)) + list(e.iterate(b))
        return tuple(xs)

    eng.binop_handlers[(_ast.Add, STuple)] = st_add
    eng.binop_handlers[(_ast.Add, None, STuple)] = st_add

    # hash of tuples holding nodes: structural
    return eng


def use_eq_contract(eng):
    """Replace Node.__eq__/__hash__ by their contract (structural equality,
    hash a function of the structure).  The real methods are verified
    against this contract by C12."""

    def node_eq(e, self, other):
        other = force(other)
        if other is None:
            return False
        if isinstance(other, ObjVal):
            if other.cls is not self.cls:
                return False
            if other is self:
                return True
            return mk_bool(S(self) == S(other))
        return mk_bool(S(self) == S_of_value(e, other))

    def node_hash(e, self):
        return SNum(NHASH(S(self)))

    eng.overrides['ddsmt.nodes.Node.__eq__'] = node_eq
    eng.overrides['ddsmt.nodes.Node.__hash__'] = node_hash


ASSUME_EQ_CONTRACT = ('Node.__eq__/__hash__ used through their contract: '
                      'a == b iff same shape and same leaf texts; hash is a '
                      'function of the structure (verified separately, C12)')
ASSUME_LAZY = ('input nodes are trees with pairwise distinct positive ids; '
               'leaf texts are non-empty; '
               'leaf texts: canonical decimal numerals are tracked as '
               'integers, all other texts as z3 strings; str.isdigit/int() '
               'modelled for ASCII digits')


# ---------------------------------------------------------------------------
# concrete-shape symbolic nodes (tier S) and helpers


def mk_leaf(eng, text):
    cls = node_class(eng)
    return eng.call(cls, [text], {})


def mk_node(eng, *children):
    cls = node_class(eng)
    return eng.call(cls, list(children), {})


def to_plain(obj, model=None):
    """Nested-list rendering of a concrete node (debug / replay)."""
    d = obj.attrs.get('data')
    if isinstance(d, str):
        return d
    if isinstance(d, SStr):
        return repr(d)
    if isinstance(d, (tuple, list)):
        return [to_plain(c) for c in d]
    return f'<{type(d).__name__}>'


def render(obj):
    d = obj.attrs.get('data')
    if isinstance(d, str):
        return d
    if isinstance(d, SStr):
        return '<' + repr(d) + '>'
    if isinstance(d, (tuple, list)):
        return '(' + ' '.join(render(c) for c in d) + ')'
    if isinstance(d, STuple):
        kids = obj.tag.get('kids', {})
        inner = ' '.join(render(kids[k]) if k in kids else '_'
                         for k in range(max(kids) + 1)) if kids else ''
        return '(' + inner + ' ...)'
    return '?'


# ---------------------------------------------------------------------------
# havocked lookup tables


class AbsDict:
    """A dictionary with arbitrary (unknown) contents: every query is
    answered nondeterministically but consistently along a path.  Sound
    over-approximation of any state of ddSMT's symbol tables."""

    def __init__(self, name, value_factory, key_kind='any'):
        self.name = name
        self.value_factory = value_factory
        self.memo = []  # (key, present: bool, value)
        self.stored = []  # keys stored by the code under verification

    def _lookup(self, eng, key):
        for ent in self.memo:
            k = ent[0]
            if k is key:
                return ent
            if isinstance(k, str) and isinstance(key, str) and k == key:
                return ent
        return None

    def contains(self, eng, key):
        key = force(key)
        ent = self._lookup(eng, key)
        if ent is None:
            present = cur().decide(cur().fresh_bool(f'{self.name}_has'))
            ent = [key, present, None]
            self.memo.append(ent)
        return ent[1]

    def get(self, eng, key):
        if not self.contains(eng, key):
            raise PyRaise(KeyError(repr(key)))
        ent = self._lookup(eng, force(key))
        if ent[2] is None:
            ent[2] = (self.value_factory(eng, cur()), )
        return ent[2][0]

    def set(self, eng, key, value):
        key = force(key)
        ent = self._lookup(eng, key)
        if ent is None:
            self.memo.append([key, True, (value, )])
        else:
            ent[1] = True
            ent[2] = (value, )
        self.stored.append((key, value))

    def __len__(self):
        raise Unsupported('len() of a havocked table')


class _Undescribed(sym.Abstract):
    """A value of a table whose values the model does not describe."""

    def __init__(self, name):
        self.name = name


class AbsSet:
    """A set with arbitrary contents (see AbsDict)."""

    def __init__(self, name):
        self.name = name
        self.memo = []

    def has(self, eng, x):
        x = force(x)
        for k, v in self.memo:
            if k is x:
                return v
        v = cur().decide(cur().fresh_bool(f'{self.name}_has'))
        self.memo.append((x, v))
        return v

    def add(self, eng, x):
        x = force(x)
        self.memo = [(k, v) for k, v in self.memo if k is not x]
        self.memo.append((x, True))


def install_abs(eng):
    from pyvc import interp
    eng.contains_handlers[AbsDict] = lambda e, d, k: d.contains(e, k)
    eng.getitem_handlers[AbsDict] = lambda e, d, k: d.get(e, k)
    eng.contains_handlers[AbsSet] = lambda e, s, x: s.has(e, x)

    orig_setitem = eng.setitem

    def setitem(obj, key, value):
        o = force(obj)
        if isinstance(o, AbsDict):
            o.set(eng, key, value)
            return
        orig_setitem(o, key, value)

    eng.setitem = setitem

    def absdict_attr(e, d, name):
        if name == 'setdefault':
            def f(k, df=None):
                if d.contains(e, k):
                    return d.get(e, k)
                d.set(e, k, df)
                return df
            return f
        if name == 'get':
            def g(k, df=None):
                if d.contains(e, k):
                    return d.get(e, k)
                return df
            return g
        if name == 'pop':
            _none = object()

            def pop(k, df=_none):
                if d.contains(e, k):
                    ent = d._lookup(e, force(k))
                    if ent[2] is None and d.value_factory is None:
                        # a table whose values this model does not describe:
                        # fine as long as the popped value is not looked at
                        val = _Undescribed(d.name)
                    else:
                        val = d.get(e, k)
                    ent[1], ent[2] = False, None
                    return val
                if df is _none:
                    raise PyRaise(KeyError(repr(force(k))))
                return df
            return pop
        if hasattr(dict, name):
            # a dict method this model does not cover: a gap of the model,
            # not an AttributeError of ddSMT
            raise Unsupported(f'havocked table: dict.{name} is not modelled')
        raise PyRaise(AttributeError(name))

    eng.getattr_handlers[AbsDict] = absdict_attr

    def absset_attr(e, s, name):
        if name == 'add':
            return lambda x: s.add(e, x)
        if hasattr(set, name):
            raise Unsupported(f'havocked set: set.{name} is not modelled')
        raise PyRaise(AttributeError(name))

    eng.getattr_handlers[AbsSet] = absset_attr


def _nonneg(p):
    v = p.fresh_int('selid')
    p.assume(v >= 0)
    return SNum(v)


def havoc_tables(eng, p, value_is_sort=True):
    """Put ddSMT's symbol tables into an arbitrary state."""
    sm = eng.load_module('ddsmt.smtlib')

    def sort_value(e, pp):
        # a table value: a sort term, or None (let-bound symbol whose sort
        # could not be inferred)
        return SOpt(pp.fresh_bool('tbl_none'), lazy_node(e, pp, 'tblsort'))

    def node_value(e, pp):
        return lazy_node(e, pp, 'tblnode')

    sm.g['__constants'] = AbsDict('constants', node_value)
    sm.g['__sort_lookup'] = AbsDict('sort_lookup', sort_value)
    sm.g['__definition_node_ids'] = AbsSet('defids')
    sm.g['__indices'] = AbsSet('indices')
    sm.g['__get_sort_cache'] = AbsDict('sortcache', sort_value)
    sm.g['__datatypes_constructors'] = AbsDict('dtcons', node_value)
    sm.g['__datatypes_constants'] = AbsDict(
        'dtconsts', lambda e, pp: [lazy_node(e, pp, 'dtc')])
    sm.g['__datatypes_selectors'] = AbsDict(
        'dtsel', lambda e, pp: (lazy_node(e, pp, 'selc'), _nonneg(pp)))
    sm.g['__defined_functions'] = AbsDict('deffuns', None)
    return sm
