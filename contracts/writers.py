"""Unbounded contracts for the explicit-stack renderers of ddsmt.nodeio
(C07 token preservation for every tree, C04 exception freedom).

Specification (structural recursion over s-expressions, tokens are
``lp | rp | atom(leaf)``):

    FLAT(leaf)   = [atom(leaf)]
    FLAT(tup ks) = [lp] ++ FLATL(ks) ++ [rp]
    FLATL([]) = [],  FLATL(x . r) = FLAT(x) ++ FLATL(r)

The file is a ghost: the sequence of tokens written so far (white space
dropped), whether the last character written belongs to an atom, and whether
a comment atom still waits for its line end.  Every ``write`` is decomposed
into literal characters (blank, newline, parentheses -- anything else is a
violation) and leaf texts (which must be the text of a leaf of the input,
recognised by its z3 term).
"""
import z3

from pyvc import sym
from pyvc.api import Contract as _Contract


def Contract(*a, **k):
    # what is written to the output file is what C01 speaks about, too
    k.setdefault('also', {'C07': ('C01', )})
    return _Contract(*a, **k)
from pyvc.interp import LoopSpec, ObjVal, PyRaise
from pyvc.sym import SStr, mk_bool, cur
from . import env as envmod
from . import nodemodel as nm
from . import worklist as wl

Struct, SeqS = nm.Struct, nm.SeqS
Tok = z3.Datatype('Tok')
Tok.declare('lp')
Tok.declare('rp')
Tok.declare('atom', ('of', Struct))
Tok = Tok.create()
SeqT = z3.SeqSort(Tok)
FLAT = z3.Function('FLAT', Struct, SeqT)
FLATL = z3.Function('FLATL', SeqS, SeqT)
REVSEQ = z3.Function('REVSEQ', SeqS, SeqS)  # reversal (uninterpreted)

W = 'ddsmt.nodeio.__write_smtlib'
WW = 'ddsmt.nodeio.__write_smtlib_wrapped'


def unfold_flat(p, s):
    p.assume(FLAT(s) == z3.If(
        Struct.is_tup(s),
        z3.Concat(z3.Unit(Tok.lp), FLATL(Struct.kids(s)), z3.Unit(Tok.rp)),
        z3.Unit(Tok.atom(s))))


class GhostFile(sym.Abstract):
    """File object whose content is kept as a token sequence."""

    def __init__(self, p, prefix):
        self.prefix = prefix
        self.toks = z3.Empty(SeqT)
        self.last_atom = z3.BoolVal(False)
        self.pending = z3.BoolVal(False)  # a comment waits for its newline
        self.track_comments = True
        self.bad = []

    def havoc(self, p):
        self.toks = z3.Const(p.fresh_name('O'), SeqT)
        self.last_atom = p.fresh_bool('last_atom')
        self.pending = z3.BoolVal(False)

    def _char(self, p, ch):
        N = self.prefix
        p.oblige(f'{N}/comment-is-followed-by-a-line-end',
                 mk_bool(z3.Implies(self.pending, z3.BoolVal(ch == '\n'))),
                 info={'signature': 'a comment is not terminated before the '
                       'next character is written'})
        self.pending = z3.BoolVal(False)
        if ch in ' \n':
            self.last_atom = z3.BoolVal(False)
        elif ch == '(':
            self.toks = z3.Concat(self.toks, z3.Unit(Tok.lp))
            self.last_atom = z3.BoolVal(False)
        elif ch == ')':
            self.toks = z3.Concat(self.toks, z3.Unit(Tok.rp))
            self.last_atom = z3.BoolVal(False)
        else:
            self.bad.append(ch)

    def _leaf(self, p, part):
        N = self.prefix
        kind, t = part
        s = None
        if kind == 'v' and z3.is_app(t) and t.decl().name() == 'text':
            s = t.arg(0)
            is_comment = z3.PrefixOf(z3.StringVal(';'), t)
        elif kind == 'n' and z3.is_app(t) and t.decl().name() == 'numval':
            s = t.arg(0)
            is_comment = z3.BoolVal(False)
        if s is None:
            self.bad.append(repr(part))
            return
        p.oblige(f'{N}/adjacent-tokens-are-separated',
                 mk_bool(z3.And(z3.Not(self.last_atom),
                                z3.Not(self.pending))),
                 info={'signature': 'two tokens written without white space '
                       'between them'})
        self.toks = z3.Concat(self.toks, z3.Unit(Tok.atom(s)))
        self.last_atom = z3.BoolVal(True)
        self.pending = is_comment if self.track_comments else \
            z3.BoolVal(False)

    def write(self, s):
        p = cur()
        if isinstance(s, str):
            parts = [('c', s)] if s else []
        elif isinstance(s, SStr):
            parts = list(s.parts)
        else:
            raise PyRaise(TypeError('write() argument must be str'))
        for part in parts:
            if part[0] == 'c':
                for ch in part[1]:
                    self._char(p, ch)
            else:
                self._leaf(p, part)
        p.oblige(f'{self.prefix}/writes-only-tokens-blanks-and-parentheses',
                 not self.bad, info={'other': self.bad[:5], 'signature':
                                     'something that is neither a token of '
                                     'the input nor white space is written'})
        return 0


def setup(eng):
    wl.pre_install(eng)
    eng._ns = envmod.static_options(eng)
    nm.install(eng)
    wl.install(eng)
    eng.spec_required.add(W)
    eng.spec_required.add(WW)


def install_loop(eng, fn, extra_havoc=(), filevar='file', itemvar='ex',
                 prefix=None):
    """LoopSpec of ``while visit`` in one of the two stack renderers."""

    def item_den(it):
        if it is None:
            return z3.Unit(Tok.rp)
        if isinstance(it, ObjVal) and it.cls is nm.node_class(eng):
            return FLAT(nm.S(it))
        raise sym.Unsupported('work-list item that is neither a node nor '
                              'the closing marker')

    def den(lst):
        out = []
        for part in reversed(lst.parts):
            if isinstance(part, tuple):
                out.append(item_den(part[1]))
            elif isinstance(part, wl.Seg):
                g = nm.lazy_node(eng, cur(), cur().fresh_name('probe'))
                if (part.wrap(g) if part.wrap else g) is not g:
                    raise sym.Unsupported('work-list items are not nodes')
                out.append(FLATL(part.seq if part.rev
                                 else REVSEQ(part.seq)))
            else:
                out.append(part.den)
        if not out:
            return z3.Empty(SeqT)
        return out[0] if len(out) == 1 else z3.Concat(*out)

    def split(e, D):
        p = cur()
        rest = z3.Const(p.fresh_name('D'), SeqT)
        if p.decide(p.fresh_bool('item_is_closing_marker')):
            p.assume(D == z3.Concat(z3.Unit(Tok.rp), rest))
            return None, rest
        n = nm.lazy_node(e, p, p.fresh_name('popped'))
        p.assume(D == z3.Concat(FLAT(nm.S(n)), rest))
        unfold_flat(p, nm.S(n))
        return n, rest

    def havoc(e, env_, p):
        D = z3.Const(p.fresh_name('D'), SeqT)
        env_.vars['visit'] = wl.AbsList(e, [wl.Opaque(
            D, split, lambda d: z3.Length(d) > 0)])
        env_.vars['needs_space'] = sym.mk_bool(p.fresh_bool('needs_space'))
        for nm_ in extra_havoc:
            env_.vars[nm_] = sym.SNum(p.fresh_int(nm_))
        f = as_ghost(p, env_.vars[filevar], prefix)
        env_.vars[filevar] = f
        f.havoc(p)

    def inv(e, env_):
        p = cur()
        v = env_.vars['visit']
        f = as_ghost(p, env_.vars[filevar], prefix)
        if isinstance(v, list):
            v = wl.as_abs(e, v)
        if not isinstance(v, wl.AbsList) or not isinstance(f, GhostFile):
            return [False]
        ns = env_.vars['needs_space']
        return [('C07', z3.Concat(f.toks, den(v)) == p.ghost['target']),
                # auxiliary (talks about a local of the renderer)
                z3.Implies(f.last_atom, sym.zbool(ns)),
                ('C07', z3.Not(f.pending))]

    def covers(e, env_, p):
        x = env_.vars.get(itemvar)
        what = 'closing-marker' if x is None else (
            'leaf' if isinstance(x.attrs.get('data'), (str, SStr))
            else 'list')
        p.oblige(f'cover/{fn.split(".")[-1]}/writes-a-{what}', False,
                 kind='cover')

    eng.loop_specs[(fn, 'while visit')] = LoopSpec(
        inv=inv, havoc={'effect:state': havoc},
        sets=('visit', 'needs_space', filevar) + tuple(extra_havoc),
        on_iter_end=covers)


def as_ghost(p, f, prefix):
    """The list of pieces of Node.__str__ as a ghost file."""
    if isinstance(f, list):
        g = GhostParts(p, prefix)
        for piece in f:
            g.write(piece)
        return g
    return f


class GhostParts(GhostFile):
    """``parts = []; parts.append(piece); ''.join(parts)`` -- str(node)
    renders tokens; ending a comment is the business of the renderers (a
    comment inside a list carries its line break)."""

    def __init__(self, p, prefix):
        GhostFile.__init__(self, p, prefix)
        self.track_comments = False

    def append(self, s):
        self.write(s)


def setup_w(eng):
    setup(eng)
    install_loop(eng, W)


def setup_ww(eng):
    setup(eng)
    sym.ABSTRACT_METRICS[0] = True
    install_loop(eng, WW, extra_havoc=('col', ))


def make_run(fname, label):

    def run(eng, p):
        nodeio = eng.load_module('ddsmt.nodeio')
        n = nm.lazy_node(eng, p, 'root')
        p.ghost['target'] = FLAT(nm.S(n))
        unfold_flat(p, nm.S(n))
        N = f'C07/{label}'
        f = GhostFile(p, N)
        err = None
        try:
            eng.call(nodeio.g[fname], [f, n], {})
        except PyRaise as ex:
            err = ex
        p.oblige(f'C04/{label}/raises-nothing', err is None,
                 info={'outcome': repr(err.value) if err else '',
                       'signature': type(err.value).__name__ if err else ''})
        if err is None:
            p.oblige(f'{N}/writes-exactly-the-tokens-of-the-tree-in-order',
                     mk_bool(f.toks == FLAT(nm.S(n))),
                     info={'signature': 'the rendering does not consist of '
                           'the tokens of the tree, each once, in order'})
            p.oblige(f'{N}/no-comment-left-unterminated',
                     mk_bool(z3.Not(f.pending)))

    return run


def contracts(tier):
    A = ['specification functions FLAT/FLATL are uninterpreted; their '
         'defining equations are instantiated for the node taken from the '
         'work list', 'work lists are abstract lists (contracts/worklist.py)',
         nm.ASSUME_LAZY, 'the file object is a ghost (token sequence, last '
         'character class); leaf texts are recognised by their z3 term']
    rp = wl.harness_replay('harness/parser_native.py', ['render', 4],
                           ['C07'])
    return [
        Contract('__write_smtlib', [W],
                 make_run('__write_smtlib', '__write_smtlib'), setup=setup_w,
                 assumptions=A, replay=rp),
        Contract('__write_smtlib_wrapped', [WW],
                 make_run('__write_smtlib_wrapped', '__write_smtlib_wrapped'),
                 setup=setup_ww, replay=rp, assumptions=A + [
                     'len()/rfind() of a token are arbitrary integers '
                     '(over-approximation of the column bookkeeping)']),
    ] + pretty_contracts(tier) + top_contracts(tier)


# ---------------------------------------------------------------------------
# write_smtlib / write_smtlib_for_checking over a whole list of expressions:
# the per-tree renderers through their contract (verified above)

WS_ = 'ddsmt.nodeio.write_smtlib'
WC = 'ddsmt.nodeio.write_smtlib_for_checking'


class Rendered(SStr):
    """The string returned by __write_smtlib_str(expr): opaque text that
    consists of the tokens FLAT(expr)."""
    __slots__ = ('toks', 'last_atom', 'node')

    def __init__(self, p, toks, last_atom, node=None):
        SStr.__init__(self, [('v', p.fresh_str('rendered'))])
        self.toks = toks
        self.last_atom = last_atom
        self.node = node


def _ghost_write_rendered(self, p, r):
    N = self.prefix
    p.oblige(f'{N}/adjacent-tokens-are-separated',
             mk_bool(z3.And(z3.Not(self.last_atom), z3.Not(self.pending))),
             info={'signature': 'an expression is written directly after a '
                   'token / an unterminated comment'})
    self.toks = z3.Concat(self.toks, r.toks)
    self.last_atom = r.last_atom
    self.pending = z3.BoolVal(False)


_write0 = GhostFile.write


def _write(self, s):
    if isinstance(s, Rendered):
        _ghost_write_rendered(self, cur(), s)
        return 0
    return _write0(self, s)


GhostFile.write = _write
GhostFile.getvalue = lambda self: Rendered(cur(), self.toks, self.last_atom)
GhostFile.__enter__ = lambda self: self
GhostFile.__exit__ = lambda self, *a: False
GhostFile.close = lambda self: None


def setup_top(eng, mode):
    import types
    setup(eng)
    eng._ns.pretty_print = mode == 'pretty'
    eng._ns.wrap_lines = mode == 'wrap'
    N = 'C07/write_smtlib'
    holder = {}
    eng._holder = holder

    def tree_writer(e, file, expr):
        # contract of __write_smtlib / __write_smtlib_wrapped (verified by
        # the contracts '__write_smtlib', '__write_smtlib_wrapped')
        p = cur()
        if not isinstance(file, GhostFile):
            raise sym.Unsupported('renderer called on something else than '
                                  'the file object')
        p.oblige(f'{N}/expression-starts-after-white-space',
                 mk_bool(z3.And(z3.Not(file.last_atom),
                                z3.Not(file.pending))),
                 info={'signature': 'an expression is written directly '
                       'after a token'})
        file.toks = z3.Concat(file.toks, FLAT(nm.S(expr)))
        file.last_atom = p.fresh_bool('last_atom_after_tree')
        file.pending = z3.BoolVal(False)

    def pretty_writer(e, file, expr):
        # contract of __write_smtlib_pretty: every line it writes is ended
        tree_writer(e, file, expr)
        file.last_atom = z3.BoolVal(False)

    eng.overrides[W] = tree_writer
    eng.overrides[WW] = tree_writer
    eng.overrides['ddsmt.nodeio.__write_smtlib_pretty'] = pretty_writer
    eng.native_modules['io'] = types.SimpleNamespace(
        StringIO=lambda: GhostFile(cur(), N))
    def open_(e, path, mode='r', *a, **k):
        f = GhostFile(cur(), N)
        cur().ghost['file'] = f
        return f

    eng.native_handlers[open] = open_

    def flatl_unfold(p, rest, s, rest2):
        p.assume(rest == z3.Concat(z3.Unit(s), rest2))
        p.assume(FLATL(rest) == z3.Concat(FLAT(s), FLATL(rest2)))

    def the_file(env_):
        f = env_.vars.get('file')
        return f if isinstance(f, GhostFile) else None

    def for_spec(rendered):

        def on_entry(e, env_, p):
            it = env_.vars['__iter__']
            ok = isinstance(it, wl.AbsList) and len(it.parts) == 1 and \
                isinstance(it.parts[0], wl.Seg) and not it.parts[0].rev and \
                z3.eq(it.parts[0].seq, p.ghost['F'])
            if ok and rendered:
                g = nm.lazy_node(e, p, p.fresh_name('probe'))
                w = it.parts[0].wrap(g) if it.parts[0].wrap else g
                ok = isinstance(w, Rendered) and z3.is_true(z3.simplify(
                    w.toks == FLAT(nm.S(g))))
            elif ok:
                ok = it.parts[0].wrap is None
            p.oblige(f'{N}/iterates-over-the-expressions-in-order', ok,
                     info={'signature': 'the renderer does not walk over the '
                           'list of expressions in order'})
            if not ok:
                raise sym.PathAbort('unexpected iterable')
            p.ghost['rest'] = p.ghost['F']

        def havoc(e, env_, p):
            the_file(env_).havoc(p)
            p.ghost['rest'] = z3.Const(p.fresh_name('rest'), SeqS)

        def inv(e, env_):
            p = cur()
            f = the_file(env_)
            if f is None:
                return [False]
            return [('C07', z3.Concat(f.toks, FLATL(p.ghost['rest'])) ==
                     FLATL(p.ghost['F'])),
                    ('C07', z3.And(z3.Not(f.last_atom), z3.Not(f.pending)))]

        def elem(e, env_, p):
            n = nm.lazy_node(e, p, p.fresh_name('expr'))
            rest2 = z3.Const(p.fresh_name('rest'), SeqS)
            flatl_unfold(p, p.ghost['rest'], nm.S(n), rest2)
            p.ghost['rest'] = rest2
            if rendered:
                return Rendered(p, FLAT(nm.S(n)), p.fresh_bool('ends_atom'))
            return n

        def exhausted(e, env_, p):
            p.assume(p.ghost['rest'] == z3.Empty(SeqS))
            p.assume(FLATL(z3.Empty(SeqS)) == z3.Empty(SeqT))

        return LoopSpec(inv=inv, havoc={'effect:file': havoc}, elem=elem,
                        exhausted=exhausted, on_entry=on_entry)

    eng.loop_specs[(WS_, 'for expr in exprs')] = for_spec(False)
    eng.loop_specs[(WS_, 'for expr in exprs#2')] = for_spec(False)
    eng.loop_specs[(WS_, 'for line in lines')] = for_spec(True)
    eng.loop_specs[(WC, 'for expr in exprs')] = for_spec(False)
    eng.spec_required.add(WS_)
    eng.spec_required.add(WC)


def make_run_top(mode):

    def run(eng, p):
        nodeio = eng.load_module('ddsmt.nodeio')
        forest, F = wl.forest(eng, p)
        p.ghost['F'] = F
        p.assume(FLATL(z3.Empty(SeqS)) == z3.Empty(SeqT))
        N = 'C07/write_smtlib'
        err = None
        try:
            if mode == 'checking':
                eng.call(nodeio.g['write_smtlib_for_checking'],
                         ['/tmp/x.smt2', forest], {})
                f = p.ghost.get('file')
            else:
                f = GhostFile(p, N)
                eng.call(nodeio.g['write_smtlib'], [f, forest], {})
        except PyRaise as ex:
            err = ex
        p.oblige(f'C04/write_smtlib[{mode}]/raises-nothing', err is None,
                 info={'outcome': repr(err.value) if err else '',
                       'signature': type(err.value).__name__ if err else ''})
        if err is None:
            p.oblige(f'{N}[{mode}]/writes-exactly-the-tokens-of-all-'
                     'expressions-in-order',
                     isinstance(f, GhostFile) and mk_bool(
                         f.toks == FLATL(F)),
                     info={'signature': 'the rendering does not consist of '
                           'the tokens of the input, each once, in order'})

    return run


def top_contracts(tier):
    A = ['__write_smtlib / __write_smtlib_wrapped / __write_smtlib_pretty '
         'through their contracts (verified by the contracts of the same '
         'name)',
         'FLATL unfolded from the front for the expression taken next',
         'the list of expressions is an abstract list of arbitrary length',
         'io.StringIO / open() give the ghost file']
    rp = wl.harness_replay('harness/parser_native.py', ['render', 4],
                           ['C07'])
    cs = []
    for mode in ('default', 'wrap', 'pretty', 'checking'):
        cs.append(Contract(
            f'write_smtlib[{mode}]',
            [WC if mode == 'checking' else WS_,
             'ddsmt.nodeio.__write_smtlib_str'],
            make_run_top(mode),
            setup=lambda e, mode=mode: setup_top(e, mode), assumptions=A,
            replay=rp))
    return cs


# ---------------------------------------------------------------------------
# __write_smtlib_pretty: (node, visited) work list, indentation, the
# all-leaves shortcut through Node.__str__

WP = 'ddsmt.nodeio.__write_smtlib_pretty'
NS = 'ddsmt.nodes.Node.__str__'
ALLLEAF = z3.Function('ALLLEAF', SeqS, z3.BoolSort())


class Blank(SStr):
    """A string of blanks of unknown length (the indentation)."""
    __slots__ = ()

    def __init__(self, p):
        v = p.fresh_str('indent')
        SStr.__init__(self, [('v', v)])
        p.ghost.setdefault('blank_vars', set()).add(str(v))

    def getitem(self, key):
        if isinstance(key, slice):
            return Blank(cur())  # a piece of a blank string is blank
        raise sym.Unsupported('character of the indentation')


class AbsMapST(sym.Abstract):
    """map(f, children of a lazy node)"""

    def __init__(self, f, t):
        self.f, self.t = f, t


def _is_blank_part(p, part):
    return part[0] == 'v' and str(part[1]) in p.ghost.get('blank_vars', ())


_leaf0 = GhostFile._leaf


def _leaf(self, p, part):
    if _is_blank_part(p, part):
        # possibly empty: separates nothing, terminates nothing
        return
    reg = p.ghost.get('rendered', {})
    if part[0] == 'v' and str(part[1]) in reg:
        _ghost_write_rendered(self, p, reg[str(part[1])])
        return
    _leaf0(self, p, part)


GhostFile._leaf = _leaf


def setup_wp(eng):
    setup(eng)
    eng.spec_required.add(WP)
    from pyvc.interp import _hkey
    map0 = eng.native_handlers[_hkey(map)]
    all0 = eng.native_handlers[_hkey(all)]
    join0 = eng.method_handlers[(str, 'join')]

    def b_map(e, f, *its):
        if len(its) == 1 and isinstance(its[0], nm.STuple):
            return AbsMapST(f, its[0])
        return map0(e, f, *its)

    def probe(e, kind):
        p = cur()
        g = nm.lazy_node(e, p, p.fresh_name('probe'))
        s = nm.S(g)
        p.assume(Struct.is_tup(s) if kind == 'list' else z3.Not(
            Struct.is_tup(s)))
        return g

    def b_all(e, it):
        if isinstance(it, wl.AbsList) and len(it.parts) == 1 and isinstance(
                it.parts[0], wl.Seg) and it.parts[0].cond is None and \
                it.parts[0].wrap is not None:
            # all(pred(child) for child in node.data)
            sg = it.parts[0]
            a = e.truth(sg.wrap(probe(e, 'leaf')))
            b = e.truth(sg.wrap(probe(e, 'list')))
            if not (a is True and b is False):
                raise sym.Unsupported('all(pred(c) for c in children) with '
                                      'a predicate other than is_leaf')
            return cur().decide(ALLLEAF(sg.seq))
        if isinstance(it, AbsMapST):
            # the predicate must be "is a leaf": true on an arbitrary leaf,
            # false on an arbitrary list
            a = e.truth(e.call(it.f, [probe(e, 'leaf')], {}))
            b = e.truth(e.call(it.f, [probe(e, 'list')], {}))
            if not (a is True and b is False):
                raise sym.Unsupported('all(map(pred, children)) with a '
                                      'predicate other than is_leaf')
            return cur().decide(ALLLEAF(it.t.seq_term()))
        return all0(e, it)

    def str_join(e, sep, it):
        return join0(e, sep, it)

    # Node.__str__ through its contract (verified: contract Node.__str__)
    def node_str(e, node):
        p = cur()
        if isinstance(e.getattr(node, 'data'), (str, SStr)):
            return node.attrs['data']
        r = Rendered(p, FLAT(nm.S(node)), z3.BoolVal(False))
        p.ghost.setdefault('rendered', {})[str(r.parts[0][1])] = r
        return r

    eng.overrides[NS] = node_str

    eng.native_handlers[_hkey(map)] = b_map
    eng.native_handlers[_hkey(all)] = b_all
    eng.method_handlers[(str, 'join')] = str_join

    def item_den(it):
        if isinstance(it, tuple) and len(it) == 2 and isinstance(
                it[0], ObjVal) and isinstance(it[1], bool):
            return z3.Unit(Tok.rp) if it[1] else FLAT(nm.S(it[0]))
        raise sym.Unsupported('work-list item that is not (node, visited)')

    def den(lst):
        out = []
        for part in reversed(lst.parts):
            if isinstance(part, tuple):
                out.append(item_den(part[1]))
            elif isinstance(part, wl.Seg):
                g = nm.lazy_node(eng, cur(), cur().fresh_name('probe'))
                w = part.wrap(g) if part.wrap else None
                if not (isinstance(w, tuple) and len(w) == 2 and w[0] is g
                        and w[1] is False):
                    raise sym.Unsupported('work-list items are not '
                                          '(node, False)')
                out.append(FLATL(part.seq if part.rev
                                 else REVSEQ(part.seq)))
            else:
                out.append(part.den)
        if not out:
            return z3.Empty(SeqT)
        return out[0] if len(out) == 1 else z3.Concat(*out)

    def split(e, D):
        p = cur()
        rest = z3.Const(p.fresh_name('D'), SeqT)
        n = nm.lazy_node(e, p, p.fresh_name('popped'))
        s = nm.S(n)
        if p.decide(p.fresh_bool('item_is_visited_marker')):
            p.assume(Struct.is_tup(s))
            p.assume(D == z3.Concat(z3.Unit(Tok.rp), rest))
            return (n, True), rest
        p.assume(D == z3.Concat(FLAT(s), rest))
        unfold_flat(p, s)
        # FLATL unfolded at the front (used when the head is written alone)
        k = Struct.kids(s)
        p.assume(z3.Implies(
            z3.And(Struct.is_tup(s), z3.Length(k) > 0),
            FLATL(k) == z3.Concat(FLAT(k[0]), FLATL(
                z3.SubSeq(k, 1, z3.Length(k) - 1)))))
        p.assume(z3.Implies(z3.And(Struct.is_tup(s), z3.Length(k) > 0,
                                   z3.Not(Struct.is_tup(k[0]))),
                            FLAT(k[0]) == z3.Unit(Tok.atom(k[0]))))
        return (n, False), rest

    def havoc(e, env_, p):
        D = z3.Const(p.fresh_name('D'), SeqT)
        env_.vars['visit'] = wl.AbsList(e, [wl.Opaque(
            D, split, lambda d: z3.Length(d) > 0)])
        env_.vars['indent'] = Blank(p)
        env_.vars['file'].havoc(p)

    def blank(p, v):
        if isinstance(v, str):
            return v.strip(' ') == ''
        return isinstance(v, SStr) and all(
            (k == 'c' and x.strip(' ') == '') or _is_blank_part(p, (k, x))
            for k, x in v.parts)

    def inv(e, env_):
        p = cur()
        v = env_.vars['visit']
        f = env_.vars['file']
        if isinstance(v, list):
            v = wl.as_abs(e, v)
        if not isinstance(v, wl.AbsList) or not isinstance(f, GhostFile):
            return [False]
        return [('C07', z3.Concat(f.toks, den(v)) == p.ghost['target']),
                ('C07', z3.Not(f.pending)),
                ('C07', z3.Not(f.last_atom)),
                blank(p, env_.vars['indent'])]

    def covers(e, env_, p):
        x = env_.vars.get('ex')
        what = 'visited-marker' if env_.vars.get('visited') is True else (
            'leaf' if isinstance(x.attrs.get('data'), (str, SStr))
            else 'list')
        p.oblige(f'cover/__write_smtlib_pretty/writes-a-{what}', False,
                 kind='cover')

    eng.loop_specs[(WP, 'while visit')] = LoopSpec(
        inv=inv, havoc={'effect:state': havoc}, sets=('visit', 'indent'),
        on_iter_end=covers)


def setup_ns(eng):
    setup(eng)
    eng.spec_required.add(NS)
    install_loop(eng, NS, filevar='parts', itemvar='cur',
                 prefix='C07/Node.__str__')
    join0 = eng.method_handlers[(str, 'join')]

    def str_join(e, sep, it):
        if isinstance(it, list) and sep == '':
            it = as_ghost(cur(), it, 'C07/Node.__str__')
        if isinstance(it, GhostParts):
            if sep != '':
                raise sym.Unsupported('join of the pieces with a separator')
            return it.getvalue()
        return join0(e, sep, it)

    eng.method_handlers[(str, 'join')] = str_join


def run_ns(eng, p):
    n = nm.lazy_node(eng, p, 'root')
    p.ghost['target'] = FLAT(nm.S(n))
    unfold_flat(p, nm.S(n))
    cls = nm.node_class(eng)
    f, _ = cls.lookup('__str__')
    err = None
    r = None
    try:
        r = eng.call(f, [n], {})
    except PyRaise as ex:
        err = ex
    p.oblige('C04/Node.__str__/raises-nothing', err is None,
             info={'outcome': repr(err.value) if err else '',
                   'signature': type(err.value).__name__ if err else ''})
    if err is None:
        p.oblige('C07/Node.__str__/renders-exactly-the-tokens-of-the-tree',
                 isinstance(r, Rendered) and mk_bool(
                     r.toks == FLAT(nm.S(n))),
                 info={'signature': 'str(node) does not consist of the '
                       'tokens of the node, each once, in order'})


def pretty_contracts(tier):
    A = ['specification functions FLAT/FLATL uninterpreted, unfolded for the '
         'node taken from the work list (FLATL also at its first element)',
         'work lists are abstract lists (contracts/worklist.py)',
         nm.ASSUME_LAZY, 'the file object is a ghost',
         'the indentation is a string of blanks of unknown length',
         'Node.__str__ through its contract (verified: contract '
         'Node.__str__); a comment inside a list ends with its line break']
    rp = wl.harness_replay('harness/parser_native.py', ['render', 4],
                           ['C07'])
    return [
        Contract('Node.__str__', [NS], run_ns, setup=setup_ns,
                 assumptions=A[:4], replay=rp),
        Contract('__write_smtlib_pretty', [WP],
                 make_run('__write_smtlib_pretty', '__write_smtlib_pretty'),
                 setup=setup_wp, assumptions=A, replay=rp),
    ]
