"""Per-mutator contracts on lazy symbolic nodes (shared by C15, C03, C04).

For every mutator class that has a ``mutations`` method, the real ``filter``
and ``mutations`` run on an arbitrary node (lazy symbolic tree, havocked
symbol tables, get_sort/get_bv_width through their contract).  For every
proposal delivered:

* ``C15/<M>/ids-in-input`` -- every identity key is the id of the node or of
  one of its (materialised) descendants;
* ``C03/<M>/no-op-free`` -- the replacement of the node itself is a deletion
  or structurally different from the node (a proposal that leaves the input
  unchanged is a one-step cycle);
* ``C15/<M>/proposal-is-a-Simplification``;
* ``C15/<M>/new-leaves-are-single-tokens`` -- every leaf the mutator creates
  is exactly one lexeme (token, string literal or quoted symbol): concrete
  texts through the reference lexer, symbolic ones (built from leaf texts of
  the input and numerals) by z3 over the lexeme regular expression, given
  that the input's leaf texts are lexemes; numerals abstracted to digit
  strings.

Loops over the children of the node are unrolled (6): obligations on such
paths are labelled bounded.
"""
import os

import z3

from pyvc import mk, sym
from pyvc.api import Contract, outcome
from pyvc.interp import ObjVal, PyRaise, SymDict
from pyvc.sym import SNum, SStr, SOpt, mk_bool, cur
from . import env, nodemodel as nm
from . import c04

# (module suffix, class) -- mutators whose proposals come from mutations().
# Not in the list (the engine does not finish them within the budget or meets
# an unsupported construct -- iteration over a symbolic string, symbolic
# index): Constants, SortChildren, MergeWithChildren, BVElimBVComp,
# BVIteToBVComp, BVZeroExtendPredicate, BVExtractZeroExtend, BvMergeExtend,
# BVConcatToZeroExtend, RemoveConstructor,
# RemoveDatatypeIdentity; they are covered by the corpus-bounded check (and
# the rewriting ones by C17's schemas).
MUTATORS = [
    ('core', 'EraseNode'),
    ('core', 'ReplaceByChild'),
    ('smtlib', 'CheckSatAssuming'), ('smtlib', 'LetElimination'),
    ('smtlib', 'RemoveAnnotation'), ('smtlib', 'RemoveRecursiveFunction'),
    ('smtlib', 'SimplifyQuotedSymbols'),
    # tried and outside the reach of this engine (bounded native corpus only):
    # SimplifyLogic needs str.replace (all occurrences) on a symbolic name,
    # SimplifySymbolNames explodes in paths (flattened datatype declarations
    # x slices of the symbol text; no verdict within 15 minutes)
    ('boolean', 'BoolDeMorgan'), ('boolean', 'BoolDoubleNegation'),
    ('boolean', 'BoolEliminateFalseEquality'),
    ('boolean', 'BoolEliminateImplication'),
    ('boolean', 'BoolNegateQuantifier'), ('boolean', 'BoolXOREliminateBinary'),
    ('boolean', 'BoolXORRemoveConstant'),
    ('arithmetic', 'ArithmeticNegateRelation'),
    ('arithmetic', 'ArithmeticSplitNaryRelation'),
    ('arithmetic', 'ArithmeticStrengthenRelation'),
    ('bv', 'BVDoubleNegation'),
    ('bv', 'BVReflexiveNand'), ('bv', 'BVTransformToBool'),
    
    
    
    ('datatypes', 'RemoveDatatype'),
    
    ('fp', 'FPShortSort'),
    ('strings', 'SeqNthUnit'), ('strings', 'StringReplaceAll'),
    ('strings', 'StringIndexOfNotFound'),
]

# no-op freedom is decided by z3 for these (structural inequality over the
# Struct datatype with a size function); for the others the obligation is
# covered by the bounded native check only
NOOP_FREE = {
    'EraseNode', 'CheckSatAssuming', 'LetElimination', 'RemoveAnnotation',
    'BoolDeMorgan', 'BoolDoubleNegation', 'BoolNegateQuantifier',
    'BoolXOREliminateBinary', 'ArithmeticNegateRelation',
    'ArithmeticSplitNaryRelation', 'ArithmeticStrengthenRelation',
    'BVDoubleNegation', 'BVIteToBVComp', 'BVReflexiveNand',
    'RemoveDatatypeIdentity', 'FPShortSort', 'SeqNthUnit',
    'StringReplaceAll', 'StringIndexOfNotFound', 'ReplaceByChild',
    'BVElimBVComp', 'BoolEliminateImplication',
}


def setup(eng):
    c04.setup_nodes(eng)
    nm.install_abs(eng)
    c04.get_sort_contract(eng)
    env.static_options(eng, replace_by_variable_mode='inc')
    eng.iter_bound = 4


def _re_chars(cs):
    rs = [z3.Re(z3.StringVal(c)) for c in cs]
    return rs[0] if len(rs) == 1 else z3.Union(*rs)


_ALL = z3.AllChar(z3.ReSort(z3.StringSort()))
_TOK = z3.Plus(z3.Diff(_ALL, _re_chars(' \t\n\r()";|')))
_STR = z3.Concat(z3.Re(z3.StringVal('"')), z3.Star(z3.Union(
    z3.Diff(_ALL, z3.Re(z3.StringVal('"'))), z3.Re(z3.StringVal('""')))),
    z3.Re(z3.StringVal('"')))
_QSYM = z3.Concat(z3.Re(z3.StringVal('|')), z3.Star(
    z3.Diff(_ALL, z3.Re(z3.StringVal('|')))), z3.Re(z3.StringVal('|')))
LEXEME = z3.Union(_TOK, _STR, _QSYM)
# what the parser returns as a leaf: a lexeme, or a comment with its line
# break (C07/C08: ';' up to and including the first line break)
_NL = _re_chars('\n\r')
_COMMENT = z3.Concat(z3.Re(z3.StringVal(';')), z3.Star(z3.Diff(_ALL, _NL)),
                     _NL)
INPUT_LEAF = z3.Union(LEXEME, _COMMENT)
_DIGITS = z3.Plus(z3.Range('0', '9'))


def is_lexeme(text):
    """concrete text is exactly one token / string literal / quoted symbol"""
    from harness import refreader
    try:
        toks = list(refreader.lex(text))
    except Exception:  # noqa
        return False
    return len(toks) == 1 and toks[0][0] in ('tok', 'str', 'qsym') and \
        toks[0][2] == 0 and toks[0][3] == len(text)


def _input_texts(v, out=None, seen=None):
    """The texts of leaves of the input inside the string term ``v``: the
    accessor text(..) of a node term, or a free string constant."""
    out = [] if out is None else out
    seen = set() if seen is None else seen
    if not z3.is_app(v) or v.get_id() in seen:
        return out
    seen.add(v.get_id())
    if v.sort() == z3.StringSort() and (v.decl().name() == 'text' or (
            v.num_args() == 0 and
            v.decl().kind() == z3.Z3_OP_UNINTERPRETED)):
        out.append(v)
        return out
    for c in v.children():
        _input_texts(c, out, seen)
    return out


def _string_only(e, allowed_ids, memo):
    """Is ``e`` built from string / integer / Boolean operations over the
    allowed constants only (no node terms, no uninterpreted functions)?"""
    i = e.get_id()
    if i in memo:
        return memo[i]
    ok = True
    if z3.is_quantifier(e) or z3.is_var(e):
        ok = False
    elif z3.is_app(e):
        k = e.decl().kind()
        if k == z3.Z3_OP_UNINTERPRETED:
            ok = e.num_args() == 0 and i in allowed_ids
        elif k in (z3.Z3_OP_DT_ACCESSOR, z3.Z3_OP_DT_CONSTRUCTOR,
                   z3.Z3_OP_DT_RECOGNISER, z3.Z3_OP_DT_IS):
            ok = False
        if ok:
            ok = all(_string_only(c, allowed_ids, memo)
                     for c in e.children())
    memo[i] = ok
    return ok


def prove_from_string_facts(p, formula, timeout_ms=20000):
    """Sound weakening for goals about leaf texts: every text of an input
    leaf is generalised to a fresh string constant, of the path condition
    only the conjuncts that then speak about strings / integers alone are
    kept, and validity is decided without the rest (node structure, sizes,
    hashes), which only distracts the string solvers.  True = proved; False =
    no verdict (the caller poses the obligation under the full path
    condition)."""
    texts = _input_texts(formula)
    for c in p.pc:
        if not sym.has_quantifier(c):
            _input_texts(c, texts, None) if False else None
    # generalise each input text (also those only the path condition has)
    seen = {t.get_id() for t in texts}
    for c in p.pc:
        if sym.has_quantifier(c):
            continue
        for t in _input_texts(c):
            if t.get_id() not in seen:
                seen.add(t.get_id())
                texts.append(t)
    sub = [(t, z3.String('leaftext_%d' % k)) for k, t in enumerate(texts)]
    allowed = {c.get_id() for _, c in sub}
    memo = {}
    hyps = []
    for c in p.pc:
        if sym.has_quantifier(c):
            continue
        c2 = z3.substitute(c, *sub) if sub else c
        if _string_only(c2, allowed, memo):
            hyps.append(c2)
    # what being a lexeme means for a text that starts with a bar, spelt out
    # for the solvers (consequence of C15/lemma/lexeme-with-a-bar-is-a-
    # quoted-symbol, discharged on every run): it is | inner | with no bar
    # inside.  inner is a fresh constant (skolemised existential).
    from pyvc import verify
    goal = z3.substitute(formula, *sub) if sub else formula
    if not _string_only(goal, allowed | {
            x.get_id() for x in _free_consts(goal)}, {}):
        return False
    # Implies(A, B): A joins the hypotheses
    if z3.is_implies(goal):
        hyps.append(goal.arg(0))
        goal = goal.arg(1)
    bar = z3.StringVal('|')
    nobar = z3.Star(z3.Diff(_ALL, z3.Re(bar)))
    for k, (_t, c) in enumerate(sub):
        premise = z3.And(z3.InRe(c, INPUT_LEAF), z3.Length(c) >= 1,
                         z3.SubString(c, 0, 1) == bar)
        # do the hypotheses say that this text is a lexeme starting with a
        # bar?  (small query; the solvers do not find the case by themselves)
        if verify.solve(hyps, premise, 3000)[0] != 'proved':
            continue
        inner = z3.String('leafinner_%d' % k)
        hyps.append(c == z3.Concat(bar, inner, bar))
        hyps.append(z3.InRe(inner, nobar))
    st, _be, _dt, _m, _smt2 = verify.solve(hyps, goal, timeout_ms)
    if os.environ.get('MUTSYM_DEBUG'):
        print('string-only query:', st, 'hyps', len(hyps), 'of', len(p.pc))
        for h in hyps:
            print('   H', str(h).replace('\n', ' ')[:200])
        print('   G', str(goal).replace('\n', ' ')[:600])
        print('   model', _m)
    return st == 'proved'


def _free_consts(e, out=None, seen=None):
    out = [] if out is None else out
    seen = set() if seen is None else seen
    if not z3.is_app(e) or e.get_id() in seen:
        return out
    seen.add(e.get_id())
    if e.num_args() == 0 and e.decl().kind() == z3.Z3_OP_UNINTERPRETED:
        out.append(e)
    for c in e.children():
        _free_consts(c, out, seen)
    return out


def lexeme_obligation(p, data):
    """(hypotheses, goal) for: the symbolic leaf text is one lexeme, given
    that the leaf texts of the input it is built from are lexemes; numerals
    are abstracted to arbitrary digit strings."""
    hyps = []
    zs = []
    for k, v in data.parts:
        if k == 'c':
            zs.append(z3.StringVal(v))
        elif k == 'n':
            d = z3.String('digits_%d' % v.get_id())
            hyps.append(z3.InRe(d, _DIGITS))
            zs.append(d)
        else:
            # only the text of a leaf of the input is known to be a lexeme
            # (accessor text(..) of a node term, or a free constant standing
            # for one); a derived string (slice, replace, ...) has to be
            # shown to be one
            for t in _input_texts(v):
                hyps.append(z3.InRe(t, INPUT_LEAF))
            zs.append(v)
    whole = zs[0] if len(zs) == 1 else z3.Concat(*zs)
    return z3.Implies(z3.And(*hyps) if hyps else z3.BoolVal(True),
                      z3.InRe(whole, LEXEME))


def new_leaves(r, out=None, seen=None):
    """leaves of a replacement that the mutator created itself"""
    out = [] if out is None else out
    seen = set() if seen is None else seen
    if not isinstance(r, ObjVal) or id(r) in seen:
        return out
    seen.add(id(r))
    if (r.tag or {}).get('lazy'):
        return out  # a node of the input
    d = r.attrs.get('data')
    if isinstance(d, (str, SStr)):
        out.append(d)
    elif isinstance(d, (tuple, list)):
        for c in d:
            new_leaves(c, out, seen)
    return out


def descendants(node, out=None):
    out = out if out is not None else []
    out.append(node)
    for k, ch in sorted((node.tag or {}).get('kids', {}).items()):
        descendants(ch, out)
    return out


def make_run(theory, cname):

    def run(eng, p):
        nm.havoc_tables(eng, p)
        mod = eng.load_module(f'ddsmt.mutators_{theory}')
        mu = eng.load_module('ddsmt.mutator_utils')
        m = eng.call(mod.g[cname], [], {})
        node = nm.lazy_node(eng, p, 'n')
        N = cname
        if eng.hasattr(m, 'filter'):
            o = outcome(eng, eng.getattr(m, 'filter'), [node])
            if o.kind != 'return' or not eng.truth(o.value):
                return  # rejected, or a contained failure (C04)
        try:
            if eng.hasattr(m, 'mutations'):
                it = eng.call(eng.getattr(m, 'mutations'), [node], {})
            else:
                # a mutator that looks at the whole input: the node is a
                # command of it
                it = eng.call(eng.getattr(m, 'global_mutations'),
                              [node, [node]], {})
            props = []
            for s in eng.iterate(it):
                props.append(s)
                if len(props) >= 6:
                    break
        except PyRaise:
            return  # a failing mutator only loses its candidates (C04)
        if props:
            p.oblige(f'cover/{N}/proposes-on-some-path', False, kind='cover')
        ids = [d.attrs['id'] for d in descendants(node)]
        for s in props:
            ok = isinstance(s, tuple) and hasattr(s, 'substs') and \
                isinstance(s.substs, SymDict)
            p.oblige(f'C15/{N}/proposal-is-a-Simplification', ok,
                     info=repr(type(s)))
            if not ok:
                continue
            for k, r in s.substs.items():
                if isinstance(k, (int, SNum)):
                    p.oblige(f'C15/{N}/ids-in-input',
                             any(k is i for i in ids) or any(
                                 eng.truth(k == i) for i in ids),
                             info={'signature': f'{N} designates a node '
                                   'that is not part of the input'})
                    is_self = k is node.attrs['id']
                else:
                    is_self = False
                if isinstance(r, ObjVal):
                    for d in new_leaves(r):
                        if isinstance(d, str):
                            p.oblige(f'C15/{N}/new-leaves-are-single-tokens',
                                     is_lexeme(d),
                                     info={'leaf': d, 'signature': f'{N} '
                                           'creates a leaf that is not one '
                                           'token'})
                        else:
                            f = lexeme_obligation(p, d)
                            if prove_from_string_facts(p, f):
                                f = z3.BoolVal(True)
                            p.oblige(f'C15/{N}/new-leaves-are-single-tokens',
                                     mk_bool(f),
                                     info={'leaf': repr(d)[:120],
                                           'signature': f'{N} creates a leaf '
                                           'that is not one token'})
                if is_self and N in NOOP_FREE:
                    if r is None:
                        p.oblige(f'C03/{N}/no-op-free', True)
                    elif isinstance(r, ObjVal):
                        p.oblige(f'C03/{N}/no-op-free',
                                 mk_bool(nm.S(r) != nm.S(node)),
                                 info={'replacement': nm.render(r),
                                       'node': nm.render(node), 'signature':
                                       f'{N} proposes to replace a node by '
                                       'itself'})
                    else:
                        p.oblige(f'C15/{N}/replacement-is-a-node', False,
                                 info=repr(type(r)))

    return run


def run_lexeme_lemmas(eng, p):
    """Facts about the lexeme language that prove_from_string_facts hands
    to the solvers as hypotheses: proved here, for every string."""
    t = z3.String('t')
    bar = z3.StringVal('|')
    p.oblige('C15/lemma/lexeme-with-a-bar-is-a-quoted-symbol',
             z3.Implies(z3.And(z3.InRe(t, INPUT_LEAF), z3.PrefixOf(bar, t)),
                        z3.InRe(t, _QSYM)))
    # ... and a quoted symbol is | inner | with no bar inside
    # ... and a quoted symbol is | inner | with no bar inside, inner being
    # what stands between the first and the last character.  In pieces the
    # solvers decide at once (z3 gives up on 'ends with a bar', cvc5 proves
    # it in milliseconds: short z3 budget, then the fallback).
    from pyvc import verify
    L = z3.Length(t)
    inner = z3.SubString(t, 1, L - 2)
    q = [z3.InRe(t, _QSYM)]
    pieces = {
        'has-two-bars-at-least': (q, L >= 2),
        'starts-with-a-bar': (q, z3.PrefixOf(bar, t)),
        'ends-with-a-bar': (q, z3.SuffixOf(bar, t)),
        'no-bar-inside': (q, z3.InRe(inner, z3.Star(
            z3.Diff(_ALL, z3.Re(bar))))),
        'is-bar-inner-bar': ([L >= 2, z3.PrefixOf(bar, t),
                              z3.SuffixOf(bar, t)],
                             t == z3.Concat(bar, inner, bar)),
    }
    for name, (hyp, goal) in pieces.items():
        st, be = verify.solve(hyp, goal, 5000)[:2]
        p.oblige(f'C15/lemma/quoted-symbol/{name}', st == 'proved',
                 info={'status': st, 'backend': be})
    # the first character, as the interpreter states it
    p.oblige('C15/lemma/first-character-is-a-prefix',
             z3.Implies(z3.And(z3.Length(t) >= 1,
                               z3.SubString(t, 0, 1) == bar),
                        z3.PrefixOf(bar, t)))


def contracts(tier):
    A = [nm.ASSUME_LAZY, nm.ASSUME_EQ_CONTRACT,
         'symbol tables havocked; get_sort/get_bv_width/nodes.contains '
         'through their contracts; at most 6 proposals per path inspected']
    cs = [Contract('C15/lemma/lexemes', [], run_lexeme_lemmas,
                   assumptions=['pure lemmas over the lexeme regular '
                                'expressions (no code involved)'])]
    for theory, cname in MUTATORS:
        cs.append(Contract(f'mutator/{cname}',
                           [f'ddsmt.mutators_{theory}.{cname}.mutations'],
                           make_run(theory, cname), setup=setup,
                           assumptions=A, max_paths=3000))
    return cs
