"""Contract objects, the per-property runner, verdicts and evidence."""
import json
import multiprocessing
import os
import re
import subprocess
import sys
import time
import traceback

from . import verify
from .interp import Engine, PyRaise
from .verify import Outcome

VERIF = os.path.dirname(os.path.dirname(os.path.abspath(__file__)))
REPO = os.environ.get('PYVC_REPO', '/repo')
NATIVE_PY = '/venv/bin/python'

EXIT_HELD, EXIT_VIOLATION, EXIT_UNDECIDED, EXIT_CRASH = 0, 1, 2, 3


class Contract:
    """One unit of verification: a sidecar contract on real functions.

    ``run(eng, p)`` is executed once per feasible path: it builds the
    symbolic pre-state, calls the real function through the engine and
    states the postcondition with ``p.oblige``.
    """

    def __init__(self, name, functions, run, setup=None, assumptions=(),
                 replay=None, tier='P', bound=None, max_paths=4000,
                 doc='', also=None):
        self.name = name
        self.functions = list(functions)
        self.run = run
        self.setup = setup
        self.assumptions = list(assumptions)
        self.replay = replay
        self.tier = tier  # 'P' proved for all inputs, 'S' shape-bounded
        self.bound = bound
        self.max_paths = max_paths
        self.doc = doc
        # obligations labelled with a property that are obligations of other
        # properties too, e.g. {'C07': ('C01',)}: the renderer contract is
        # what C01's "the output file holds the accepted list" rests on
        self.also = dict(also or {})


class NativeCheck:
    """Bounded stand-in: run-time contracts on the real functions over an
    enumerated domain, executed natively (never counted as proved)."""

    def __init__(self, name, functions, script, args=(), bound='',
                 assumptions=(), timeout=1800):
        self.name = name
        self.functions = list(functions)
        self.script = script  # path relative to /verif
        self.args = list(args)
        self.bound = bound
        self.assumptions = list(assumptions)
        self.timeout = timeout


def outcome(eng, fn, args=(), kwargs=None):
    try:
        return Outcome('return', eng.call(fn, list(args), kwargs or {}))
    except PyRaise as e:
        return Outcome('raise', e.value, e.where)


def new_engine():
    return Engine(REPO)


# ---------------------------------------------------------------------------
# running one contract (in a worker process)


def _run_contract(args):
    modname, cname, tier = args
    t0 = time.time()
    try:
        mod = __import__(modname, fromlist=['x'])
        contracts = mod.contracts(tier)
        c = [x for x in contracts if x.name == cname][0]
        rep = verify.FunctionReport(c.name, c.functions)
        eng = new_engine()
        if c.setup:
            c.setup(eng)
        # the functions under contract must exist in the current source
        fhash = {}
        for q in c.functions:
            try:
                eng.function(q)
            except Exception as ex:  # noqa
                rep.unsupported.append(f'function {q} not found: {ex}')
        for m, h in eng.sources.items():
            fhash[m] = h

        def body(p):
            c.run(eng, p)
            p.oblige(c.name + '/canary', False, kind='canary')

        ex = verify.Explorer(max_paths=c.max_paths)
        ex.explore(rep, body, lambda p, o: None)
        rep.dropped_calls = eng.dropped_calls
        rep.source_hashes = fhash
        rep.seconds = time.time() - t0
        return _pack(rep, c)
    except BaseException:  # noqa
        rep = verify.FunctionReport(cname, [])
        rep.crash = traceback.format_exc()
        return _pack(rep, None)


def _pack(rep, c):
    return {
        'contract': rep.contract,
        'functions': rep.functions,
        'tier': getattr(c, 'tier', 'P'),
        'bound': getattr(c, 'bound', None),
        'assumptions': getattr(c, 'assumptions', []),
        'paths': rep.paths,
        'aborted_paths': rep.aborted_paths,
        'unsupported': rep.unsupported[:20],
        'crash': rep.crash,
        'bounded_reasons': rep.bounded_reasons,
        'notes': rep.notes,
        'seconds': rep.seconds,
        'solver_seconds': rep.solver_seconds,
        'canaries': rep.canaries,
        'canaries_refuted': rep.canaries_refuted,
        'covers': getattr(rep, 'covers', {}),
        'unknown_branches': rep.unknown_branches,
        'source_hashes': getattr(rep, 'source_hashes', {}),
        'dropped_calls': getattr(rep, 'dropped_calls', 0),
        'results': [{
            'name': r.name,
            'status': r.status,
            'backend': r.backend,
            'seconds': round(r.seconds, 4),
            'model': r.model,
            'detail': r.detail if isinstance(
                r.detail, (str, int, float, type(None), list, dict)) else
            repr(r.detail),
            'kind': r.kind,
            'bounded': r.bounded,
            'smt2': r.smt2[:4000] if r.smt2 else None,
        } for r in rep.results],
    }


def _run_native(nc):
    t0 = time.time()
    py = getattr(nc, 'python', None) or NATIVE_PY
    cmd = [py, os.path.join(VERIF, nc.script)] + [str(a) for a in nc.args]
    env = dict(os.environ)
    env['PYTHONPATH'] = REPO + os.pathsep + VERIF
    env.setdefault('PYTHONHASHSEED', '0')
    try:
        out = subprocess.run(cmd, capture_output=True, text=True, env=env,
                             timeout=nc.timeout, cwd=VERIF)
        res = None
        for line in out.stdout.splitlines():
            if line.startswith('RESULT '):
                res = json.loads(line[7:])
        return {
            'name': nc.name,
            'functions': nc.functions,
            'bound': nc.bound,
            'assumptions': nc.assumptions,
            'exit': out.returncode,
            'result': res,
            'stdout_tail': out.stdout[-3000:],
            'stderr_tail': out.stderr[-3000:],
            'seconds': time.time() - t0,
        }
    except subprocess.TimeoutExpired:
        return {
            'name': nc.name, 'functions': nc.functions, 'bound': nc.bound,
            'assumptions': nc.assumptions, 'exit': 'timeout', 'result': None,
            'stdout_tail': '', 'stderr_tail': 'timeout',
            'seconds': time.time() - t0
        }


# ---------------------------------------------------------------------------
# known findings / baseline


def load_json(path, default):
    try:
        with open(path) as f:
            return json.load(f)
    except FileNotFoundError:
        return default


def known_findings(prop):
    kf = load_json(os.path.join(VERIF, 'known_findings.json'), {})
    return [f for f in kf.get('findings', []) if f.get('property') == prop]


def baseline(prop):
    b = load_json(os.path.join(VERIF, 'baseline_obligations.json'), {})
    return set(b.get(prop, []))


def _san(s):
    return re.sub(r'[^A-Za-z0-9_.-]+', '_', s)


def _child(fn, arg, conn):
    try:
        conn.send(fn(arg))
    except BaseException:  # noqa
        try:
            conn.send('worker failed: ' + traceback.format_exc()[-1500:])
        except Exception:  # noqa
            pass
    finally:
        conn.close()


def _run_tasks(items, jobs, limit):
    """Run fn(arg) for every (fn, arg) in its own forked process, at most
    ``jobs`` at a time.  A process that dies (stack overflow of the
    interpreter on a pathological input, out of memory) or exceeds ``limit``
    seconds gives a string instead of a result -- the check never hangs."""
    ctx = multiprocessing.get_context('fork')
    results = [None] * len(items)
    pending = list(range(len(items)))
    running = {}  # index -> (process, conn, start)
    while pending or running:
        while pending and len(running) < jobs:
            i = pending.pop(0)
            parent, child = ctx.Pipe(duplex=False)
            pr = ctx.Process(target=_child, args=(items[i][0], items[i][1],
                                                  child))
            pr.start()
            child.close()
            running[i] = (pr, parent, time.time())
        done = []
        for i, (pr, conn, st) in running.items():
            if conn.poll(0):
                try:
                    results[i] = conn.recv()
                except EOFError:
                    results[i] = f'worker died (exit code {pr.exitcode})'
                done.append(i)
            elif not pr.is_alive():
                # may have exited right after sending
                if conn.poll(0.2):
                    try:
                        results[i] = conn.recv()
                    except EOFError:
                        results[i] = ('worker died (exit code '
                                      f'{pr.exitcode})')
                else:
                    results[i] = f'worker died (exit code {pr.exitcode})'
                done.append(i)
            elif time.time() - st > limit:
                pr.kill()
                results[i] = f'timeout after {limit} s'
                done.append(i)
        for i in done:
            pr, conn, _ = running.pop(i)
            pr.join(5)
            if pr.is_alive():
                pr.kill()
            conn.close()
        if not done:
            time.sleep(0.02)
    return results


# ---------------------------------------------------------------------------
# the per-property runner


def run_property(prop, modname, tier, level, title='', record_baseline=False):  # noqa: C901
    t0 = time.time()
    seed = int(os.environ.get('VERIF_SEED', '0') or 0)
    mod = __import__(modname, fromlist=['x'])
    contracts = mod.contracts(tier)
    natives = mod.native_checks(tier) if hasattr(mod, 'native_checks') else []
    jobs = int(os.environ.get('PYVC_JOBS', '16'))
    tasks = [(modname, c.name, tier) for c in contracts]
    packed = []
    native_res = []
    if tasks or natives:
        limit = int(os.environ.get(
            'PYVC_TASK_TIMEOUT', '3600' if tier == 'thorough' else '600'))
        res = _run_tasks([(_run_contract, t) for t in tasks] +
                         [(_run_native, n) for n in natives], jobs, limit)
        packed = res[:len(tasks)]
        native_res = res[len(tasks):]
        for i, r in enumerate(packed):
            if isinstance(r, str):  # the worker died / ran out of time
                rep = verify.FunctionReport(tasks[i][1], [])
                if r.startswith('timeout'):
                    rep.unsupported.append(r)
                else:
                    rep.crash = r
                packed[i] = _pack(rep, None)
        for i, r in enumerate(native_res):
            if isinstance(r, str):
                n = natives[i]
                native_res[i] = {
                    'name': n.name, 'functions': n.functions,
                    'bound': n.bound, 'assumptions': n.assumptions,
                    'exit': 'timeout' if r.startswith('timeout') else 'died',
                    'result': None, 'seconds': 0.0, 'stderr_tail': r}

    base = baseline(prop)
    kfs = known_findings(prop)
    violations = []  # (obligation, model, detail, contract)
    undecided = []
    crashes = []
    proved = []
    bounded_ok = []
    kf_hits = []
    all_names = set()
    obligations_total = 0
    solver_s = 0.0
    backends = {}
    samples = []
    by_contract = {c.name: c for c in contracts}

    for pk in packed:
        cname = pk['contract']
        if pk['crash']:
            crashes.append((cname, pk['crash']))
            continue
        for u in pk['unsupported']:
            undecided.append((cname, 'unsupported: ' + u))
        # vacuity is a defect of the contract -- unless the exploration was
        # cut short because the contract does not fit the code (already
        # reported as undecided above)
        if not pk['unsupported']:
            if pk['paths'] == 0:
                crashes.append((cname, 'no feasible path (vacuous '
                                'contract)'))
            if pk['canaries_refuted'] == 0:
                crashes.append((cname, 'canary not refuted: precondition is '
                                'contradictory or no path completed'))
            for cv, n in pk.get('covers', {}).items():
                if n == 0:
                    crashes.append((cname, f'cover {cv} never reached: the '
                                    'contract is vacuous'))
        if not pk['results'] and not pk['unsupported']:
            crashes.append((cname, 'zero obligations generated'))
        solver_s += pk['solver_seconds']
        # merge per obligation name: proved only if proved on every path
        merged = {}
        for r in pk['results']:
            m = merged.setdefault(r['name'], {
                'n': 0, 'status': 'proved', 'backend': set(), 'model': None,
                'detail': None, 'bounded': False, 'seconds': 0.0, 'smt2': None
            })
            m['n'] += 1
            m['backend'].add(r['backend'])
            m['seconds'] += r['seconds']
            m['bounded'] = m['bounded'] or r['bounded'] or \
                pk['tier'] != 'P' or bool(pk['bounded_reasons'])
            if r['status'] == 'refuted' and m['status'] != 'refuted':
                m['status'] = 'refuted'
                m['model'] = r['model']
                m['detail'] = r['detail']
                m['smt2'] = r['smt2']
            elif r['status'] == 'unknown' and m['status'] == 'proved':
                m['status'] = 'unknown'
                m['smt2'] = r['smt2']
        for name, m in merged.items():
            all_names.add(name)
            for b in m['backend']:
                backends[b] = backends.get(b, 0) + 1
            if m['status'] == 'proved':
                (bounded_ok if m['bounded'] else proved).append(name)
                if len(samples) < 6:
                    samples.append({
                        'obligation': name, 'paths': m['n'],
                        'backend': sorted(m['backend']),
                        'tier': 'bounded' if m['bounded'] else 'proved'
                    })
            elif m['status'] == 'refuted':
                violations.append((name, m['model'], m['detail'], cname,
                                   m['smt2']))
            else:
                undecided.append((cname, f'{name}: solver unknown'))

    # bounded native stand-ins
    native_summ = []
    for nr in native_res:
        res = nr['result'] or {}
        native_summ.append({
            'name': nr['name'], 'functions': nr['functions'],
            'bound': nr['bound'], 'evaluations': res.get('evaluations', 0),
            'distinct': res.get('distinct', 0),
            'seconds': round(nr['seconds'], 2),
            'samples': res.get('samples', [])[:3],
            'exhaustive': res.get('exhaustive', False),
        })
        all_names.add(nr['name'])
        if nr['exit'] == 0 and res:
            bounded_ok.append(nr['name'])
        elif nr['exit'] == 1 and res and res.get('violations'):
            for v in res['violations'][:50]:
                chk = v.get('check', '')
                vname = chk if re.match(r'C\d\d/', chk) else \
                    nr['name'] + '/' + chk
                violations.append((vname,
                                   v.get('input'), v.get('what'),
                                   nr['name'], None))
        else:
            # an uncaught exception: if it was raised inside the code under
            # test (innermost frame in the repository) it is reported as a
            # violation of the run-time contract 'raises nothing', otherwise
            # the harness itself is broken
            files = re.findall(r'File "([^"]+)", line (\d+)',
                               nr['stderr_tail'])
            if nr['exit'] not in ('timeout', ) and files and \
                    os.path.abspath(files[-1][0]).startswith(
                        os.path.abspath(REPO) + os.sep):
                violations.append((nr['name'] + '/real-code-raised',
                                   {'traceback': nr['stderr_tail'][-1200:]},
                                   'uncaught exception from '
                                   f'{files[-1][0]}:{files[-1][1]}',
                                   nr['name'], None))
            else:
                crashes.append((nr['name'],
                                f"native check exit {nr['exit']}: "
                                + nr['stderr_tail'][-1500:]))

    bounded_ok = sorted(set(bounded_ok))
    proved = sorted(set(proved) - set(bounded_ok))

    # obligations that used to be discharged and are gone now
    for b in sorted(base - all_names):
        undecided.append(('baseline', f'obligation {b} no longer generated'))

    # known findings / replay
    os.makedirs(os.path.join(VERIF, 'replays'), exist_ok=True)
    out_lines = []
    real_violations = []
    aux_names = set()
    for (name, model, detail, cname, smt2) in violations:
        m_ = re.match(r'(C\d\d)/', name)
        mm_ = re.match(r'((?:C\d\d\+)+C\d\d)/', name)
        if mm_ and prop in mm_.group(1).split('+'):
            # an obligation that belongs to several properties (label
            # 'C01+C06'): counts for each of them
            m_ = re.match(r'(C\d\d)', prop)
        elif mm_:
            m_ = re.match(r'(C\d\d)', mm_.group(1))
        c_ = by_contract.get(cname)
        if not m_ and c_ is not None and c_.replay is not None and \
                model is not None:
            # an auxiliary invariant failed: a violation only if the
            # counterexample leads to a failing input of the real code
            # (decided by the replay against this property's oracle)
            aux_names.add(name)
        elif m_ and m_.group(1) != prop and c_ is not None and \
                prop in c_.also.get(m_.group(1), ()):
            pass  # an obligation of this property as well
        elif (m_ and m_.group(1) != prop) or (not m_):
            # an obligation of another property, or an auxiliary invariant:
            # this property's proof is incomplete, but that is not a
            # violation of this property
            undecided.append((cname, f'{name}: refuted (not an obligation '
                              f'of {prop}; its proof may depend on it)'))
            continue
        sig = violation_signature(name, model, detail)
        hit = None
        for f in kfs:
            if f.get('obligation') == name and (
                    not f.get('signature') or f['signature'] == sig or
                (isinstance(f['signature'], str) and f['signature'] in sig)):
                hit = f
                break
        if hit is not None:
            kf_hits.append((name, hit))
            continue
        real_violations.append((name, model, detail, cname, smt2, sig))

    for f in {id(h): h for _, h in kf_hits}.values():
        out_lines.append(f"KNOWN-FINDING: property={prop} {f.get('what', '')}")

    exit_code = EXIT_HELD
    reported = []
    spurious = []
    seen_names = set()
    native_names = {nr['name'] for nr in native_res}
    for (name, model, detail, cname, smt2, sig) in real_violations:
        if name in seen_names:
            continue
        seen_names.add(name)
        c = by_contract.get(cname)
        rp = os.path.join(VERIF, 'replays', f'{prop}_{_san(name)}.json')
        confirmed = None
        replay_info = None
        if cname in native_names:
            # found by running the real code on this very input
            confirmed = True
            replay_info = {'native_check': cname, 'failing_input': model,
                           'what': detail}
        if c is not None and c.replay is not None and model is not None:
            try:
                replay_info = c.replay(name, model, detail)
            except Exception:  # noqa
                replay_info = {'error': traceback.format_exc()}
        if replay_info and replay_info.get('script'):
            spath = rp[:-5] + '.py'
            with open(spath, 'w') as fh:
                fh.write(replay_info['script'])
            env = dict(os.environ)
            env['PYTHONPATH'] = REPO + os.pathsep + VERIF
            try:
                pr = subprocess.run([NATIVE_PY, spath], capture_output=True,
                                    text=True, timeout=120, env=env)
                replay_info['exit'] = pr.returncode
                replay_info['stdout'] = pr.stdout[-2000:]
                replay_info['stderr'] = pr.stderr[-2000:]
                if pr.returncode == 1:
                    confirmed = True
                elif pr.returncode == 0:
                    # a replay that only *searches* for a failing input (the
                    # obligation was refuted against an adversarial callee
                    # model) proves nothing by not finding one
                    confirmed = None if replay_info.get('search') else False
            except subprocess.TimeoutExpired:
                replay_info['exit'] = 'timeout'
                confirmed = True if replay_info.get(
                    'timeout_is_violation') else None
        with open(rp, 'w') as fh:
            json.dump({
                'property': prop, 'obligation': name, 'contract': cname,
                'signature': sig, 'counterexample': model,
                'detail': detail, 'verifier_output': smt2,
                'replay': replay_info, 'confirmed_on_real_code': confirmed,
            }, fh, indent=1, default=str)
        decides = (replay_info or {}).get('decides', ())
        if isinstance(decides, dict):
            # marker on the replay's output -> properties it decides
            out_ = (replay_info or {}).get('stdout', '') or ''
            decides = [q for k, v in decides.items() if k in out_ for q in v]
        if name in aux_names and not (confirmed is True and prop in decides):
            undecided.append((cname, f'{name}: refuted (auxiliary '
                              'invariant; no failing input of the real code '
                              'found for it)'))
            continue
        if confirmed is False:
            spurious.append(name)
            undecided.append((cname, f'{name}: counterexample did not '
                              'reproduce on the real code (engine '
                              'imprecision)'))
            continue
        suffix = '' if confirmed else ' no-failing-input-found'
        out_lines.append(f'VIOLATION property={prop} replay={rp}{suffix}')
        reported.append(name)
        exit_code = EXIT_VIOLATION

    if exit_code == EXIT_HELD and undecided:
        exit_code = EXIT_UNDECIDED
    if crashes:
        exit_code = EXIT_CRASH if exit_code != EXIT_VIOLATION else exit_code

    wall = time.time() - t0
    n_disch = len(proved)
    ev = {
        'property_id': prop,
        'tier': tier,
        'seed': seed,
        'level': level,
        'wall_s': round(wall, 2),
        'violations': len(reported),
        'coverage': {
            'obligations': len(proved) + len(reported) + len(
                [u for u in undecided if 'solver unknown' in u[1]]),
            'discharged': n_disch,
            'checker_cmd': f'./check {prop} --tier {tier}',
            'trusted_base': sorted({
                a for pk in packed for a in pk['assumptions']
            } | {a for nr in native_res for a in nr['assumptions']}),
            'backends': backends,
            'solver_seconds': round(solver_s, 2),
            'functions_under_contract': sorted({
                f for pk in packed for f in pk['functions']
            }),
            'source_hashes': {
                k: v for pk in packed
                for k, v in pk['source_hashes'].items()
            },
            'contracts': [{
                'name': pk['contract'], 'tier': pk['tier'],
                'bound': pk['bound'], 'paths': pk['paths'],
                'cut_paths': pk['aborted_paths'],
                'canaries_refuted': pk['canaries_refuted'],
                'bounded_reasons': pk['bounded_reasons'],
                'seconds': round(pk['seconds'], 2),
                'dropped_calls': pk['dropped_calls'],
                'notes': pk['notes'],
            } for pk in packed],
            'proved_obligations': sorted(proved),
            'bounded_obligations': sorted(bounded_ok),
            'bounded_checks': native_summ,
            'undecided': [f'{a}: {b}' for a, b in undecided][:50],
            'known_findings_hit': [h.get('what') for _, h in kf_hits],
            'samples': samples or [{'note': 'no obligation discharged'}],
            'evaluations': sum(pk['paths'] for pk in packed) + sum(
                n['evaluations'] for n in native_summ),
            'distinct_nontrivial': len(proved) + len(bounded_ok) + sum(
                n['distinct'] for n in native_summ),
            'rule': 'evaluations = symbolic paths explored + native bounded '
            'cases; distinct_nontrivial = distinct obligation names '
            'discharged + distinct native cases',
            'explanation': title,
        },
        'assumptions': sorted({
            a for pk in packed for a in pk['assumptions']
        } | {a for nr in native_res for a in nr['assumptions']} | {
            n for pk in packed for n in pk['notes']
        }),
    }
    os.makedirs(os.path.join(VERIF, 'evidence'), exist_ok=True)
    with open(os.path.join(VERIF, 'evidence', f'{prop}.json'), 'w') as fh:
        json.dump(ev, fh, indent=1, default=str)

    if record_baseline:
        bpath = os.path.join(VERIF, 'baseline_obligations.json')
        b = load_json(bpath, {})
        b[prop] = sorted(set(proved) | set(bounded_ok))
        with open(bpath, 'w') as fh:
            json.dump(b, fh, indent=1)

    for line in out_lines:
        print(line)
    print(f'[{prop}] tier={tier} contracts={len(packed)} '
          f'proved={len(proved)} bounded-ok={len(bounded_ok)} '
          f'violations={len(reported)} known={len(kf_hits)} '
          f'undecided={len(undecided)} crashes={len(crashes)} '
          f'wall={wall:.1f}s solver={solver_s:.1f}s')
    for a, b in undecided[:15]:
        print(f'  undecided: {a}: {b}')
    for a, b in crashes[:5]:
        print(f'  CHECKER-PROBLEM: {a}: {b[-1500:]}')
    sys.stdout.flush()
    return exit_code


def violation_signature(name, model, detail):
    if isinstance(detail, dict) and 'signature' in detail:
        return str(detail['signature'])
    if isinstance(detail, str):
        return detail
    return name
