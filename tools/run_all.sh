#!/bin/sh
# run every check (quick by default) on /repo and summarise; usage: tools/run_all.sh [--tier thorough]
cd "$(dirname "$0")/.." || exit 3
rc=0
for p in C01 C02 C03 C04 C05 C06 C07 C08 C09 C10 C11 C12 C13 C14 C15 C16 C17 C18; do
  s=$(date +%s)
  out=$(./check $p "$@" 2>&1); e=$?
  echo "$p exit=$e $(( $(date +%s) - s ))s $(echo "$out" | grep '^\[' | tail -1)"
  echo "$out" | grep -E '^(VIOLATION|  undecided|  CHECKER)' | head -5
  [ $e -ne 0 ] && rc=1
done
exit $rc
