"""Reference SMT-LIB 2.6 reader (spec for C07/C08), written from the
standard, independent of ddsmt.nodeio.

Lexemes: ``(`` ``)``; string literals ``"..."`` where ``""`` is an escaped
quote; quoted symbols ``|...|`` (any characters except ``|`` and ``\\``,
may span lines); comments from ``;`` to the end of the line; every other
maximal run of characters that are not white space, parentheses, ``"``,
``|`` or ``;`` is one token (symbol, numeral, keyword, #b/#x literal ...).
White space: space, tab, LF, CR.

``read(text)`` returns (trees, ok): trees are nested lists, leaves are token
texts, comments are kept as leaves (text without the line terminator);
``ok`` is False if the text is not a balanced sequence of complete lexemes.
``tokens(text)`` returns the flat lexeme sequence.
"""

WS = ' \t\n\r'


class Bad(Exception):
    pass


def lex(text):
    """Yield (kind, text, start, end); kind in ( ) str qsym comment tok."""
    i = 0
    n = len(text)
    while i < n:
        c = text[i]
        if c in WS:
            i += 1
            continue
        if c == '(' or c == ')':
            yield (c, c, i, i + 1)
            i += 1
            continue
        if c == '"':
            j = i + 1
            while True:
                if j >= n:
                    raise Bad('unterminated string literal')
                if text[j] == '"':
                    if j + 1 < n and text[j + 1] == '"':
                        j += 2
                        continue
                    break
                j += 1
            yield ('str', text[i:j + 1], i, j + 1)
            i = j + 1
            continue
        if c == '|':
            j = text.find('|', i + 1)
            if j < 0:
                raise Bad('unterminated quoted symbol')
            yield ('qsym', text[i:j + 1], i, j + 1)
            i = j + 1
            continue
        if c == ';':
            j = i
            while j < n and text[j] not in '\n\r':
                j += 1
            yield ('comment', text[i:j], i, j)
            i = j
            continue
        j = i
        while j < n and text[j] not in WS and text[j] not in '()";|':
            j += 1
        yield ('tok', text[i:j], i, j)
        i = j


def tokens(text):
    return [t for _, t, _, _ in lex(text)]


def read(text):
    try:
        toks = list(lex(text))
    except Bad:
        return None, False
    stack = [[]]
    for kind, t, _, _ in toks:
        if kind == '(':
            stack.append([])
        elif kind == ')':
            if len(stack) == 1:
                return None, False
            done = stack.pop()
            stack[-1].append(done)
        else:
            stack[-1].append(t)
    if len(stack) != 1:
        return None, False
    return stack[0], True


def well_separated(text):
    """The property's domain: adjacent lexemes are separated by white space
    unless one of them is a parenthesis or the second one is a comment (a
    comment ends at its line end, so what follows it is separated)."""
    try:
        toks = list(lex(text))
    except Bad:
        return False
    for (k1, _, _, e1), (k2, _, s2, _) in zip(toks, toks[1:]):
        if e1 == s2:  # no white space in between
            if k1 in '()' or k2 in '()' or k2 == 'comment':
                continue
            return False
    return True


def norm_comment(t):
    """Comment leaf of ddSMT (includes the terminator) -> spec text."""
    if t.startswith(';'):
        return t.rstrip('\n').rstrip('\r')
    return t


def flat(trees):
    out = []

    def walk(x):
        if isinstance(x, str):
            out.append(x)
        else:
            out.append('(')
            for c in x:
                walk(c)
            out.append(')')

    for t in trees:
        walk(t)
    return out
