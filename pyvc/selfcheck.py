"""Setup / self-check: the engine must agree with CPython on concrete runs.

For functions under contract the engine is run on concrete arguments and the
result (value or exception type) is compared with native execution of the same
/repo function.  A disagreement means the trusted semantics of the engine is
wrong: exit 3.
"""
import os
import random
import sys
import traceback

REPO = os.environ.get('PYVC_REPO', '/repo')


def norm(v, eng=None):
    """Engine value / native value -> comparable plain structure."""
    from .interp import ObjVal
    if isinstance(v, ObjVal):
        if v.cls.name == 'Node':
            d = v.attrs.get('data')
            if isinstance(d, str):
                return ('leaf', d)
            return ('node', tuple(norm(x) for x in d))
        return ('obj', v.cls.name)
    if type(v).__name__ == 'Node':
        if isinstance(v.data, str):
            return ('leaf', v.data)
        return ('node', tuple(norm(x) for x in v.data))
    if isinstance(v, (list, tuple)):
        return tuple(norm(x) for x in v)
    if type(v).__name__ in ('generator', 'map', 'filter'):
        return tuple(norm(x) for x in v)
    if hasattr(v, '_fields'):
        return tuple(norm(x) for x in v)
    return v


def main():
    fast = '--fast' in sys.argv
    sys.argv = ['ddsmt', 'in.smt2', 'out.smt2', 'cmd']
    sys.path.insert(0, REPO)
    sys.setrecursionlimit(20000)
    from . import interp, sym, verify
    from contracts import env
    import ddsmt.nodes as nn
    import ddsmt.nodeio as nio
    import ddsmt.checker as nchk

    eng = interp.Engine(REPO)
    env.static_options(eng)
    rng = random.Random(int(os.environ.get('VERIF_SEED', '0') or 0))
    failures = []
    ncases = 0

    def both(label, efn, nfn, eargs, nargs):
        nonlocal ncases
        ncases += 1
        p = sym.Path()
        sym.set_cur(p)
        try:
            try:
                ev = ('ok', norm(eng.call(efn, list(eargs), {})))
            except interp.PyRaise as e:
                ev = ('raise', type(e.value).__name__)
        finally:
            sym.set_cur(None)
        try:
            nv = ('ok', norm(nfn(*nargs)))
        except Exception as e:  # noqa
            nv = ('raise', type(e).__name__)
        if ev != nv:
            failures.append((label, eargs, ev, nv))

    # checker.matches_golden on random concrete records
    chk = eng.load_module('ddsmt.checker')
    R = chk.g['RunInfo']
    vals = [None, '', 'a', 'ab', 'b']
    for _ in range(60 if fast else 600):
        g = [rng.choice([0, 1, None])] + [rng.choice(vals) for _ in '12'] + [0]
        r = [rng.choice([0, 1, None])] + [rng.choice(vals) for _ in '12'] + [0]
        rest = [rng.random() < .5, rng.random() < .5, rng.choice(vals),
                rng.choice(vals)]
        both('matches_golden', chk.g['matches_golden'], nchk.matches_golden,
             [R(*g), R(*r)] + rest, [nchk.RunInfo(*g), nchk.RunInfo(*r)] + rest)

    # parser + writer round trip through the engine
    nodeio = eng.load_module('ddsmt.nodeio')
    texts = ['(a b (c d))', '(assert (= x "a b"))\n; c\n(x)', 'a b', ')',
             '"lit"', '(a |q r| #b01)', '((()))', '(a ; c\n b)', '(a "x""y")']
    for t in texts:
        both('parse_smtlib', lambda s: list(eng.call(nodeio.g['parse_smtlib'],
                                                     [s], {})),
             lambda s: list(nio.parse_smtlib(s)), [t], [t])

    # nodes: substitute / dfs / bfs / count on parsed trees
    enodes = eng.load_module('ddsmt.nodes')
    for t in texts[:3] + ['(f (g a b) (g a b) c)']:
        p = sym.Path()
        sym.set_cur(p)
        try:
            ex = list(eng.call(nodeio.g['parse_smtlib'], [t], {}))
        finally:
            sym.set_cur(None)
        nx = list(nio.parse_smtlib(t))
        for fn in ('dfs', 'bfs', 'count_nodes', 'count_exprs', 'reduplicate'):
            both(fn, enodes.g[fn], getattr(nn, fn), [ex], [nx])
    for n in range(0, 40):
        both('binary_search', enodes.g['binary_search'], nn.binary_search,
             [n], [n])

    # the abstract work list (contracts/worklist.py) against Python lists on
    # concrete contents: append / extend / reversed / pop / popleft / truth
    try:
        import collections
        sys.path.insert(0, os.path.dirname(os.path.dirname(
            os.path.abspath(__file__))))
        from contracts import worklist as wl
        rnd = random.Random(7)
        p = sym.Path([])
        sym.set_cur(p)
        for trial in range(60):
            a = wl.AbsList(eng, [])
            b = collections.deque()
            for step in range(25):
                op = rnd.choice(['append', 'extend', 'extendrev', 'pop',
                                 'popleft', 'truth'])
                if op == 'append':
                    x = rnd.randrange(100)
                    a.append(x)
                    b.append(x)
                elif op == 'extend':
                    xs = [rnd.randrange(100) for _ in range(rnd.randrange(4))]
                    a.extend(xs)
                    b.extend(xs)
                elif op == 'extendrev':
                    xs = [rnd.randrange(100) for _ in range(rnd.randrange(4))]
                    a.extend(wl.RevView(list(xs)))
                    b.extend(reversed(xs))
                elif op == 'truth':
                    ncases += 1
                    if bool(a.nonempty()) != bool(b):
                        failures.append(('AbsList truth', list(b)))
                elif b:
                    ncases += 1
                    got = a.pop() if op == 'pop' else a.popleft()
                    want = b.pop() if op == 'pop' else b.popleft()
                    if got != want:
                        failures.append(('AbsList ' + op, got, want))
    finally:
        sym.set_cur(None)

    print(f'selfcheck: {ncases} concrete cross-checks, '
          f'{len(failures)} disagreements')
    for f in failures[:10]:
        print('  DISAGREE', f)
    return 3 if failures else 0


if __name__ == '__main__':
    try:
        sys.exit(main())
    except SystemExit:
        raise
    except Exception:  # noqa
        traceback.print_exc()
        sys.exit(3)
