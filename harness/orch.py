"""Bounded stand-in / replay vehicle for the orchestration properties
(C01, C02, C05, C13, C18): the *real* strategy code of /repo runs in one
process against

* a scripted pool (every interleaving of: the feeder pulling the next task,
  a worker running a task, a result being delivered -- chosen by an explicit
  decision sequence, enumerated exhaustively up to a bound or drawn from
  VERIF_SEED),
* a scripted command (a predicate on the token sequence of the candidate),

under run-time monitors of the ghost predicates used by the contracts:
every written list was accepted (C01), written lists form a chain of single
proposals from their predecessor (C05), the final input is a fixed point of
the last pass (C02), every generator input is a tree (C13).

usage: orch.py <mode> <budget>      mode: hier | ddmin | hybrid | all
"""
import itertools
import os
import random
import sys
import tempfile

ARGS = sys.argv[1:]
from harness import replaylib as R  # noqa: E402
from harness.bounded import Recorder  # noqa: E402


def setup(strategy, jobs, outfile):
    sys.argv = ['ddsmt', '-q', '-q', '--strategy', strategy, '-j', str(jobs),
                'in.smt2', outfile, 'cmd']
    import ddsmt.options as options
    setattr(options, '__PARSED_ARGS', None)
    options.args()
    from ddsmt import cli
    cli.setup_logging()
    return options


class Sched:
    """Decision source: replays ``prefix`` then takes choice 0 and records
    how many alternatives there were (for exhaustive enumeration)."""

    def __init__(self, prefix=(), rng=None):
        self.prefix = list(prefix)
        self.taken = []
        self.widths = []
        self.rng = rng

    def choose(self, n):
        if n <= 1:
            return 0
        i = len(self.taken)
        if i < len(self.prefix):
            c = self.prefix[i] % n
        elif self.rng is not None:
            c = self.rng.randrange(n)
        else:
            c = 0
        self.taken.append(c)
        self.widths.append(n)
        return c


class FakeEvent:

    def __init__(self, sched):
        self.state = False
        self.sched = sched
        self.view = None  # per-worker-run view: list of remaining stale reads
        self.set_calls = 0

    def set(self):
        self.state = True
        self.set_calls += 1

    def clear(self):
        self.state = False

    def is_set(self):
        if self.view is not None and self.state:
            # a worker that started before the flag was set sees it only
            # from some read on
            if self.view[0] > 0:
                self.view[0] -= 1
                return False
        return self.state


class FakeManager:

    def __init__(self, sched, registry):
        self.sched = sched
        self.registry = registry

    def Event(self):
        e = FakeEvent(self.sched)
        self.registry.append(e)
        return e


class FakePool:

    def __init__(self, sched, events, jobs, inflight_cap=3):
        self.sched = sched
        self.events = events
        self.jobs = jobs
        self.cap = inflight_cap

    def __enter__(self):
        return self

    def __exit__(self, *a):
        return False

    def imap_unordered(self, f, iterable):
        it = iter(iterable)
        pending = []  # tasks pulled, not yet run
        done = []  # results not yet delivered
        exhausted = False
        while True:
            moves = []
            if not exhausted and len(pending) + len(done) < self.cap:
                moves.append('pull')
            if pending:
                moves.append('run')
            if done:
                moves.append('deliver')
            if not moves:
                return
            if self.jobs == 1:
                # one worker: strictly in submission order
                m = 'deliver' if done else ('run' if pending else 'pull')
            else:
                m = moves[self.sched.choose(len(moves))]
            if m == 'pull':
                try:
                    pending.append(next(it))
                except StopIteration:
                    exhausted = True
            elif m == 'run':
                i = 0 if self.jobs == 1 else self.sched.choose(len(pending))
                t = pending.pop(i)
                stale = self.sched.choose(3) if self.jobs > 1 else 0
                for e in self.events:
                    e.view = [stale]
                try:
                    done.append(f(t))
                finally:
                    for e in self.events:
                        e.view = None
            else:
                j = 0 if self.jobs == 1 else self.sched.choose(len(done))
                yield done.pop(j)


def tokens(exprs):
    out = []

    def walk(n):
        if n.is_leaf():
            out.append(n.data)
        else:
            out.append('(')
            for c in n.data:
                walk(c)
            out.append(')')

    for e in exprs:
        walk(e)
    return tuple(out)


def all_ids(exprs):
    out = []
    stack = list(exprs)
    while stack:
        n = stack.pop()
        out.append(n.id)
        if not n.is_leaf():
            stack.extend(n.data)
    return out


class Monitor:

    def __init__(self, rec, case):
        self.rec = rec
        self.case = case
        self.accepted = set()
        self.derived = {}  # cand tokens -> set of base tokens
        self.writes = []
        self.checks = 0

    def bad(self, check, what):
        self.rec.violation(check, self.case, what)


def run_case(text, pred, strategy, jobs, sched, rec, case, check_fixed=True):
    """One run of the real strategy code.  Returns the monitor."""
    import importlib
    tmp = tempfile.mkdtemp(prefix='orch-')
    outfile = os.path.join(tmp, 'out.smt2')
    setup(strategy, jobs, outfile)
    from ddsmt import (nodeio, nodes, checker, strategy_ddmin,
                       strategy_hierarchical, smtlib, mutator_utils,
                       mutators, options)
    mon = Monitor(rec, case)
    events = []

    # -- scripted command ---------------------------------------------------
    def check_exprs(exprs):
        mon.checks += 1
        tk = tokens(exprs)
        v = bool(pred(tk))
        if v:
            mon.accepted.add(tk)
        return v

    real_apply = mutator_utils.apply_simp

    def apply_simp(exprs, simp):
        base = tokens(exprs)
        res = real_apply(exprs, simp)
        if isinstance(res, list):
            mon.derived.setdefault(tokens(res), set()).add(base)
        return res

    real_write = nodeio.write_smtlib_to_file

    def write_file(filename, exprs):
        if os.path.abspath(filename) != os.path.abspath(outfile):
            mon.bad('C01/orch/writes-only-the-output-file', filename)
        real_write(filename, exprs)
        tk = tokens(exprs)
        prev = mon.writes[-1] if mon.writes else mon.input
        if tk not in mon.accepted:
            mon.bad('C01/orch/written-list-was-accepted',
                    f'write #{len(mon.writes)+1}: {" ".join(tk)}')
        if prev not in mon.derived.get(tk, ()):
            mon.bad('C05/orch/written-is-one-step-from-predecessor',
                    f'write #{len(mon.writes)+1}: {" ".join(tk)} is not a '
                    f'candidate derived from {" ".join(prev)}')
        mon.writes.append(tk)
        # C06-style: the file content parses back to the same tokens
        back = tokens(list(nodeio.parse_smtlib(open(filename).read())))
        if back != tk:
            mon.bad('C01/orch/file-holds-the-written-tokens', ' '.join(back))

    def tree_check(where, exprs):
        ids = all_ids(exprs)
        if len(set(ids)) != len(ids):
            mon.bad('C13/orch/generator-input-is-a-tree',
                    f'{where}: duplicate ids in {" ".join(tokens(exprs))}')

    patches = []

    def patch(mod, name, val):
        patches.append((mod, name, getattr(mod, name)))
        setattr(mod, name, val)

    patch(checker, 'check_exprs', check_exprs)
    patch(mutator_utils, 'apply_simp', apply_simp)
    patch(strategy_ddmin, 'apply_simp', apply_simp)
    patch(strategy_hierarchical, 'apply_simp', apply_simp)
    patch(nodeio, 'write_smtlib_to_file', write_file)

    class MP:
        Pool = staticmethod(lambda n=None: FakePool(sched, events, jobs))
        Manager = staticmethod(lambda: FakeManager(sched, events))

    for m in (strategy_ddmin, strategy_hierarchical):
        patch(m, 'multiprocessing', MP)
        patch(m, 'pickle', NoPickle)

    RealProd = strategy_hierarchical.Producer

    class Prod(RealProd):

        def __init__(self, muts, flag, original):
            tree_check('Producer', original)
            mon.last_pass = muts
            super().__init__(muts, flag, original)

    patch(strategy_hierarchical, 'Producer', Prod)
    RealTG = strategy_ddmin.TaskGenerator

    class TG(RealTG):

        def __init__(self, exprs, gran, mutator, max_depth=None):
            tree_check('TaskGenerator', exprs)
            super().__init__(exprs, gran, mutator, max_depth)
            if jobs > 1 and self.subsets:
                # exercise the parallel code path on small inputs as well
                self.pickled_exprs = NoPickle.dumps(exprs)

        def __next__(self):
            # C13: simplifications are generated from self.exprs right here,
            # also after update() installed an accepted result
            tree_check('TaskGenerator.__next__', self.exprs)
            return super().__next__()

    patch(strategy_ddmin, 'TaskGenerator', TG)
    setattr(strategy_ddmin, '__abort_flag', None)
    try:
        exprs = list(nodeio.parse_smtlib(text))
        mon.input = tokens(exprs)
        mon.accepted.add(mon.input)
        for name in dir(options.args()):
            if name.startswith('mutators_'):
                pass
        res = exprs
        if strategy in ('ddmin', 'hybrid'):
            res, _ = strategy_ddmin.reduce(res)
        if strategy in ('hierarchical', 'hybrid'):
            res, _ = strategy_hierarchical.reduce(res)
        final = tokens(res)
        last = mon.writes[-1] if mon.writes else mon.input
        if final != last:
            mon.bad('C01/orch/result-is-last-written',
                    f'returned {" ".join(final)}, last written '
                    f'{" ".join(last)}')
        if check_fixed and strategy in ('hierarchical', 'hybrid'):
            # C02: no proposal of any enabled mutator on the final input is
            # accepted (the enabled set is taken from the registries and the
            # option flags, not from get_passes)
            smtlib.collect_information(res)
            flag = FakeEvent(sched)
            from ddsmt import mutators as _mut
            enabled = []
            for _th, (mod_, names_) in _mut.get_all_mutators().items():
                for cname, opt in names_.items():
                    if getattr(options.args(),
                               'mutator_' + opt.replace('-', '_'), True):
                        enabled.append(getattr(mod_, cname)())
            prod = RealProd(enabled, flag, res)
            for t in prod.generate(0, {}):
                cand = real_apply(NoPickle.loads(t.exprs),
                                  NoPickle.loads(t.simp))
                if isinstance(cand, list) and pred(tokens(cand)) and \
                        tokens(cand) != final:
                    mon.bad('C02/orch/result-is-a-fixed-point',
                            f'{t.name} on node {t.nodeid} of '
                            f'{" ".join(final)} gives accepted '
                            f'{" ".join(tokens(cand))}')
                    break
            # C02, second sentence, literally: running the hierarchical
            # strategy again on its own result is unable to minimise it
            # (independent of how the passes are put together: whatever
            # instance of whatever mutator a pass holds gets its turn)
            n_writes = len(mon.writes)
            again, _ntests = strategy_hierarchical.reduce(list(res))
            if tokens(again) != final or len(mon.writes) != n_writes:
                mon.bad('C02/orch/second-run-is-unable-to-minimise',
                        f'a second hierarchical run on {" ".join(final)} '
                        f'reduces it to {" ".join(tokens(again))}')
    finally:
        for mod, name, val in reversed(patches):
            setattr(mod, name, val)
        import shutil
        shutil.rmtree(tmp, ignore_errors=True)
    mon.final = final if 'final' in dir() else None
    return mon


class NoPickle:
    """pickle stand-in: real pickling so that ids/hashes survive exactly as
    in production (C12), kept as an object for speed."""
    import pickle as _p

    @staticmethod
    def dumps(x):
        return NoPickle._p.dumps(x)

    @staticmethod
    def loads(b):
        return NoPickle._p.loads(b)


INPUTS = {
    'two-asserts': '(declare-const x Bool)\n(assert (and x x))\n(assert x)\n'
                   '(check-sat)\n',
    'let-share': '(declare-const a Int)\n(assert (let ((b (+ a 1))) '
                 '(> b b)))\n(check-sat)\n',
    'eq-const': '(declare-const x Int)\n(assert (= x 0))\n'
                '(assert (> x (- 1)))\n',
    # removing the later command enables the removal of the earlier one
    'order-dep': '(assert a)\n(assert (f b))\n(assert c)\n',
    # a renaming only the last pass proposes enables an earlier renaming
    'rename-dep': '(declare-const aa Bool)\n(declare-const bb Bool)\n',
    # eliminating x inserts one (g y) object at three positions; the next
    # task of the same ddmin level eliminates y inside them
    # the two first asserts can only go together, and only once a later pass
    # has removed (and p q): a proposal that only 'binary reduction (assert)'
    # makes - halves of the assert commands, not contiguous at top level
    'assert-halves': '(declare-const p Bool)\n(declare-const q Bool)\n'
                     '(assert p)\n(check-sat)\n(assert p)\n(check-sat)\n'
                     '(assert p)\n(check-sat)\n(assert (and p q))\n'
                     '(check-sat)\n',
    'elim-chain': '(declare-const x Int)\n(declare-const y Int)\n'
                  '(declare-fun g (Int) Int)\n'
                  '(declare-fun p (Int Int) Bool)\n(assert (= x (g y)))\n'
                  '(assert (= y 3))\n(assert (p x x))\n',
}

def _assert_halves(text):
    segs = text.split('( check-sat )')

    def has(seg):
        return '( assert' in seg

    return (len(segs) == 5 and has(segs[0]) == has(segs[1]) and
            has(segs[2]) and has(segs[3]) and
            ('( and p q )' not in text or has(segs[0])))


# inputs that are only meaningful with their own command
PAIRED = {'assert-halves': 'assert-halves'}

PREDS = {
    'has-x': lambda tk: 'x' in tk,
    'has-assert': lambda tk: 'assert' in tk and tk.count('(') >= 1,
    'two-parens': lambda tk: tk.count('(') >= 2,
    'x-or-a': lambda tk: ('x' in tk or 'a' in tk) and 'assert' in tk,
    'a-or-not-b': lambda tk: ('a' in tk or 'b' not in tk) and
    ('c' in tk or 'x' in tk),
    'rename-dep': lambda tk: tk.count('declare-const') == 2 and
    tk.count('Bool') == 2 and len(tk) == 10 and
    ('aa' in tk or 'bb' not in tk),
    'assert-halves': lambda tk: _assert_halves(' '.join(tk)),
    # accepts everything but two particular intermediate forms
    'elim-chain': lambda tk: '( = ( g y ) ( g 3 ) )' not in ' '.join(tk) and
    '( = y y )' not in ' '.join(tk) and 'p' in tk,
}


def enumerate_schedules(run, budget, seed):
    """DFS over decision sequences (first decisions varied first), then
    random schedules from ``seed`` until the budget is used."""
    count = 0
    stack = [[]]
    seen = set()
    while stack and count < budget // 2:
        prefix = stack.pop()
        s = Sched(prefix)
        run(s)
        count += 1
        key = tuple(s.taken)
        if key in seen:
            continue
        seen.add(key)
        for i in range(len(prefix), min(len(s.taken), 14)):
            for alt in range(1, s.widths[i]):
                stack.append(s.taken[:i] + [alt])
    rng = random.Random(seed)
    while count < budget:
        s = Sched((), rng)
        run(s)
        count += 1
    return count


def main():
    mode = ARGS[0]
    budget = int(ARGS[1])
    seed = int(os.environ.get('VERIF_SEED', '0') or 0)
    rec = Recorder(f'orch/{mode}', f'{budget} schedules per (input, command, '
                   'strategy, -j) combination: DFS over the first 14 '
                   'scheduling decisions, then random (VERIF_SEED)')
    strategies = {'hier': ['hierarchical'], 'ddmin': ['ddmin'],
                  'hybrid': ['hybrid'],
                  'all': ['hierarchical', 'ddmin', 'hybrid']}[mode]
    combos = []
    for strat in strategies:
        for iname in INPUTS:
            for pname in PREDS:
                if (iname in PAIRED or pname in PAIRED.values()) and \
                        PAIRED.get(iname) != pname:
                    continue
                for jobs in (1, 3):
                    combos.append((strat, iname, pname, jobs))
    for strat, iname, pname, jobs in combos:
        case = {'strategy': strat, 'input': iname, 'command': pname,
                'jobs': jobs}
        per = budget if jobs > 1 else 1

        def run(s):
            c = dict(case)
            c['schedule'] = s.prefix
            mon = run_case(INPUTS[iname], PREDS[pname], strat, jobs, s, rec,
                           c)
            c['schedule'] = list(s.taken)
            rec.case((strat, iname, pname, jobs, tuple(s.taken)),
                     {'case': case, 'writes': len(mon.writes),
                      'checks': mon.checks})

        enumerate_schedules(run, per, seed)
    rec.finish(exhaustive=False)


if __name__ == '__main__':
    main()
