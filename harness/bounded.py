"""Mini framework for bounded stand-in checks (run-time contracts on the real
functions over an enumerated domain).  Runs under /venv/bin/python with
PYTHONPATH=<repo>:/verif.  Prints one ``RESULT <json>`` line; exit 1 iff a
contract was violated."""
import itertools
import json
import signal
import sys
import time


class Recorder:

    def __init__(self, name, bound):
        self.name = name
        self.bound = bound
        self.evaluations = 0
        self.distinct = set()
        self.violations = []
        self.samples = []
        self.t0 = time.time()

    def case(self, key, sample=None):
        self.evaluations += 1
        if len(self.distinct) < 2_000_000:
            self.distinct.add(key if isinstance(key, (str, int)) else
                              repr(key))
        if sample is not None and len(self.samples) < 5:
            self.samples.append(sample)

    def violation(self, check, inp, what):
        self.violations.append({'check': check, 'input': inp, 'what': what})
        # enough evidence: stop early (keeps a broken tree from costing
        # one time-out per case)
        if len(self.violations) >= 25:
            self.finish(exhaustive=False)

    def finish(self, exhaustive=True):
        res = {
            'name': self.name, 'bound': self.bound,
            'evaluations': self.evaluations, 'distinct': len(self.distinct),
            'violations': self.violations[:50], 'samples': self.samples,
            'exhaustive': exhaustive, 'seconds': round(time.time() - self.t0,
                                                       2),
        }
        for v in self.violations[:10]:
            print('VIOLATED', v['check'], v['input'], v['what'])
        print('RESULT ' + json.dumps(res, default=str))
        sys.exit(1 if self.violations else 0)


class Timeout(Exception):
    pass


def with_timeout(seconds, fn, *a):
    def handler(sig, frm):
        raise Timeout()

    old = signal.signal(signal.SIGALRM, handler)
    signal.setitimer(signal.ITIMER_REAL, seconds)
    try:
        return fn(*a)
    finally:
        signal.setitimer(signal.ITIMER_REAL, 0)
        signal.signal(signal.SIGALRM, old)


# -- enumeration of tree shapes ---------------------------------------------------
# plain trees: str (leaf) or list (children)


def shapes(n):
    """All ordered tree shapes with exactly n nodes; leaves are None
    placeholders, inner/empty lists are lists."""
    if n == 1:
        yield None
        yield []
        return
    # a list node with children whose sizes sum to n-1
    for parts in compositions(n - 1):
        for kids in itertools.product(*[list(shapes(k)) for k in parts]):
            yield list(kids)


def compositions(n):
    if n == 0:
        yield ()
        return
    for first in range(1, n + 1):
        for rest in compositions(n - first):
            yield (first, ) + rest


def count_leaves(s):
    if s is None:
        return 1
    return sum(count_leaves(c) for c in s)


def label(shape, labels):
    """Fill the leaf placeholders of ``shape`` from the iterator labels."""
    if shape is None:
        return next(labels)
    return [label(c, labels) for c in shape]


def trees(max_nodes, alphabet):
    """All plain trees with at most max_nodes nodes, leaves over alphabet."""
    for n in range(1, max_nodes + 1):
        for sh in shapes(n):
            k = count_leaves(sh)
            for labs in itertools.product(alphabet, repeat=k):
                yield label(sh, iter(labs))


def forests(max_nodes, alphabet, max_trees=3):
    """All lists of at most max_trees trees with at most max_nodes nodes in
    total."""
    yield []
    for k in range(1, max_trees + 1):
        for parts in compositions_upto(max_nodes, k):
            per = [list(t for t in trees_exact(p, alphabet)) for p in parts]
            for combo in itertools.product(*per):
                yield list(combo)


def trees_exact(n, alphabet):
    for sh in shapes(n):
        k = count_leaves(sh)
        for labs in itertools.product(alphabet, repeat=k):
            yield label(sh, iter(labs))


def compositions_upto(total, k):
    """k positive parts with sum <= total."""
    if k == 0:
        yield ()
        return
    for first in range(1, total - (k - 1) + 1):
        for rest in compositions_upto(total - first, k - 1):
            yield (first, ) + rest


def size(t):
    if isinstance(t, str):
        return 1
    return 1 + sum(size(c) for c in t)


def positions(t, path=()):
    yield path, t
    if isinstance(t, list):
        for i, c in enumerate(t):
            yield from positions(c, path + (i, ))
