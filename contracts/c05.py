"""C05 -- accepted inputs form a chain; stale parallel results never adopted."""
from pyvc.api import NativeCheck
from . import strategies

PROPERTY = 'C05'


def contracts(tier):
    return strategies.all_contracts(tier)


def native_checks(tier):
    b = 100 if tier == 'thorough' else 20
    return [
        NativeCheck('C05/native/orchestration',
                    ['ddsmt.strategy_ddmin._check_par',
                     'ddsmt.strategy_hierarchical.reduce'],
                    'harness/orch.py', ['all', b],
                    bound=f'3 inputs x 4 scripted commands x 3 strategies x '
                    f'-j in (1,3), {b} schedules each (scripted pool: every '
                    'order of pull/run/deliver, stale flag views)'),
    ]
