"""C08 -- the reader tokenises SMT-LIB text as the standard prescribes.

Function against the reference reader (harness/refreader.py): bounded,
exhaustive over all strings up to length L over one representative character
per lexical class.  That representatives suffice is justified by the
mechanically checked obligation C08/parse_smtlib/class-abstraction: every
branch condition of the scanner depends on the text only through membership
of the current character in literal character sets that the alphabet covers.
"""
import ast
import os

from pyvc.api import Contract, NativeCheck

PROPERTY = 'C08'
ALPHA = ['(', ')', '"', '|', ';', ' ', '\t', '\n', '\r', 'a', '#']


def run_class_abstraction(eng, p):
    path = os.path.join(eng.repo, 'ddsmt', 'nodeio.py')
    tree = ast.parse(open(path).read())
    fn = [n for n in tree.body if isinstance(n, ast.FunctionDef) and
          n.name == 'parse_smtlib'][0]
    bad = []
    chars = set()

    def const_chars(node):
        if isinstance(node, ast.Constant) and isinstance(node.value, str):
            return [node.value]
        if isinstance(node, (ast.Tuple, ast.List)) and all(
                isinstance(e, ast.Constant) and isinstance(e.value, str)
                for e in node.elts):
            return [e.value for e in node.elts]
        return None

    def ok_compare(c):
        if len(c.ops) != 1:
            return False
        left, op, right = c.left, c.ops[0], c.comparators[0]
        ls = ast.unparse(left)
        rs = ast.unparse(right)
        if ls == 'char' or ls == 'text[pos]':
            cc = const_chars(right)
            if cc is not None and isinstance(op, (ast.In, ast.NotIn, ast.Eq,
                                                  ast.NotEq)):
                chars.update(cc)
                return all(len(x) == 1 for x in cc)
            if rs == 'first_char' and isinstance(op, (ast.Eq, ast.NotEq)):
                return True
            return False
        if ls == 'pos' and rs == 'size':
            return True
        if ls == 'cur_expr' and rs == 'None' and isinstance(
                op, (ast.Is, ast.IsNot)):
            return True
        return False

    def ok_test(t):
        if isinstance(t, ast.Compare):
            return ok_compare(t)
        if isinstance(t, ast.BoolOp):
            return all(ok_test(v) for v in t.values)
        if isinstance(t, ast.UnaryOp) and isinstance(t.op, ast.Not):
            return ok_test(t.operand)
        if isinstance(t, ast.Name) and t.id in ('exprs', 'cur_expr'):
            return True
        if isinstance(t, ast.Constant):
            return True
        return False

    for n in ast.walk(fn):
        if isinstance(n, (ast.If, ast.While)):
            if not ok_test(n.test):
                bad.append(f'line {n.lineno}: {ast.unparse(n.test)}')
        if isinstance(n, ast.IfExp):
            bad.append(f'line {n.lineno}: conditional expression')
    p.oblige('C08/parse_smtlib/class-abstraction', not bad,
             info={'conditions outside the abstraction': bad, 'signature':
                   'scanner branches on something other than a character '
                   'class'})
    p.oblige('C08/parse_smtlib/alphabet-covers-all-classes',
             chars <= set(ALPHA),
             info={'uncovered': sorted(chars - set(ALPHA)), 'signature':
                   'scanner distinguishes a character the enumeration '
                   'alphabet has no representative for'})
    # text is only read, position by position
    stores = [ast.unparse(n) for n in ast.walk(fn)
              if isinstance(n, ast.Subscript) and isinstance(
                  n.ctx, ast.Store)]
    p.oblige('C08/parse_smtlib/text-not-modified', not stores)


def contracts(tier):
    return [
        Contract('C08/parse_smtlib/static', ['ddsmt.nodeio.parse_smtlib'],
                 run_class_abstraction,
                 assumptions=['state-count argument (finite transducer over '
                              'character classes, disagreement shows on '
                              'short strings) is stated, not '
                              'machine-checked']),
    ]


def native_checks(tier):
    L = 7 if tier == 'thorough' else 6
    return [
        NativeCheck('C08/native/parser', ['ddsmt.nodeio.parse_smtlib'],
                    'harness/parser_native.py', ['parse', L],
                    bound=f'all strings of length <= {L} over 11 '
                    'representative characters + 14 hand-picked longer '
                    'texts', timeout=3000),
    ]
