"""C12 -- tree equality, hashing, copying, pickling, traversal.

Tier S: the real ``Node.__eq__`` is executed symbolically on every pair of
tree shapes up to a bound with symbolic ids, hashes (collisions between
different structures allowed) and leaf texts.  Tier P: ``binary_search``.
Tier B: native run-time contracts (harness/nodes_native.py).
"""
import itertools

import z3

from pyvc import mk, sym
from pyvc.api import Contract, NativeCheck, outcome
from pyvc.interp import LoopSpec, ObjVal, PyRaise
from pyvc.sym import SBool, SNum, SStr, mk_bool
from . import env, nodemodel as nm

PROPERTY = 'C12'


def shapes(n):
    if n == 1:
        yield None
        yield []
        return
    for parts in compositions(n - 1):
        for kids in itertools.product(*[list(shapes(k)) for k in parts]):
            yield list(kids)


def compositions(n):
    if n == 0:
        yield ()
        return
    for first in range(1, n + 1):
        for rest in compositions(n - first):
            yield (first, ) + rest


def all_shapes(maxn):
    out = []
    for n in range(1, maxn + 1):
        out.extend(shapes(n))
    return out


class Shaped:
    """Node of concrete shape with symbolic id / hash / leaf text."""

    def __init__(self, eng, p, shape, tag):
        self.nodes = []  # (ObjVal, shape) in pre-order
        self.root = self._build(eng, p, shape, tag)

    def _build(self, eng, p, shape, tag):
        cls = nm.node_class(eng)
        o = ObjVal(cls)
        o.tag = {'name': tag}
        idv = p.fresh_int(f'id_{tag}')
        # existing nodes: ids below every id the counter hands out later
        # (modelled as a range disjoint from the concrete fresh ids)
        p.assume(idv >= nm.LAZY_ID_BASE)
        o.attrs['id'] = SNum(idv)
        if shape is None:
            t = p.fresh_str(f'txt_{tag}')
            o.attrs['data'] = sym.mk_str([('v', t)])
            # class invariant: hash == hash(data)
            o.attrs['hash'] = SNum(eng.STRHASH(t))
            self.nodes.append((o, shape))
        else:
            self.nodes.append((o, shape))
            kids = [self._build(eng, p, s, f'{tag}_{i}')
                    for i, s in enumerate(shape)]
            o.attrs['data'] = tuple(kids)
            acc = z3.IntVal(len(kids))
            for k in kids:
                acc = eng.HCOMB(acc, k.attrs['hash'].z)
            o.attrs['hash'] = SNum(acc)
        return o


def struct_eq(a, sa, b, sb):
    """z3 formula: the two shaped nodes have equal structure."""
    if (sa is None) != (sb is None):
        return z3.BoolVal(False)
    if sa is None:
        return a.attrs['data'].z == b.attrs['data'].z
    if len(sa) != len(sb):
        return z3.BoolVal(False)
    cs = [struct_eq(x, sx, y, sy) for x, sx, y, sy in zip(
        a.attrs['data'], sa, b.attrs['data'], sb)]
    return z3.And(*cs) if cs else z3.BoolVal(True)


def shape_of(node_list, o):
    for n, s in node_list:
        if n is o:
            return s
    raise KeyError


def make_run_eq(sa, sb, idx):

    def run(eng, p):
        A = Shaped(eng, p, sa, 'a')
        B = Shaped(eng, p, sb, 'b')
        # invariant on ids: the same id means the same structure (one
        # object at two positions, or a pickled copy)
        for (x, sx), (y, sy) in itertools.combinations(A.nodes + B.nodes, 2):
            p.assume(z3.Implies(x.attrs['id'].z == y.attrs['id'].z,
                                struct_eq(x, sx, y, sy)))
        out = outcome(eng, eng.getattr(A.root, '__eq__'), [B.root])
        p.oblige('C12/Node.__eq__/raises-nothing', out.kind == 'return',
                 info=repr(out))
        if out.kind != 'return':
            return
        r = eng.truth_sym(out.value)
        want = struct_eq(A.root, sa, B.root, sb)
        p.oblige('C12/Node.__eq__/iff-same-structure',
                 sym.zbool(r) == want,
                 info={'shapes': [repr(sa), repr(sb)],
                       'signature': '__eq__ disagrees with structure'})
        # equal trees have equal hashes (from the invariant hash==hash(data))
        ha = eng.call(eng.getattr(A.root, '__hash__'), [], {})
        hb = eng.call(eng.getattr(B.root, '__hash__'), [], {})
        p.oblige('C12/Node.__hash__/equal-trees-equal-hashes',
                 z3.Implies(want, sym._znum(ha) == sym._znum(hb)))

    return run


def replay_eq(name, model, detail):
    if not isinstance(detail, dict) or 'shapes' not in detail:
        return None
    script = f'''
import sys
from harness import replaylib as R
R.init_ddsmt()
from ddsmt.nodes import Node
M = {model!r}
SA, SB = {detail['shapes'][0]}, {detail['shapes'][1]}

def build(shape, tag, collide):
    i = M.get('id_' + tag)
    kw = {{}}
    if i: kw['_id'] = i
    if collide: kw['_hash'] = 7
    if shape is None:
        return Node(M.get('txt_' + tag, ''), **kw), M.get('txt_' + tag, '')
    kids = [build(s, f'{{tag}}_{{k}}', collide) for k, s in enumerate(shape)]
    if not kids:
        n = Node(**kw)
    else:
        n = Node(*[k[0] for k in kids], **kw)
    return n, [k[1] for k in kids]

bad = 0
for collide in (False, True):
    a, pa = build(SA, 'a', collide)
    b, pb = build(SB, 'b', collide)
    got = (a == b)
    if bool(got) != (pa == pb):
        print('a =', pa, 'b =', pb, 'forced hash collision:', collide,
              'ids from the model; a == b gives', got)
        bad = 1
sys.exit(bad)
'''
    return {'script': script}


def run_eq_other(eng, p):
    """Operands that are not nodes: None, str."""
    for sa in all_shapes(3):
        A = Shaped(eng, p, sa, 'a')
        out = outcome(eng, eng.getattr(A.root, '__eq__'), [None])
        p.oblige('C12/Node.__eq__/never-equals-None',
                 out.kind == 'return' and out.value is False)
        s = mk.sstr(p, 'other')
        out = outcome(eng, eng.getattr(A.root, '__eq__'), [s])
        if sa is None:
            want = A.root.attrs['data'].z == s.z
        else:
            want = z3.BoolVal(False)
        p.oblige('C12/Node.__eq__/str-operand',
                 out.kind == 'return' and mk_bool(
                     sym.zbool(eng.truth_sym(out.value)) == want))


def setup(eng):
    env.static_options(eng)
    nm.install(eng)
    eng.symbolic_hash = True


# -- binary_search: bounds and termination, all input lengths ------------------

BS = 'ddsmt.nodes.binary_search'


def setup_bs(eng):
    env.static_options(eng)

    def havoc_den(e, env_, p):
        d = p.fresh_int('den')
        return SNum(d)

    # while den * 2 <= input_length:   invariant den >= 2
    eng.loop_specs[(BS, 'while den * 2 <= input_length')] = LoopSpec(
        inv=lambda e, env_: env_.vars['den'] >= 2,
        havoc={'den': havoc_den},
        # ranking function: input_length - den decreases (den doubles)
        decreases=lambda e, env_: env_.vars['input_length'] -
        env_.vars['den'])

    def elem(e, env_, p):
        num = p.fresh_int('num')
        den = env_.vars['den']
        p.assume(z3.And(num >= 0, num < sym._znum(den)))
        return SNum(num)

    eng.loop_specs[(BS, 'for num in reversed(range(0, den))')] = LoopSpec(
        inv=lambda e, env_: True, elem=elem)

    # int(x) of a non-negative real: floor
    from pyvc import builtins_model  # noqa
    orig_int = eng.native_handlers[int]

    def b_int(e, x=0, base=None):
        if isinstance(x, SNum) and not x.is_int:
            p = sym.cur()
            f = p.fresh_int('floor')
            p.assume(z3.And(z3.ToReal(f) <= x.z, x.z < z3.ToReal(f) + 1))
            p.oblige('C12/binary_search/int-of-nonnegative', x.z >= 0)
            return SNum(f)
        return orig_int(e, x, base)

    eng.native_handlers[int] = b_int

    # x / den with symbolic positive den (real division)
    import ast as _ast
    orig_binop = eng.binop

    def binop(op, a, b):
        if isinstance(op, _ast.Div) and isinstance(b, SNum) and \
                isinstance(a, (SNum, int)):
            p = sym.cur()
            p.oblige('C12/binary_search/no-division-by-zero', b.z != 0)
            az = sym._znum(a)
            az = z3.ToReal(az) if az.sort() == z3.IntSort() else az
            bz = z3.ToReal(b.z) if b.is_int else b.z
            return SNum(az / bz)
        return orig_binop(op, a, b)

    eng.binop = binop


def run_bs(eng, p):
    nodes = eng.load_module('ddsmt.nodes')
    n = mk.sint(p, 'n')
    p.assume(n.z >= 0)
    out = []
    try:
        for seg in eng.call(nodes.g['binary_search'], [n], {}):
            out.append(seg)
            s, e = seg
            p.oblige('C12/binary_search/segment-in-bounds',
                     z3.And(sym._znum(s) >= 0, sym._znum(s) < sym._znum(e),
                            sym._znum(e) <= n.z))
        p.oblige('C12/binary_search/raises-nothing', True)
    except PyRaise as e:
        p.oblige('C12/binary_search/raises-nothing', False, info=repr(e))


def contracts(tier):
    from . import traversals, rebuild
    maxn = 5 if tier == 'thorough' else 4
    sh = all_shapes(maxn)
    cs = list(traversals.contracts(tier)) + rebuild.contracts(tier)
    pairs = list(itertools.product(range(len(sh)), repeat=2))
    # group the pairs into chunks: one contract (= one process) per chunk
    nchunks = 64 if tier == 'thorough' else 16

    def make_chunk(chunk):

        def run(eng, p):
            k = p.choose(len(chunk), 'pair')
            i, j = chunk[k]
            make_run_eq(sh[i], sh[j], k)(eng, p)

        return run

    for c in range(nchunks):
        chunk = pairs[c::nchunks]
        if not chunk:
            continue
        cs.append(
            Contract(f'C12/Node.__eq__[pairs {c}]',
                     ['ddsmt.nodes.Node.__eq__', 'ddsmt.nodes.Node.__hash__',
                      'ddsmt.nodes.Node.is_leaf', 'ddsmt.nodes.Node.__len__'],
                     make_chunk(chunk), setup=setup, tier='S',
                     replay=replay_eq,
                     bound=f'all pairs of tree shapes with <= {maxn} nodes '
                     'each; ids, hashes (collisions allowed) and leaf texts '
                     'symbolic',
                     max_paths=200000,
                     assumptions=[
                         'class invariant assumed for the operands: '
                         'hash == hash(data) (hash of str / of a tuple are '
                         'uninterpreted functions, collisions allowed); equal '
                         'ids only on structurally equal nodes'
                     ]))
    cs.append(
        Contract('C12/Node.__eq__[other operands]',
                 ['ddsmt.nodes.Node.__eq__'], run_eq_other, setup=setup,
                 tier='S', bound='shapes with <= 3 nodes'))
    cs.append(
        Contract('C12/binary_search', [BS], run_bs, setup=setup_bs,
                 assumptions=['floats treated as reals (exact division); '
                              'int() of a non-negative real is its floor']))
    return cs


def native_checks(tier):
    t = tier == 'thorough'
    S = 'harness/nodes_native.py'
    A = ['fork start method: workers share the id counter and the string '
         'hash seed; node ids < 2**31 (struct format "i")']
    return [
        NativeCheck('C12/native/eq-hash', ['ddsmt.nodes.Node.__eq__'], S,
                    ['eq', 5 if t else 4],
                    bound=f'pairs of trees <= {5 if t else 4} nodes'),
        NativeCheck('C12/native/deepcopy', ['ddsmt.nodes.Node.__deepcopy__'],
                    S, ['copy', 7 if t else 5],
                    bound=f'trees <= {7 if t else 5} nodes'),
        NativeCheck('C12/native/pickle',
                    ['ddsmt.nodes.Node.__getstate__',
                     'ddsmt.nodes.Node.__setstate__'], S,
                    ['pickle', 7 if t else 5],
                    bound=f'trees <= {7 if t else 5} nodes', assumptions=A),
        NativeCheck('C12/native/traversal',
                    ['ddsmt.nodes.dfs', 'ddsmt.nodes.bfs',
                     'ddsmt.nodes.count_nodes', 'ddsmt.nodes.count_exprs',
                     'ddsmt.nodes.filter_nodes'], S,
                    ['traversal', 7 if t else 6],
                    bound=f'forests <= {7 if t else 6} nodes'),
        NativeCheck('C12/native/binary_search', [BS], S,
                    ['binary_search', 20000 if t else 3000],
                    bound='all lengths up to the bound'),
    ]
