"""C08 -- the reader tokenises SMT-LIB text as the standard prescribes.

Function against the reference reader (harness/refreader.py): bounded,
exhaustive over all strings up to length L over one representative character
per lexical class.  That representatives suffice is justified by the
mechanically checked obligation C08/parse_smtlib/class-abstraction: every
branch condition of the scanner depends on the text only through membership
of a character of the text (the current one, or the last one collected into a
local that provably holds nothing else) in literal character sets that the
alphabet covers.
"""
import ast
import os

from pyvc.api import Contract, NativeCheck

PROPERTY = 'C08'
ALPHA = ['(', ')', '"', '|', ';', ' ', '\t', '\n', '\r', 'a', '#']


def run_class_abstraction(eng, p):
    path = os.path.join(eng.repo, 'ddsmt', 'nodeio.py')
    tree = ast.parse(open(path).read())
    fn = [n for n in tree.body if isinstance(n, ast.FunctionDef) and
          n.name == 'parse_smtlib'][0]
    bad = []
    chars = set()

    def const_chars(node):
        if isinstance(node, ast.Constant) and isinstance(node.value, str):
            return [node.value]
        if isinstance(node, (ast.Tuple, ast.List)) and all(
                isinstance(e, ast.Constant) and isinstance(e.value, str)
                for e in node.elts):
            return [e.value for e in node.elts]
        return None

    def holds_text_chars(name):
        """``name`` only ever holds characters read from the text (a list of
        them, or their concatenation), or literal single characters: every
        assignment, augmented assignment and append is inspected."""
        seen = False
        for n in ast.walk(fn):
            vals = []
            if isinstance(n, ast.Assign) and any(
                    ast.unparse(t) == name for t in n.targets):
                vals.append(n.value)
            elif isinstance(n, ast.AugAssign) and \
                    ast.unparse(n.target) == name:
                if not isinstance(n.op, ast.Add):
                    return False
                vals.append(n.value)
            elif isinstance(n, ast.Call) and isinstance(
                    n.func, ast.Attribute) and ast.unparse(
                        n.func.value) == name:
                if n.func.attr != 'append' or len(n.args) != 1:
                    return False
                vals.append(ast.List(elts=[n.args[0]]))
            for v in vals:
                seen = True
                u = ast.unparse(v)
                if u in ('[char]', "''.join(%s)" % name):
                    continue
                cc = const_chars(v)
                if cc is not None and all(len(x) == 1 for x in cc):
                    chars.update(cc)
                    continue
                return False
        return seen

    def text_char(ls, left):
        if ls == 'char' or ls == 'text[pos]':
            return True
        # the last character collected from the text, e.g. comment[-1]
        if isinstance(left, ast.Subscript) and isinstance(
                left.value, ast.Name) and ast.unparse(
                    left.slice) == '-1':
            return holds_text_chars(left.value.id)
        return False

    def ok_compare(c):
        if len(c.ops) != 1:
            return False
        left, op, right = c.left, c.ops[0], c.comparators[0]
        ls = ast.unparse(left)
        rs = ast.unparse(right)
        if text_char(ls, left):
            cc = const_chars(right)
            if cc is not None and isinstance(op, (ast.In, ast.NotIn, ast.Eq,
                                                  ast.NotEq)):
                chars.update(cc)
                return all(len(x) == 1 for x in cc)
            if rs == 'first_char' and isinstance(op, (ast.Eq, ast.NotEq)):
                return True
            return False
        if ls == 'pos' and rs == 'size':
            return True
        if ls == 'cur_expr' and rs == 'None' and isinstance(
                op, (ast.Is, ast.IsNot)):
            return True
        return False

    def ok_test(t):
        if isinstance(t, ast.Compare):
            return ok_compare(t)
        if isinstance(t, ast.BoolOp):
            return all(ok_test(v) for v in t.values)
        if isinstance(t, ast.UnaryOp) and isinstance(t.op, ast.Not):
            return ok_test(t.operand)
        if isinstance(t, ast.Name) and t.id in ('exprs', 'cur_expr'):
            return True
        if isinstance(t, ast.Constant):
            return True
        return False

    for n in ast.walk(fn):
        if isinstance(n, (ast.If, ast.While)):
            if not ok_test(n.test):
                bad.append(f'line {n.lineno}: {ast.unparse(n.test)}')
        if isinstance(n, ast.IfExp):
            bad.append(f'line {n.lineno}: conditional expression')
    p.oblige('C08/parse_smtlib/class-abstraction', not bad,
             info={'conditions outside the abstraction': bad, 'signature':
                   'scanner branches on something other than a character '
                   'class'})
    p.oblige('C08/parse_smtlib/alphabet-covers-all-classes',
             chars <= set(ALPHA),
             info={'uncovered': sorted(chars - set(ALPHA)), 'signature':
                   'scanner distinguishes a character the enumeration '
                   'alphabet has no representative for'})
    # text is only read, position by position
    stores = [ast.unparse(n) for n in ast.walk(fn)
              if isinstance(n, ast.Subscript) and isinstance(
                  n.ctx, ast.Store)]
    p.oblige('C08/parse_smtlib/text-not-modified', not stores)


def contracts(tier):
    return scanner_contracts(tier) + [
        Contract('C08/parse_smtlib/static', ['ddsmt.nodeio.parse_smtlib'],
                 run_class_abstraction,
                 assumptions=['state-count argument (finite transducer over '
                              'character classes, disagreement shows on '
                              'short strings) is stated, not '
                              'machine-checked']),
    ]


def native_checks(tier):
    L = 7 if tier == 'thorough' else 6
    return [
        NativeCheck('C08/native/parser', ['ddsmt.nodeio.parse_smtlib'],
                    'harness/parser_native.py', ['parse', L],
                    bound=f'all strings of length <= {L} over 11 '
                    'representative characters + 14 hand-picked longer '
                    'texts', timeout=3000),
    ]


# ---------------------------------------------------------------------------
# Deductive contract of the scanner (unbounded text, token length, nesting)
#
# The text is an array of character codes of arbitrary length.  Every loop of
# parse_smtlib has an invariant; for the outer loop the arbitrary iteration
# is checked against the declarative description of *one step of a reader*:
# the lexeme that starts at the current position is determined by first-order
# conditions on the text (maximal munch), it is consumed exactly, and the
# stack of open lists is changed as the lexeme prescribes.  The reader's
# result is the fold of these steps, which is the loop itself.

import z3  # noqa: E402

from pyvc import sym  # noqa: E402
from pyvc.api import outcome  # noqa: E402
from pyvc.interp import LoopSpec, ObjVal, PyRaise, Unsupported  # noqa: E402
from pyvc.sym import SNum, mk_bool  # noqa: E402
from . import env as envmod  # noqa: E402
from . import nodemodel as nm  # noqa: E402
from . import textmodel as tm  # noqa: E402

PS = 'ddsmt.nodeio.parse_smtlib'
WS = [ord(c) for c in ' \t\n\r']
NL = [ord(c) for c in '\n\r']
DELIM = WS + [ord(c) for c in '();']
Q, BAR, SEMI, LP, RP = ord('"'), ord('|'), ord(';'), ord('('), ord(')')

L_OUTER = 'while pos < size'
L_LIT = 'while True'
L_COMMENT = 'while pos < size#2'
L_IDENT = 'while pos < size#3'


def is_in(code, cs):
    return z3.Or([code == c for c in cs])


def forall_range(lo, hi, pred):
    i = z3.Int('i!q')
    return z3.ForAll([i], z3.Implies(z3.And(lo <= i, i < hi), pred(i)))


def tiled(t, P, a, end):
    """Every quote strictly between a and end belongs to exactly one pair of
    adjacent quotes marked (1, 2) in the ghost array P -- with the closing
    quote not followed by a quote this determines the end of a string
    literal uniquely (a second candidate would tile a run of quotes of odd
    and of even length)."""

    def pred(i):
        return z3.Implies(t.at(i) == Q, z3.Or(
            z3.And(P[i] == 1, i + 1 < end, t.at(i + 1) == Q, P[i + 1] == 2),
            z3.And(P[i] == 2, i - 1 > a, t.at(i - 1) == Q, P[i - 1] == 1)))

    return pred


def setup_scanner(eng):
    nm.install(eng)
    tm.install(eng)
    eng._ns = envmod.static_options(eng)
    eng.spec_required.add(PS)

    def T(env_):
        return env_.vars['text']

    def zi(v):
        return tm.zint(v)

    def spans_of(x, text):
        """Segments of a character list (real list of SChar or CharList)."""
        if isinstance(x, list):
            if not all(isinstance(c, tm.SChar) for c in x):
                return None
            x = tm.CharList.of_list(text, x)
        if isinstance(x, tm.CharList):
            return x.single_span()
        return None

    def is_node(x):
        return isinstance(x, ObjVal) and x.cls is nm.node_class(eng)

    # ---- outer loop -----------------------------------------------------------
    def havoc_outer(e, env_, p):
        t = T(env_)
        pos = p.fresh_int('pos')
        env_.vars['pos'] = SNum(pos)
        depth_pos = p.decide(p.fresh_bool('some_list_is_open'))
        below = p.fresh_int('below')
        p.assume(below >= 0)
        if depth_pos:
            cur_ = tm.AbsNodeList('cur')
            st = tm.AbsStack(e, p, below, [cur_])
            env_.vars['cur_expr'] = cur_
        else:
            st = tm.AbsStack(e, p, z3.IntVal(0), [])
            env_.vars['cur_expr'] = None
        env_.vars['exprs'] = st
        env_.vars['char'] = tm.SChar(t, code=p.fresh_int('char'))
        # names the body assigns before reading them
        return None

    def stack_view(x):
        """(below, [entries]) of the stack, real list or AbsStack."""
        if isinstance(x, tm.AbsStack):
            return x.below, list(x.top)
        if isinstance(x, list):
            return z3.IntVal(0), list(x)
        return None

    def inv_outer(e, env_):
        v = env_.vars
        t = T(env_)
        out = [z3.And(zi(v['pos']) >= 0, zi(v['pos']) <= t.size)]
        sv = stack_view(v['exprs'])
        if sv is None:
            return out + [False]
        below, top = sv
        cur_ = v['cur_expr']
        if top:
            shape = cur_ is top[-1]
        else:
            # no visible entry: the stack is empty iff nothing is below
            shape = mk_bool(z3.simplify(below == 0)) if cur_ is None else False
            if cur_ is None and not isinstance(shape, bool):
                shape = mk_bool(below == 0)
        out.append(('C08', sym.zbool(shape) if not isinstance(shape, bool)
                    else shape))
        # every open list holds nodes only
        ok = True
        for lst in top:
            items = lst.appended if isinstance(lst, tm.AbsNodeList) else lst
            if not isinstance(items, list) or not all(
                    is_node(x) for x in items):
                ok = False
        out.append(('C04', ok))
        return out

    def snap_outer(e, env_, p):
        v = env_.vars
        below, top = stack_view(v['exprs'])
        p.ghost['it'] = {
            'pos0': zi(v['pos']), 'below0': below, 'top0': top,
            'cur0': v['cur_expr'],
            'app0': {id(x): len(x.appended) for x in top
                     if isinstance(x, tm.AbsNodeList)},
        }
        p.ghost['yielded'] = []

    def new_leaf(e, p, it, env_, comment=False):
        """The one leaf this iteration produced (appended or yielded), with
        the obligations that nothing else happened to the structure."""
        v = env_.vars
        N = 'C08/parse_smtlib'
        below, top = stack_view(v['exprs'])
        same_stack = len(top) == len(it['top0']) and all(
            a is b for a, b in zip(top, it['top0'])) and \
            tm._provably(below == it['below0'])
        p.oblige(f'{N}/token-leaves-the-open-lists-alone',
                 same_stack and v['cur_expr'] is it['cur0'],
                 info={'signature': 'a token changed the nesting'})
        ys = p.ghost['yielded']
        cur0 = it['cur0']
        if cur0 is None:
            got = ys
            other = sum(len(x.appended) - it['app0'].get(id(x), 0)
                        for x in top if isinstance(x, tm.AbsNodeList))
        else:
            got = cur0.appended[it['app0'].get(id(cur0), 0):]
            other = len(ys)
        p.oblige(f'{N}/token-becomes-exactly-one-leaf-of-the-innermost-'
                 'open-list', len(got) == 1 and other == 0 and is_node(
                     got[0]) if got else False,
                 info={'signature': 'token dropped, duplicated or put '
                       'somewhere else', 'got': repr(got)[:200]})
        if len(got) != 1 or not is_node(got[0]):
            return None
        d = got[0].attrs.get('data')
        if comment and isinstance(d, tm.SpanStr) and len(d.segs) == 2 and \
                d.segs[0][0] == 'span' and d.segs[1][0] == 'chr':
            # a comment: one span of the text and one character after it
            return d.segs[0][1], d.segs[0][2], d.segs[1][1]
        if not isinstance(d, tm.SpanStr) or d.single_span() is None:
            p.oblige(f'{N}/token-text-is-a-contiguous-piece-of-the-input',
                     False, info={'data': repr(d)[:200], 'signature':
                                  'token text is not one span of the text'})
            return None
        if comment:
            return d.single_span() + (None,)
        return d.single_span()

    def nothing_structural(e, p, it, env_, what):
        v = env_.vars
        below, top = stack_view(v['exprs'])
        same = len(top) == len(it['top0']) and all(
            a is b for a, b in zip(top, it['top0'])) and tm._provably(
                below == it['below0']) and \
            v['cur_expr'] is it['cur0'] and not p.ghost['yielded'] and all(
                len(x.appended) == it['app0'].get(id(x), 0) for x in top
                if isinstance(x, tm.AbsNodeList))
        p.oblige(f'C08/parse_smtlib/{what}-changes-nothing', same,
                 info={'signature': f'{what} had an effect on the result'})

    def post_outer(e, env_, p):
        """One iteration == one step of the reader at position pos0."""
        v = env_.vars
        t = T(env_)
        it = p.ghost['it']
        a = it['pos0']
        pos = zi(v['pos'])
        c = t.at(a)
        N = 'C08/parse_smtlib'
        at = lambda i: t.at(i)  # noqa: E731
        where = 'inside-a-list' if it['cur0'] is not None else 'at-top-level'

        def cover(what):
            p.oblige(f'cover/parse_smtlib/{what}-{where}', False,
                     kind='cover')

        if e.truth(mk_bool(is_in(c, WS))):
            cover('white-space')
            nothing_structural(e, p, it, env_, 'white-space')
            p.oblige(f'{N}/white-space-consumes-one-character',
                     mk_bool(pos == a + 1))
        elif e.truth(mk_bool(c == LP)):
            cover('open')
            below, top = stack_view(v['exprs'])
            ok = len(top) == len(it['top0']) + 1 and all(
                x is y for x, y in zip(top, it['top0'])) and tm._provably(
                    below == it['below0']) and \
                isinstance(top[-1], list) and top[-1] == [] and \
                v['cur_expr'] is top[-1] and not p.ghost['yielded'] and all(
                    len(x.appended) == it['app0'].get(id(x), 0)
                    for x in top if isinstance(x, tm.AbsNodeList))
            p.oblige(f'{N}/open-pushes-one-empty-list', ok,
                     info={'signature': '( does not open exactly one new '
                           'innermost list'})
            p.oblige(f'{N}/open-consumes-one-character', mk_bool(pos == a + 1))
        elif e.truth(mk_bool(c == RP)):
            cover('close')
            close_post(e, env_, p, it)
            p.oblige(f'{N}/close-consumes-one-character',
                     mk_bool(pos == a + 1))
        elif e.truth(mk_bool(c == SEMI)):
            cover('comment')
            sp = new_leaf(e, p, it, env_, comment=True)
            if sp is None:
                return
            lo, hi, extra = sp
            # C08: the text of the comment - the leaf without its line break -
            # is what a standard reader takes for it: from ';' up to the
            # first line break or the end of the text.  The leaf is that
            # span with the line break read, or, when the text ends first,
            # with one supplied.
            ended = z3.And(hi == t.size,
                           z3.Or(hi - 1 == a,
                                 z3.Not(is_in(at(hi - 1), NL))))
            broke = z3.And(is_in(at(hi - 1), NL), hi - 1 > a)
            p.oblige(f'{N}/comment-is-one-leaf-up-to-the-line-end', mk_bool(
                z3.And(lo == a, hi == pos, hi > lo, hi <= t.size,
                       forall_range(a + 1, hi - 1,
                                    lambda i: z3.Not(is_in(at(i), NL))),
                       z3.Or(broke, ended),
                       z3.BoolVal(True) if extra is None else z3.And(
                           ended, is_in(extra.code, NL)))),
                info={'signature': 'comment leaf is not exactly the text up '
                      'to and including the first line end'})
            # C07: re-reading a rendering gives the same leaf only if the
            # leaf ends where a reader ends a comment - at a line break
            p.oblige('C07/parse_smtlib/comment-leaf-ends-with-a-line-break',
                     mk_bool(broke if extra is None else
                             is_in(extra.code, NL)),
                     info={'signature': 'a comment that ends the input is '
                           'kept without a line break: rendered and read '
                           'again it is a different leaf'})
        elif e.truth(mk_bool(z3.Or(c == Q, c == BAR))):
            cover('literal')
            sp = new_leaf(e, p, it, env_)
            if sp is None:
                return
            lo, hi = sp
            P = p.ghost['P']
            inner = z3.If(
                c == BAR,
                forall_range(a + 1, hi - 1, lambda i: at(i) != BAR),
                z3.And(
                    z3.Or(hi == t.size, at(hi) != Q),
                    forall_range(a + 1, hi - 1, tiled(t, P, a, hi - 1))))
            p.oblige(f'{N}/literal-is-one-leaf-from-quote-to-closing-quote',
                     mk_bool(z3.And(lo == a, hi == pos, hi - 1 > a,
                                    hi <= t.size, at(hi - 1) == c, inner)),
                     info={'signature': 'string literal / quoted symbol is '
                           'not exactly the text from its opening to its '
                           'closing quote'})
        else:
            cover('token')
            sp = new_leaf(e, p, it, env_)
            if sp is None:
                return
            lo, hi = sp
            p.oblige(f'{N}/token-is-the-maximal-run-of-token-characters',
                     mk_bool(z3.And(
                         lo == a, hi > lo, hi <= t.size,
                         forall_range(a, hi, lambda i: z3.Not(
                             is_in(at(i), DELIM))),
                         z3.Or(hi == t.size, is_in(at(hi), DELIM)),
                         pos == z3.If(z3.And(hi < t.size,
                                             is_in(at(hi), WS)),
                                      hi + 1, hi))),
                     info={'signature': 'token is not the maximal run of '
                           'non-delimiter characters, or more / less than '
                           'the token and one separating blank was consumed'})

    def close_post(e, env_, p, it):
        v = env_.vars
        N = 'C08/parse_smtlib'
        below, top = stack_view(v['exprs'])
        ys = p.ghost['yielded']
        if not it['top0'] and tm._provably(it['below0'] == 0):
            nothing_structural(e, p, it, env_, 'unmatched-close')
            return
        popped = it['top0'][-1]

        def closes(n):
            d = n.attrs.get('data') if is_node(n) else None
            return isinstance(d, tm.AbsTuple) and d.src is popped and \
                d.count == len(popped.appended) and \
                len(popped.appended) == it['app0'].get(id(popped), 0)

        if top:
            # one level up is still open: it receives the closed list
            parent = top[-1]
            ok = len(top) == 1 and parent is not popped and \
                isinstance(parent, tm.AbsNodeList) and \
                tm._provably(below == it['below0'] - 1) and \
                len(parent.appended) == 1 and closes(parent.appended[0]) \
                and v['cur_expr'] is parent and not ys
        else:
            ok = tm._provably(below == 0) and \
                v['cur_expr'] is None and len(ys) == 1 and closes(ys[0])
        p.oblige(f'{N}/close-wraps-the-innermost-list-into-one-node-of-its-'
                 'parent', ok,
                 info={'signature': ') does not turn the innermost open list '
                       'into exactly one node of the enclosing list (or of '
                       'the result at top level)'})

    def ret_outer(e, env_, p):
        """``return`` inside the loop: only for an unterminated literal."""
        v = env_.vars
        t = T(env_)
        it = p.ghost['it']
        a = it['pos0']
        c = t.at(a)
        N = 'C08/parse_smtlib'
        at = lambda i: t.at(i)  # noqa: E731
        p.oblige(f'{N}/gives-up-only-on-an-unterminated-literal', mk_bool(
            z3.And(z3.Or(c == Q, c == BAR),
                   z3.Implies(c == BAR, forall_range(
                       a + 1, t.size, lambda i: at(i) != BAR)))),
                 info={'signature': 'scanner stops early although the '
                       'literal is terminated'})
        nothing_structural(e, p, it, env_, 'unterminated-literal')

    eng.loop_specs[(PS, L_OUTER)] = LoopSpec(
        inv=inv_outer, havoc={'effect:state': havoc_outer},
        sets=('pos', 'cur_expr', 'char'),
        on_iter_start=snap_outer, on_iter_end=post_outer, on_return=ret_outer,
        decreases=lambda e, env_: SNum(
            T(env_).size - zi(env_.vars['pos'])))

    # ---- inner loops ------------------------------------------------------------
    def acc_havoc(var):

        def h(e, env_, p):
            t = T(env_)
            a = p.ghost['it']['pos0']
            pos = p.fresh_int('pos_' + var)
            env_.vars['pos'] = SNum(pos)
            env_.vars[var] = tm.CharList(t, [('span', a, pos)])
            env_.vars['char'] = tm.SChar(t, code=p.fresh_int('char_' + var))

        return h

    def acc_inv(var, extra):

        def inv(e, env_):
            v = env_.vars
            t = T(env_)
            a = cur().ghost['it']['pos0']
            pos = zi(v['pos'])
            sp = spans_of(v[var], t)
            if sp is None:
                return [False]
            lo, hi = sp
            return [z3.And(a < pos, pos <= t.size),
                    ('C08', z3.And(lo == a, hi == pos))] + extra(t, a, pos)

        return inv

    from pyvc.sym import cur  # noqa: E402

    def ident_extra(t, a, pos):
        return [('C08', forall_range(
            a, pos, lambda i: z3.Not(is_in(t.at(i), DELIM))))]

    def comment_extra(t, a, pos):
        return [('C08', forall_range(
            a + 1, pos, lambda i: z3.Not(is_in(t.at(i), NL))))]

    def lit_extra(t, a, pos):
        c = t.at(a)
        P = cur().ghost['P']
        return [z3.Or(c == Q, c == BAR),
                ('C08', z3.Implies(c == BAR, forall_range(
                    a + 1, pos, lambda i: t.at(i) != BAR))),
                ('C08', z3.Implies(c == Q, forall_range(
                    a + 1, pos, tiled(t, P, a, pos))))]

    eng.loop_specs[(PS, L_IDENT)] = LoopSpec(
        inv=acc_inv('token', ident_extra),
        havoc={'effect:state': acc_havoc('token')},
        decreases=lambda e, env_: SNum(T(env_).size - zi(env_.vars['pos'])))
    eng.loop_specs[(PS, L_COMMENT)] = LoopSpec(
        inv=acc_inv('comment', comment_extra),
        havoc={'effect:state': acc_havoc('comment')},
        decreases=lambda e, env_: SNum(T(env_).size - zi(env_.vars['pos'])))

    def lit_inv(e, env_):
        v = env_.vars
        fc = v.get('first_char')
        t = T(env_)
        a = cur().ghost['it']['pos0']
        base = acc_inv('literal', lit_extra)(e, env_)
        if not isinstance(fc, tm.SChar):
            return base
        return base + [mk_bool(fc.code == t.at(a))]

    def lit_entry(e, env_, p):
        p.ghost['P'] = z3.Array(p.fresh_name('pairs0'), z3.IntSort(),
                                z3.IntSort())

    def lit_havoc(e, env_, p):
        acc_havoc('literal')(e, env_, p)
        p.ghost['P'] = z3.Array(p.fresh_name('pairs'), z3.IntSort(),
                                z3.IntSort())

    def lit_start(e, env_, p):
        p.ghost['lit_pos'] = zi(env_.vars['pos'])

    def lit_end(e, env_, p):
        # ghost update: an iteration that consumed two characters consumed an
        # escaped quote -- mark the pair
        pos0 = p.ghost['lit_pos']
        pos = zi(env_.vars['pos'])
        P = p.ghost['P']
        p.ghost['P'] = z3.If(pos == pos0 + 2,
                             z3.Store(z3.Store(P, pos0, 1), pos0 + 1, 2), P)

    eng.loop_specs[(PS, L_LIT)] = LoopSpec(
        inv=lit_inv, havoc={'effect:state': lit_havoc},
        on_entry=lit_entry, on_iter_start=lit_start, on_iter_end=lit_end,
        decreases=lambda e, env_: SNum(
            T(env_).size + 1 - zi(env_.vars['pos'])))


def run_scanner(eng, p):
    nodeio = eng.load_module('ddsmt.nodeio')
    text = tm.SText(p)
    p.ghost['yielded'] = []
    N = 'parse_smtlib'
    try:
        gen = eng.call(nodeio.g['parse_smtlib'], [text], {})
        for n in gen:
            p.ghost['yielded'].append(n)
            p.oblige('C04/parse_smtlib/yields-nodes',
                     isinstance(n, ObjVal) and
                     n.cls is nm.node_class(eng), info=repr(type(n)))
        out = None
    except PyRaise as ex:
        out = ex
    p.oblige('C04/parse_smtlib/raises-nothing', out is None,
             info={'outcome': repr(out.value) if out else '', 'where': str(
                 getattr(out, 'where', '')), 'signature':
                   type(out.value).__name__ if out else ''})


def scanner_replay(name, model, detail):
    """The counter-model gives a text (array of codes + length): it is run,
    alone and embedded in balanced contexts, through the real parser and
    compared with the reference reader."""
    arr = None
    size = None
    for k, v in model.items():
        if isinstance(v, dict) and 'array' in v:
            arr = v['array']
        if k.endswith('text_size'):
            size = v
    if arr is None or not isinstance(size, int):
        return None
    size = max(0, min(size, len(arr)))
    text = ''.join(chr(c) if 0 < c < 0x110000 and chr(c).isprintable() or
                   c in (9, 10, 13, 32) else 'a' for c in arr[:size])
    script = f"""
import sys
from harness import replaylib as R
R.init_ddsmt()
from harness import refreader as ref
from ddsmt import nodeio
base = {text!r}
def plain(n):
    if isinstance(n, (list, tuple)):
        return [plain(x) for x in n]
    return n.data if n.is_leaf() else [plain(c) for c in n.data]
def norm(t):
    return ref.norm_comment(t) if isinstance(t, str) else [norm(c) for c in t]
import itertools
ALPHA = ['(', ')', '"', '|', ';', ' ', '\\t', '\\n', '\\r', 'a', '#']
cands = []
for k in range(3):
    for suf in itertools.product(ALPHA, repeat=k):
        b = base + ''.join(suf)
        cands += [b, '(' + b + ')', '(' + b + '\\n)', '(a ' + b + ' b)',
                  '(a ' + b + '\\n b)', 'a ' + b, '((' + b + '))']
for t in cands:
    try:
        got = plain(list(nodeio.parse_smtlib(t)))
    except Exception as e:
        print('raised', type(e).__name__, e, 'on', repr(t))
        sys.exit(1)
    want, ok = ref.read(t)
    if ok and ref.well_separated(t) and norm(got) != want:
        print('parser gives', norm(got), 'standard reader gives', want,
              'on', repr(t))
        sys.exit(1)
print('no disagreement on', len(cands), 'texts built around', repr(base))
sys.exit(0)
"""
    return {'script': script, 'input': text, 'search': True,
            'decides': {'raised': ['C04', 'C08'],
                        'parser gives': ['C08']}}


def scanner_contracts(tier):
    return [
        Contract('parse_smtlib', [PS], run_scanner, setup=setup_scanner,
                 max_paths=20000, replay=scanner_replay,
                 assumptions=[
                     'text modelled as an array of character codes of '
                     'arbitrary length; str indexing, one-character '
                     'comparisons, list append/pop/[-1], "".join and f(*xs) '
                     'per Python semantics (contracts/textmodel.py)',
                     'the result of the reader is the fold of the verified '
                     'steps (the loop itself); the doubled-quote escape is '
                     'witnessed by a ghost pairing array the contract '
                     'updates']),
    ]
