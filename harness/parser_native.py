"""Bounded stand-ins for C07 / C08 (and the parser part of C04): the real
parser and renderers of ddsmt.nodeio against the reference reader.

usage: parser_native.py parse <L> | render <max_nodes>
"""
import itertools
import multiprocessing
import os
import sys
import tempfile

ARGS = sys.argv[1:]
from harness import replaylib as R  # noqa: E402
from harness.bounded import Recorder, shapes, count_leaves, label  # noqa
from harness import refreader as ref  # noqa: E402

R.init_ddsmt()
from ddsmt import nodeio, options  # noqa: E402
from ddsmt.nodes import Node  # noqa: E402

ALPHA = ['(', ')', '"', '|', ';', ' ', '\t', '\n', '\r', 'a', '#']


def plain(n):
    if isinstance(n, (list, tuple)):
        return [plain(x) for x in n]
    return n.data if n.is_leaf() else [plain(c) for c in n.data]


def norm(t):
    if isinstance(t, str):
        return ref.norm_comment(t)
    return [norm(c) for c in t]


def parse_chunk(args):
    first, L = args
    viol = []
    n = 0
    dom = 0
    samples = []
    for k in range(0, L):
        for rest in itertools.product(ALPHA, repeat=k):
            text = first + ''.join(rest)
            n += 1
            try:
                got = plain(list(nodeio.parse_smtlib(text)))
            except Exception as e:  # noqa
                if len(viol) < 20:
                    viol.append(('C04/native/parser-raises-nothing', text,
                                 f'{type(e).__name__}: {e}'))
                continue
            want, ok = ref.read(text)
            if not ok or not ref.well_separated(text):
                continue
            dom += 1
            if len(samples) < 2 and len(text) >= 4:
                samples.append(text)
            if norm(got) != want:
                if len(viol) < 20:
                    viol.append(('C08/native/parser-agrees-with-reference',
                                 text, f'got {norm(got)!r}, standard reader '
                                 f'gives {want!r}'))
    return n, dom, viol, samples


def check_parse(L):
    rec = Recorder('C08/native/parser', f'all strings of length <= {L} over '
                   f'{len(ALPHA)} representative characters (one per lexical '
                   'class, two for token characters); comparison on those '
                   'that are balanced, complete and separated lexeme '
                   'sequences; exception freedom on all of them')
    # the empty string
    rec.case('')
    if list(nodeio.parse_smtlib('')) != []:
        rec.violation('C08/native/parser-agrees-with-reference', '',
                      'non-empty result')
    with multiprocessing.get_context('fork').Pool(16) as pool:
        for n, dom, viol, samples in pool.imap_unordered(
                parse_chunk, [(a + b, L - 1) for a in ALPHA for b in ALPHA] +
                [(a, 1) for a in ALPHA]):
            rec.evaluations += n
            rec.domain = getattr(rec, 'domain', 0) + dom
            for s in samples:
                if len(rec.samples) < 6:
                    rec.samples.append(s)
            for c, t, w in viol:
                try:
                    rec.violation(c, t, w)
                except SystemExit:
                    pool.terminate()
                    raise
    rec.distinct = set(range(getattr(rec, 'domain', 0)))
    # hand-picked longer texts at class boundaries
    extra = [
        '(a "b""c" |d e| ; x\n #b01)', 'a\r\n(b)\r\n', '(a;c\n)', 'a',
        '"lit"', '(f "x;y" |p(q| ) ; t', '(a\t(b\rc))', '( ; first\n a)',
        '(a "" b)', '(a """" b)', 'a;c\nb', '((a)(b))', '(a)b', '"s"(a)',
    ]
    for text in extra:
        rec.case(text, text)
        try:
            got = plain(list(nodeio.parse_smtlib(text)))
        except Exception as e:  # noqa
            rec.violation('C04/native/parser-raises-nothing', text,
                          f'{type(e).__name__}: {e}')
            continue
        want, ok = ref.read(text)
        if ok and ref.well_separated(text) and norm(got) != want:
            rec.violation('C08/native/parser-agrees-with-reference', text,
                          f'got {norm(got)!r}, standard reader gives '
                          f'{want!r}')
    check_file_reading(rec)
    rec.finish()


def check_file_reading(rec):
    """The reader of the tool, not only of a str: the real executable reads a
    real file (--parser-test prints what it read) and the tokens are compared
    with the reference reader on the characters the file really holds - a CR
    or CR LF inside a string literal or quoted symbol is part of the token."""
    import subprocess
    import tempfile
    repo = os.environ.get('PYVC_REPO', '/repo')
    files = [b'(assert (= s "a\r\nb"))\n',
             b'(declare-const |q\rr| Int)\r\n(assert (> |q\rr| 0))\r\n',
             b'(assert (= s "x\ry")) ; c\r\n(check-sat)\r',
             b'(assert (= s "plain"))\n']
    d = tempfile.mkdtemp(prefix='c08file-')
    try:
        for k, data in enumerate(files):
            f = os.path.join(d, f'in{k}.smt2')
            with open(f, 'wb') as h:
                h.write(data)
            rec.case(('file', k), {'file': repr(data)})
            r = subprocess.run([sys.executable, os.path.join(repo, 'bin',
                                                             'ddsmt'),
                                '--parser-test', f, os.path.join(d, 'out'),
                                'cmd'], capture_output=True, timeout=120,
                               env=dict(os.environ, PYTHONPATH=repo))
            if r.returncode != 0:
                rec.violation('C08/native/file-is-read-as-it-is',
                              {'file': repr(data)},
                              f'--parser-test exit {r.returncode}: '
                              f'{r.stderr[-200:]!r}')
                continue
            want = [ref.norm_comment(t) for t in ref.tokens(
                data.decode())]
            got = [ref.norm_comment(t) for t in ref.tokens(
                r.stdout.decode().replace('None\n', ''))]
            if got != want:
                rec.violation('C08/native/file-is-read-as-it-is',
                              {'file': repr(data)},
                              f'tokens read {got!r}, the file holds '
                              f'{want!r}')
    finally:
        import shutil
        shutil.rmtree(d, ignore_errors=True)


# ---------------------------------------------------------------------------

LEAVES = ['a', 'x' * 100, 'a-b-c', '"a b"', '"a""b"', '"("', '";"', '|q r|',
          '|a\nb|', '; c\n', '#b01', ':kw', '"a \n;b"', '|x \n; y|',
          '"  two  "', '; e']  # last: a comment that ends the input


def build(pl):
    if isinstance(pl, str):
        return Node(pl)
    return Node(*[build(c) for c in pl])


def render_all(exprs, tmpdir):
    out = {}
    o = options.args()
    o.pretty_print = False
    o.wrap_lines = False
    out['default'] = nodeio.write_smtlib_to_str(exprs)
    o.pretty_print = True
    out['pretty'] = nodeio.write_smtlib_to_str(exprs)
    o.pretty_print = False
    o.wrap_lines = True
    out['wrap'] = nodeio.write_smtlib_to_str(exprs)
    o.wrap_lines = False
    fn = os.path.join(tmpdir, 'chk.smt2')
    nodeio.write_smtlib_for_checking(fn, exprs)
    out['checking'] = open(fn).read()
    return out


def _final_comment_unterminated():
    """Does the real parser return a comment that ends the input without a
    line break as a leaf without terminator?  (Asked of the parser, so that
    the lists C07 quantifies over are those it really returns.)"""
    return plain(list(nodeio.parse_smtlib(';c'))) == [';c']


def obtainable(forest):
    """Could the parser return this list?  A comment leaf carries its line
    terminator; one without can only be the very last lexeme, and only if the
    parser keeps such a comment as it stands; no empty leaves."""
    fl = ref.flat(forest)
    last_ok = _final_comment_unterminated()
    for i, t in enumerate(fl):
        if t.startswith(';') and not t.endswith('\n') and \
                (i != len(fl) - 1 or not last_ok):
            return False
    return True


def one_render_case(rec, forest, tmpdir):
    exprs = [build(t) for t in forest]
    want_flat = [ref.norm_comment(t) for t in ref.flat(forest)]
    try:
        outs = render_all(exprs, tmpdir)
    except Exception as e:  # noqa
        rec.violation('C07/native/render-raises-nothing', forest,
                      f'{type(e).__name__}: {e}')
        return
    for mode, text in outs.items():
        rec.case((mode, repr(forest)), {'mode': mode,
                                        'input': repr(forest)[:80]})
        try:
            toks = ref.tokens(text)
        except ref.Bad as e:
            rec.violation(f'C07/native/tokens[{mode}]', forest, str(e))
            continue
        if toks != want_flat:
            rec.violation(f'C07/native/tokens[{mode}]',
                          {'input': forest, 'rendering': text[:200]},
                          'token sequence of the rendering differs: '
                          f'{toks[:12]!r} vs {want_flat[:12]!r}')
            continue
        back = plain(list(nodeio.parse_smtlib(text)))
        # C07: structurally identical, comments included - no normalisation
        if back != forest:
            rec.violation(f'C07/native/reparse[{mode}]',
                          {'input': forest, 'rendering': text[:200]},
                          f're-parsed as {back!r}')


def check_render(maxn):
    rec = Recorder('C07/native/render', f'all forests of <= 2 trees with <= '
                   f'{maxn} nodes, leaves from {len(LEAVES)} lexemes at the '
                   'boundaries the property names; plus wide inputs that '
                   'force line wrapping; all four renderers')
    tmpdir = tempfile.mkdtemp(prefix='c07-')
    trees_by_size = {}
    for n in range(1, maxn + 1):
        ts = []
        for sh in shapes(n):
            k = count_leaves(sh)
            if k > 2:
                labs_iter = itertools.product(LEAVES[:6] + LEAVES[12:14], repeat=k)
            else:
                labs_iter = itertools.product(LEAVES, repeat=k)
            for labs in labs_iter:
                ts.append(label(sh, iter(labs)))
        trees_by_size[n] = ts
    for n in range(1, maxn + 1):
        for t in trees_by_size[n]:
            if obtainable([t]):
                one_render_case(rec, [t], tmpdir)
    for a in range(1, maxn):
        for b in range(1, maxn - a + 1):
            for t1 in trees_by_size[a][:60]:
                for t2 in trees_by_size[b][:60]:
                    if obtainable([t1, t2]):
                        one_render_case(rec, [t1, t2], tmpdir)
    # wide inputs: wrapping must only break between tokens
    wide = [
        [['assert'] + ['abc'] * 30],
        [['assert'] + ['abc'] * 18 + ['"lit with  two spaces"'] + ['d'] * 10],
        [['assert'] + ['abcdefghi'] * 7 + ['"a b c d e f g h i j k"', 'z']],
        [['f'] + ['p-q-r-s-t-u-v-w'] * 12],
        [['f', 'x' * 100, 'y' * 90]],
        [['f'] + ['a'] * 20 + ['; comment in the middle\n'] + ['b'] * 30],
        [['f'] + ['|quoted  symbol|'] * 12],
        [['f'] + [['g', 'a', 'b']] * 15, 'top', ['h']],
    ]
    for f in wide:
        one_render_case(rec, f, tmpdir)
    import shutil
    shutil.rmtree(tmpdir, ignore_errors=True)
    rec.finish()


if __name__ == '__main__':
    if ARGS[0] == 'parse':
        check_parse(int(ARGS[1]))
    else:
        check_render(int(ARGS[1]))
