#!/usr/bin/env python3-vt
"""Debug: list distinct refuted obligations (exception, source line, model pieces) of one contract."""
import sys
sys.path.insert(0, '/verif'); sys.setrecursionlimit(20000)
from pyvc import api
pk = api._run_contract((sys.argv[1], sys.argv[2], sys.argv[3] if len(sys.argv) > 3 else 'quick'))
seen = {}
for r in pk['results']:
    if r['status'] != 'proved':
        d = r['detail'] if isinstance(r['detail'], dict) else {'outcome': r['detail']}
        k = (r['name'], r['status'], d.get('outcome'), d.get('where'))
        if k not in seen:
            seen[k] = {kk: v['sexpr'] for kk, v in (r['model'] or {}).items() if isinstance(v, dict)}
for k, v in seen.items():
    print(k, v)
print('unsupported', pk['unsupported'][:5], 'crash', pk['crash'])
