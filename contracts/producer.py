"""Producer.generate / Producer.__mutate_node for inputs of any size, any
number of mutators and any number of proposals per mutator (C02 completeness,
C04 containment, C05 frame) -- replaces the shape-bounded scripted check as
the deciding part; that one stays as a cross-check.

Three nested loops, each with a generic element:

* ``for node in nodes.bfs(original, max_depth)`` -- bfs through its contract
  (C12/bfs: yields BFS(original) in order): the element is the next node of
  the remaining sequence; ``count`` is its 1-based position.
* ``for m in self.__mutators`` -- an arbitrary mutator: any subset of
  filter / mutations / global_mutations, each returning normally or raising.
* ``for x in m.mutations(linput)`` / ``m.global_mutations(...)`` -- an
  arbitrary proposal; the iterator itself may raise.

Per arbitrary iteration (flag never seen set): a proposal becomes exactly one
task (position, mutator name, the pickled base, the pickled proposal); a
mutator is consulted with exactly this node (and the whole input); a node
beyond ``skip`` is handed to every mutator.  The fold over all nodes /
mutators / proposals is the loops themselves.
"""
import z3

from pyvc import sym
from pyvc.api import Contract
from pyvc.interp import LoopSpec, ObjVal, PyRaise
from pyvc.sym import SNum, mk_bool, cur
from . import nodemodel as nm
from . import worklist as wl
from . import strategies as st

H = 'ddsmt.strategy_hierarchical'
GEN = H + '.Producer.generate'
MUT = H + '.Producer.__mutate_node'
L_NODE = "for node in nodes.bfs(self.__original, params.get('max_depth', None))"
L_MUT = 'for m in self.__mutators'
L_X = 'for x in m.mutations(linput)'
L_G = 'for x in m.global_mutations(linput, self.__original)'
N = 'Producer.generate'


class BfsSeq(sym.Abstract):
    """What nodes.bfs(original, None) returns, by its contract."""

    def __init__(self, F):
        self.F = F


class Proposals(sym.Abstract):
    """Iterable returned by mutations(): arbitrary many Simplifications."""

    def __init__(self, mut, kind, node):
        self.mut, self.kind, self.node = mut, kind, node


class AnyMutator:
    """An arbitrary mutator object (which methods it has and how they
    behave is chosen per path)."""

    def __init__(self, p, tag):
        self.tag = tag
        self.calls = []
        self.raised = False
        self.filter_result = None
        has = p.choose(4, f'{tag}_methods')
        # 0: filter+mutations, 1: mutations only, 2: filter+global,
        # 3: filter+mutations+global
        self._has = {'filter': has != 1, 'mutations': has != 2,
                     'global_mutations': has >= 2}

    def __getattr__(self, name):
        if name in ('filter', 'mutations', 'global_mutations'):
            if not self._has[name]:
                raise AttributeError(name)
            return getattr(self, '_' + name)
        raise AttributeError(name)

    def _filter(self, node):
        self.calls.append(('filter', node))
        k = cur().choose(3, f'{self.tag}_filter')
        if k == 2:
            self.raised = True
            raise PyRaise(st.AnyError('filter'))
        self.filter_result = k == 0
        return k == 0

    def _mutations(self, node):
        self.calls.append(('mutations', node))
        if cur().choose(2, f'{self.tag}_mutations_raises') == 1:
            self.raised = True
            raise PyRaise(st.AnyError('mutations'))
        return Proposals(self, 'local', node)

    def _global_mutations(self, node, exprs):
        self.calls.append(('global_mutations', node, exprs))
        if cur().choose(2, f'{self.tag}_global_raises') == 1:
            self.raised = True
            raise PyRaise(st.AnyError('global_mutations'))
        return Proposals(self, 'global', node)

    def __str__(self):
        return self.tag


AnyMutator.__module__ = 'contracts.producer'


class MutList(sym.Abstract):
    """The list of mutators of the pass (arbitrary length)."""


def setup(eng, flag_mode):
    wl.pre_install(eng)
    st.install_env(eng)
    nm.install(eng)
    wl.install(eng)
    for f in (GEN, MUT):
        eng.spec_required.add(f)
    eng._flag_mode = flag_mode

    # nodes.bfs through its contract (contracts/traversals.py, C12/bfs)
    def bfs(e, exprs, max_depth=None):
        p = cur()
        # C12/bfs and C12/bfs[max_depth]: the (depth-limited) breadth-first
        # sequence of the list handed over
        p.oblige(f'C02/{N}/depth-limit-is-the-one-of-the-pass',
                 max_depth is p.ghost['md_arg'],
                 info={'signature': 'the traversal is limited by something '
                       'else than the max_depth parameter of the pass'})
        ok = isinstance(exprs, wl.AbsList) and exprs is p.ghost['original']
        p.oblige(f'C02/{N}/walks-the-whole-current-input', ok,
                 info={'signature': 'tasks are generated from something '
                       'else than the input the producer was built for'})
        return BfsSeq(p.ghost['F'])

    eng.overrides['ddsmt.nodes.bfs'] = bfs
    eng.to_str_handlers = getattr(eng, 'to_str_handlers', {})

    # ---- node loop ------------------------------------------------------------
    def node_entry(e, env_, p):
        it = env_.vars['__iter__']
        p.oblige(f'C02/{N}/iterates-over-bfs-of-the-input',
                 isinstance(it, BfsSeq))
        if not isinstance(it, BfsSeq):
            raise sym.PathAbort('unexpected iterable')
        p.ghost['idx'] = z3.IntVal(0)

    def node_havoc(e, env_, p):
        c = p.fresh_int('count')
        env_.vars['count'] = SNum(c)
        p.ghost['idx'] = c

    def node_inv(e, env_):
        p = cur()
        return [('C02', sym._znum(env_.vars['count']) == p.ghost['idx']),
                p.ghost['idx'] >= 0]

    def node_elem(e, env_, p):
        n = nm.lazy_node(e, p, p.fresh_name('node'))
        p.ghost['idx'] = p.ghost['idx'] + 1
        p.ghost['node'] = n
        p.ghost['node_tasks'] = []
        p.ghost['mut_loop_entered'] = False
        return n

    def node_end(e, env_, p):
        skip = sym._znum(env_.vars['skip'])
        cnt = p.ghost['idx']
        flag = p.ghost['flag']
        if flag.fixed is False:
            # complete: a node beyond skip is handed to the mutators
            entered = p.ghost['mut_loop_entered']
            p.oblige(f'C02/{N}/every-node-beyond-skip-is-mutated',
                     mk_bool(z3.Implies(skip < cnt, z3.BoolVal(entered))),
                     info={'signature': 'a node beyond skip is not handed '
                           'to the mutators'})
        p.oblige(f'C02/{N}/nodes-up-to-skip-produce-nothing',
                 mk_bool(z3.Implies(z3.Not(skip < cnt), z3.BoolVal(
                     not p.ghost['node_tasks']))))

    def node_break(e, env_, p):
        flag = p.ghost['flag']
        p.oblige(f'C02/{N}/stops-early-only-when-the-flag-is-set',
                 bool(flag.reads) and flag.reads[-1] is True,
                 info={'signature': 'generation stops although the abort '
                       'flag was not seen set'})

    eng.loop_specs[(GEN, L_NODE)] = LoopSpec(
        inv=node_inv, havoc={'effect:state': node_havoc}, elem=node_elem,
        on_entry=node_entry, on_iter_end=node_end, on_break=node_break,
        sets=('count', ))

    # ---- mutator loop -----------------------------------------------------------
    def mut_entry(e, env_, p):
        it = env_.vars['__iter__']
        p.oblige(f'C14/{N}/uses-the-mutators-of-the-pass',
                 it is p.ghost['mutators'])
        p.ghost['mut_loop_entered'] = True
        p.oblige(f'C02/{N}/mutates-the-node-of-this-position',
                 mk_bool(sym._znum(env_.vars['count']) == p.ghost['idx']))
        p.oblige(f'C02/{N}/mutators-get-the-node-itself',
                 env_.vars['linput'] is p.ghost['node'])

    def mut_elem(e, env_, p):
        m = AnyMutator(p, p.fresh_name('M'))
        p.ghost['m'] = m
        p.ghost['m_tasks'] = []
        return m

    def mut_end(e, env_, p):
        m = p.ghost['m']
        node = p.ghost['node']
        flag = p.ghost['flag']
        # consulted with this node (and the whole input) only
        ok = all(c[1] is node for c in m.calls) and all(
            c[2] is p.ghost['original'] for c in m.calls
            if c[0] == 'global_mutations')
        p.oblige(f'C15/{N}/mutator-called-with-the-node-and-the-whole-input',
                 ok)
        if flag.fixed is False:
            names = [c[0] for c in m.calls]
            p.oblige(f'C02/{N}/filter-consulted-once-if-present',
                     names.count('filter') == (1 if m._has['filter'] else 0))
            passes = (not m._has['filter']) or m.filter_result is True
            # a failure of this mutator costs only its remaining proposals
            want_mut = 1 if (passes and m._has['mutations']) else 0
            p.oblige(f'C02/{N}/mutations-requested-iff-the-filter-passes',
                     names.count('mutations') == want_mut,
                     info={'calls': names, 'signature': 'mutations() not '
                           'requested from a mutator whose filter accepts '
                           'the node (or requested from one that rejects)'})
            if not m.raised:
                want_g = 1 if (passes and m._has['global_mutations']) else 0
                p.oblige(f'C02/{N}/global-mutations-requested-iff-the-'
                         'filter-passes',
                         names.count('global_mutations') == want_g,
                         info={'calls': names})

    def flag_break(what):

        def on_break(e, env_, p):
            flag = p.ghost['flag']
            p.oblige(f'C02/{N}/{what}-cut-short-only-when-the-flag-is-set',
                     bool(flag.reads) and flag.reads[-1] is True,
                     info={'signature': 'work is skipped although the abort '
                           'flag was not seen set'})

        return on_break

    eng.loop_specs[(MUT, L_MUT)] = LoopSpec(
        inv=lambda e, env_: True, elem=mut_elem, on_entry=mut_entry,
        on_iter_end=mut_end, on_break=flag_break('mutators'))

    # ---- proposal loops -------------------------------------------------------
    def make_prop_spec(kind):

        def entry(e, env_, p):
            it = env_.vars['__iter__']
            ok = isinstance(it, Proposals) and it.kind == kind and \
                it.mut is p.ghost['m'] and it.node is p.ghost['node']
            p.oblige(f'C02/{N}/walks-over-the-{kind}-proposals-of-this-'
                     'mutator-for-this-node', ok)
            if not ok:
                raise sym.PathAbort('unexpected iterable')

        def elem(e, env_, p):
            if p.choose(2, f'{kind}_iterator_raises') == 1:
                p.ghost['m'].raised = True
                raise PyRaise(st.AnyError(f'{kind} proposals iterator'))
            mu = e.load_module('ddsmt.mutator_utils')
            x = e.call(mu.g['Simplification'], [sym_dict(), []], {})
            p.ghost['x'] = x
            p.ghost['x_tasks'] = []
            return x

        def end(e, env_, p):
            flag = p.ghost['flag']
            ts = p.ghost['x_tasks']
            x = p.ghost['x']
            m = p.ghost['m']
            want_name = m.tag if kind == 'local' else f'(global) {m.tag}'

            def good(t):
                return is_task(e, t) and isinstance(
                    t.simp, st.Pickled) and t.simp.payload is x and \
                    isinstance(t.exprs, st.Pickled) and \
                    t.exprs.payload is p.ghost['original'] and \
                    t.name == want_name and e.truth(mk_bool(
                        sym._znum(t.nodeid) == p.ghost['idx']))

            if flag.fixed is False:
                p.oblige(f'C02/{N}/a-proposal-becomes-exactly-one-task',
                         len(ts) == 1 and good(ts[0]),
                         info={'signature': 'a proposal is dropped, '
                               'duplicated or mislabelled although the '
                               'abort flag was never set', 'tasks':
                               repr(ts)[:200]})
            else:
                p.oblige(f'C02/{N}/at-most-one-task-per-proposal',
                         len(ts) <= 1 and all(good(t) for t in ts))

        return LoopSpec(inv=lambda e, env_: True, elem=elem, on_entry=entry,
                        on_iter_end=end,
                        on_break=flag_break(f'{kind}-proposals'))

    eng.loop_specs[(MUT, L_X)] = make_prop_spec('local')
    eng.loop_specs[(MUT, L_G)] = make_prop_spec('global')


def sym_dict():
    from pyvc.interp import SymDict
    return SymDict()


def is_task(eng, t):
    return isinstance(t, tuple) and hasattr(t, 'nodeid') and hasattr(
        t, 'simp') and hasattr(t, 'exprs') and hasattr(t, 'name')


def make_run(flag_mode):

    def run(eng, p):
        hier = eng.load_module(H)
        original, F = wl.forest(eng, p)
        p.ghost['F'] = F
        p.ghost['original'] = original
        muts = MutList()
        p.ghost['mutators'] = muts
        flag = st.WorkerFlag(False if flag_mode == 'clear' else None)
        p.ghost['flag'] = flag
        prod = eng.call(hier.g['Producer'], [muts, flag, original], {})
        skip = p.fresh_int('skip')
        p.assume(skip >= 0)
        params = sym_dict()
        p.ghost['md_arg'] = None
        if p.decide(p.fresh_bool('pass_has_max_depth')):
            md = p.fresh_int('max_depth')
            p.assume(md >= 1)
            p.ghost['md_arg'] = SNum(md)
            params = eng.dict_set(params, 'max_depth', p.ghost['md_arg'])
        err = None
        try:
            for t in eng.call(eng.getattr(prod, 'generate'),
                              [SNum(skip), params], {}):
                for key in ('node_tasks', 'm_tasks', 'x_tasks'):
                    if key in p.ghost:
                        p.ghost[key].append(t)
                ok = is_task(eng, t) and isinstance(t.exprs, st.Pickled) \
                    and t.exprs.payload is original
                p.oblige(f'C05/{N}/every-task-carries-the-base', ok)
                p.oblige(f'C02/{N}/task-only-for-nodes-beyond-skip',
                         mk_bool(skip < p.ghost['idx']))
        except PyRaise as ex:
            err = ex
        p.oblige(f'C04/{N}/mutator-failures-contained', err is None,
                 info={'outcome': repr(err.value) if err else '',
                       'signature': 'exception escapes Producer.generate'})
        p.oblige(f'C05/{N}/never-writes-the-abort-flag', flag.writes == 0)

    return run


def contracts(tier):
    A = [st.ASSUME_EVENT, st.ASSUME_PICKLE,
         'nodes.bfs through its contract (C12/bfs, C12/bfs[max_depth]: the '
         '(depth-limited) breadth-first sequence of the list)',
         'mutators are arbitrary objects: any subset of filter / mutations / '
         'global_mutations, each returning or raising; proposal iterators of '
         'arbitrary length that may raise',
         'the input is an abstract list of arbitrary length']
    cs = []
    for fm in ('clear', 'havoc'):
        cs.append(Contract(
            f'Producer.generate[any input, flag {fm}]', [GEN, MUT],
            make_run(fm), setup=lambda e, fm=fm: setup(e, fm),
            assumptions=A, max_paths=20000))
    return cs
