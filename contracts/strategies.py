"""Contracts on the reduction strategies (C01, C02, C05, C13 call sites).

The real ``reduce`` functions are interpreted with

* abstract inputs: a list of s-expressions is a term of the uninterpreted
  sort ``Exprs``; ghost functions FLAT (token sequence), ACC (the command was
  run on exactly these tokens and matched the golden run), AS (apply a
  simplification), REDUP (re-duplication, with FLAT(REDUP(e)) == FLAT(e) and
  TREE(REDUP(e)) from C13's contract);
* loop invariants (LoopSpec) for the fixed-point loops and for the loop over
  the results of ``pool.imap_unordered``; every result is an *arbitrary*
  value satisfying the contract of the worker function, so all completion
  orders of parallel checks are covered;
* assumed environment contracts for multiprocessing (env section below).

The worker functions (Consumer.check, _worker) and the task generators
(Producer.generate, TaskGenerator) are verified against the contracts used
here by separate Contract objects in this file.
"""
import types

import z3

from pyvc import mk, sym
from pyvc.api import Contract, NativeCheck, outcome
from pyvc.interp import LoopSpec, ObjVal, PyRaise, SymDict, Unsupported
from pyvc.sym import SBool, SNum, SStr, SOpt, mk_bool, force, cur
from . import env, nodemodel as nm

# ---------------------------------------------------------------------------
# ghost vocabulary

E = z3.DeclareSort('Exprs')
Tok = z3.DeclareSort('Tokens')
Simp = z3.DeclareSort('Simp')
FLAT = z3.Function('FLAT', E, Tok)
ACC = z3.Function('ACC', Tok, z3.BoolSort())
AS = z3.Function('AS', E, Simp, E)
REDUP = z3.Function('REDUP', E, E)
TREE = z3.Function('TREE', E, z3.BoolSort())
# every task of the pass for base e and BFS positions > skip was checked by
# the command and rejected
REJALL = z3.Function('REJALL', E, z3.IntSort(), z3.IntSort(), z3.BoolSort())

ASSUME_POOL = (
    'multiprocessing.Pool.imap_unordered(f, g) yields exactly one f(t) per '
    'task t produced by g, in any order; g runs concurrently with the '
    'consumer loop; the iterator ends only after every submitted task has '
    'reported; with one worker results arrive in submission order')
ASSUME_EVENT = (
    'Manager().Event(): a shared Boolean; is_set() in a worker or in the '
    'feeder thread returns an arbitrary value (every such read is havocked)')
ASSUME_PICKLE = ('pickle.loads(pickle.dumps(x)) is structurally x with the '
                 'same node ids (C12 checks Node.__getstate__/__setstate__)')


class AbsExprs:
    """A list of s-expressions known only as a term of sort Exprs."""

    def __init__(self, term, label=''):
        self.term = term
        self.label = label

    def __repr__(self):
        return f'<exprs {self.term}>'


class Pickled:
    """pickle.dumps(x) -- modelled as a wrapper (see ASSUME_PICKLE)."""

    def __init__(self, payload):
        self.payload = payload


class AbortFlag:
    """The shared abort flag as seen by the main process."""

    def __init__(self, p):
        self.state = False  # bool or SBool
        self.writers = []

    def set(self):
        self.state = True
        self.writers.append(('set', list(_stack())))
        cur().ghost['ever_set'] = True
        cur().ghost['ever_set_sweep'] = True

    def clear(self):
        self.state = False
        self.writers.append(('clear', list(_stack())))

    def is_set(self):
        return self.state


_ENG = [None]


def _stack():
    return _ENG[0].stack if _ENG[0] is not None else []


def fresh_exprs(p, name):
    return AbsExprs(z3.Const(p.fresh_name(name), E), name)


def tok_eq(a, b):
    return a == b


# ---------------------------------------------------------------------------
# environment shared by the strategy contracts


def install_env(eng, jobs=1):
    _ENG[0] = eng
    eng._ns = env.static_options(eng, jobs=jobs, outfile='<outfile>',
                                 infile='<infile>')
    eng.native_modules['time'] = env.time_model()

    pk = env.ModelNS()
    pk.dumps = lambda x: Pickled(x)

    def loads(x):
        if not isinstance(x, Pickled):
            raise PyRaise(TypeError('a bytes-like object is required'))
        return x.payload

    pk.loads = loads
    pk.dumps.__module__ = 'contracts.strategies'
    eng.native_modules['pickle'] = pk
    eng.isinstance_handlers[Pickled] = lambda e, x, c: (
        isinstance(c, type) and issubclass(bytes, c))

    mp = env.ModelNS()

    class Pool:

        def __init__(self, n=None):
            self.n = n

        def __enter__(self):
            return self

        def __exit__(self, *a):
            return False

        def imap_unordered(self, f, it):
            return ('imap_unordered', f, it)

    class Manager:

        def Event(self):
            f = AbortFlag(cur())
            cur().ghost.setdefault('flags', []).append(f)
            return f

    Pool.__module__ = Manager.__module__ = 'contracts.strategies'
    mp.Pool = Pool
    mp.Manager = Manager
    mp.Value = lambda *a: None
    eng.native_modules['multiprocessing'] = mp
    # Node uses multiprocessing.Value at class creation: keep the real one
    import multiprocessing as real_mp
    mp.Value = real_mp.Value


# ---------------------------------------------------------------------------
# strategy_hierarchical.reduce

HR = 'ddsmt.strategy_hierarchical.reduce'
L_PASS = 'for passid in range(len(passes))'
L_SWEEP = 'while True'
L_RES = ('for result in pool.imap_unordered(cons.check, '
         'prod.generate(skip, params))')


class PassTok:
    """An opaque non-empty list of mutators."""

    def __init__(self, pid):
        self.pid = pid

    def __bool__(self):
        return True

    def __repr__(self):
        return f'<pass {self.pid}>'


def setup_hier(eng, jobs=4):
    install_env(eng, jobs)
    eng._jobs = jobs
    hier = eng.load_module('ddsmt.strategy_hierarchical')
    Task = hier.g['Task']

    # -- callees used through their contracts -------------------------------
    def get_passes(e):
        return cur().ghost['passes']

    eng.overrides['ddsmt.strategy_hierarchical.get_passes'] = get_passes

    # the real MutatorStats (statistics enabled or not: symbolic)
    stats_cls = hier.g['MutatorStats']

    def make_stats(e):
        o = ObjVal(stats_cls)
        o.attrs['data'] = SymDict()
        o.attrs['_MutatorStats__enabled'] = mk.sbool(cur(), 'stats_enabled')
        return o

    eng.overrides['ddsmt.strategy_hierarchical.MutatorStats'] = make_stats
    eng.overrides['ddsmt.strategy_hierarchical.MutatorStats.print'] = \
        lambda e, self: None

    def count_exprs(e, x):
        v = cur().fresh_int('nexprs')
        cur().assume(v >= 0)
        return SNum(v)

    eng.overrides['ddsmt.nodes.count_exprs'] = count_exprs

    def collect_information(e, exprs):
        cur().ghost['collected_for'] = exprs

    eng.overrides['ddsmt.smtlib.collect_information'] = collect_information

    def count_nodes(e, exprs):
        v = cur().fresh_int('cnt')
        cur().assume(v >= 0)
        return SNum(v)

    eng.overrides['ddsmt.nodes.count_nodes'] = count_nodes

    class Prod:

        def __init__(self, mutators, flag, original):
            p = cur()
            self.mutators, self.flag, self.original = mutators, flag, original
            g = p.ghost
            g['B'] = original
            g['B_pass'] = mutators
            # C13 call site: the input a new round is generated from is a tree
            p.oblige('C13/hier.reduce/producer-input-is-a-tree',
                     TREE(original.term),
                     info={'signature': 'Producer built from an input that '
                           'is neither parser output nor reduplicated'})
            p.oblige('C16/hier.reduce/tables-rebuilt-for-current-input',
                     g.get('collected_for') is original)
            p.oblige('C02/hier.reduce/abort-flag-clear-at-sweep-start',
                     flag.state is False)

        def generate(self, skip, params):
            cur().ghost['gen_skip'] = skip
            cur().ghost['gen_params'] = params
            return ('generate', self, skip)

    class Cons:

        def __init__(self, flag):
            self.flag = flag

        def check(self, task):
            raise sym.Unsupported('Consumer.check is used via its contract')

    Prod.__module__ = Cons.__module__ = 'contracts.strategies'
    eng.overrides['ddsmt.strategy_hierarchical.Producer'] = \
        lambda e, m, f, o: Prod(m, f, o)
    eng.overrides['ddsmt.strategy_hierarchical.Consumer'] = \
        lambda e, f: Cons(f)

    def reduplicate(e, x):
        p = cur()
        if not isinstance(x, AbsExprs):
            # the contract of reduplicate is stated over abstract inputs; a
            # concrete argument is outside this model, not an error of ddSMT
            raise Unsupported('reduplicate contract applied to a concrete '
                              f'{type(x).__name__}')
        r = AbsExprs(REDUP(x.term), 'redup')
        p.assume(FLAT(r.term) == FLAT(x.term))  # C13 contract
        p.assume(TREE(r.term))
        return r

    eng.overrides['ddsmt.nodes.reduplicate'] = reduplicate

    def write_file(e, filename, x):
        p = cur()
        g = p.ghost
        ok_name = filename == '<outfile>'
        p.oblige('C01/hier.reduce/writes-only-the-output-file', ok_name)
        if not isinstance(x, AbsExprs):
            p.oblige('C01/hier.reduce/write-accepted', False,
                     info='written value is not a list of expressions')
            return
        p.oblige('C01/hier.reduce/write-accepted', ACC(FLAT(x.term)),
                 info={'signature': 'a list is written that the command '
                       'was not run on / did not accept'})
        # C05: derived by ONE proposal from the predecessor of the chain,
        # and accepted before it was written
        B = g.get('B')
        cand = g.get('adopted_from')  # (E term of candidate, sigma) or None
        p.oblige('C05/hier.reduce/written-is-candidate-of-current-base',
                 cand is not None and z3.And(
                     FLAT(x.term) == FLAT(cand[0]),
                     cand[0] == AS(B.term, cand[1])),
                 info={'signature': 'written list is not one simplification '
                       'of the current base'})
        p.oblige('C05/hier.reduce/base-is-chain-predecessor',
                 FLAT(B.term) == g['last'],
                 info={'signature': 'stale adoption: base of the adopted '
                       'candidate is not the last written input'})
        g['last'] = FLAT(x.term)
        g['written'] = True
        g['writes'] = g.get('writes', 0) + 1

    eng.overrides['ddsmt.nodeio.write_smtlib_to_file'] = write_file

    # -- loop invariants -----------------------------------------------------------
    def flag_of(env_):
        return env_.vars['abort_flag']

    def common(p, env_):
        """FLAT(exprs)==last, written => ACC(last), TREE(exprs)"""
        g = p.ghost
        ex = env_.vars['exprs']
        if not isinstance(ex, AbsExprs):
            return [False]
        return [
            ('C01+C06', FLAT(ex.term) == g['last']),
            ('C01', z3.Implies(sym.zbool(g['written']), ACC(g['last']))),
            ('C01', z3.Implies(z3.Not(sym.zbool(g['written'])),
                               ex.term == g['input'].term)),
            ('C13', TREE(ex.term))]

    def havoc_common(e, env_, p):
        g = p.ghost
        env_.vars['exprs'] = fresh_exprs(p, 'exprs')
        env_.vars['nchecks'] = mk.sint(p, 'nchecks')
        env_.vars['nreduce'] = mk.sint(p, 'nreduce')
        g['last'] = z3.Const(p.fresh_name('last'), Tok)
        g['written'] = mk.sbool(p, 'written')

    # sweep loop (while True)
    def inv_sweep(e, env_):
        p = cur()
        v = env_.vars
        return common(p, env_) + [
            ('C02', z3.Implies(sym.zbool(v['fresh_run']),
                               sym._znum(v['skip']) == 0)),
            ('C02', sym._znum(v['skip']) >= 0),
        ]

    def havoc_sweep(e, env_, p):
        havoc_common(e, env_, p)
        env_.vars['skip'] = mk.sint(p, 'skip')
        env_.vars['fresh_run'] = mk.sbool(p, 'fresh_run')
        flag_of(env_).state = mk.sbool(p, 'flag_at_sweep_head')

    def on_break_sweep(e, env_, p):
        # a pass is left: it must be at a fixed point for the current input
        g = p.ghost
        ex = env_.vars['exprs']
        pid = g['B_pass'].pid
        p.oblige('C02/hier.reduce/pass-left-only-at-fixed-point',
                 z3.And(REJALL(ex.term, z3.IntVal(pid), z3.IntVal(0)),
                        ex.term == g['B'].term),
                 info={'signature': 'a pass is left although some proposal '
                       'for the current input was not tried and rejected'})
        g.setdefault('brk', {})[pid] = ex

    eng.loop_specs[(HR, L_SWEEP)] = LoopSpec(
        inv=inv_sweep, havoc={'effect:sweep': havoc_sweep},
        on_break=on_break_sweep)

    # result loop
    def inv_res(e, env_):
        p = cur()
        g = p.ghost
        v = env_.vars
        red = sym.zbool(v['reduction'])
        B = g['B']
        ex = v['exprs']
        if not isinstance(ex, AbsExprs):
            return [False]
        return [
            # the flag, as the main process sees it, is set iff a result of
            # this sweep was adopted
            ('C05', sym.zbool(flag_of(env_).state) == red),
            ('C02', sym.zbool(g['ever_set_sweep']) == red),
            ('C05', z3.Implies(z3.Not(red), z3.And(
                ex.term == B.term,
                g['last'] == g['last0'],
                sym.zbool(g['written']) == sym.zbool(g['written0'])))),
            ('C02', z3.Implies(z3.Not(red), z3.And(
                sym._znum(v['skip']) == sym._znum(g['skip0']),
                sym.zbool(v['fresh_run']) == sym.zbool(g['fresh0'])))),
            ('C02', z3.Implies(red, z3.Not(sym.zbool(v['fresh_run'])))),
            ('C01', z3.Implies(red, z3.And(sym.zbool(g['written']),
                                           ACC(g['last'])))),
            ('C01+C06', FLAT(ex.term) == g['last']),
            ('C13', TREE(ex.term)),
            ('C01', z3.Implies(sym.zbool(g['written']), ACC(g['last']))),
            ('C01', z3.Implies(z3.Not(sym.zbool(g['written'])),
                               ex.term == g['input'].term)),
            ('C05', FLAT(B.term) == g['last0']),
            ('C02', sym._znum(v['skip']) >= 0),
            ('C02', sym._znum(g['skip0']) >= 0),
            ('C02', z3.Implies(sym.zbool(g['fresh0']),
                               sym._znum(g['skip0']) == 0)),
        ] + ([
            # one worker: results arrive in submission order, so the results
            # drained after a success never lower skip -- which candidate is
            # adopted next does not depend on timing
            ('C18', z3.Implies(red, z3.And(
                sym._znum(v['skip']) == sym._znum(g['adopted']) - 1,
                sym._znum(g['last_nodeid']) >= sym._znum(g['adopted'])))),
        ] if eng._jobs == 1 else [])

    def havoc_res(e, env_, p):
        g = p.ghost
        # values at the start of the sweep (fixed during the loop)
        g['skip0'] = env_.vars['skip']
        g['fresh0'] = env_.vars['fresh_run']
        g['last0'] = g['last']
        g['written0'] = g['written']
        g['ever_set_sweep'] = False
        g['adopted'] = 0
        g['last_nodeid'] = 0

    def havoc_res2(e, env_, p):
        g = p.ghost
        env_.vars['exprs'] = fresh_exprs(p, 'exprs_l')
        env_.vars['nchecks'] = mk.sint(p, 'nchecks_l')
        env_.vars['nreduce'] = mk.sint(p, 'nreduce_l')
        env_.vars['skip'] = mk.sint(p, 'skip_l')
        env_.vars['fresh_run'] = mk.sbool(p, 'fresh_run_l')
        env_.vars['reduction'] = mk.sbool(p, 'reduction_l')
        g['last'] = z3.Const(p.fresh_name('last_l'), Tok)
        g['written'] = mk.sbool(p, 'written_l')
        flag_of(env_).state = mk.sbool(p, 'flag_l')
        g['ever_set_sweep'] = mk.sbool(p, 'ever_set_l')
        g['adopted_from'] = None
        g['adopted'] = mk.sint(p, 'adopted_l')
        g['last_nodeid'] = mk.sint(p, 'last_nodeid_l')

    class ResSpec(LoopSpec):
        pass

    def elem_res(e, env_, p):
        """An arbitrary result of Consumer.check for an arbitrary task of the
        current producer (contracts K and G, pool contract)."""
        g = p.ghost
        B = g['B']
        nodeid = p.fresh_int('nodeid')
        # Producer.generate: nodeid == count, skip < count
        p.assume(z3.And(nodeid >= 1, nodeid > sym._znum(g['skip0'])))
        if eng._jobs == 1:
            # Pool(1): in submission order = generation order
            p.assume(nodeid >= sym._znum(g['last_nodeid']))
            g['last_nodeid'] = SNum(nodeid)
        success = p.decide(p.fresh_bool('result_success'))
        name = 'mutator'
        if success:
            sigma = z3.Const(p.fresh_name('sigma'), Simp)
            cand = z3.Const(p.fresh_name('cand'), E)
            # Consumer.check: success => the returned list is AS(base, simp),
            # the command was run on it and matched
            p.assume(cand == AS(B.term, sigma))
            p.assume(ACC(FLAT(cand)))
            ce = AbsExprs(cand, 'candidate')
            ce.sigma = sigma
            ce.nodeid = SNum(nodeid)
            task = Task(SNum(nodeid), name, ce, None, mk.sreal(p, 'rt'))
            return Pickled((True, task))
        aborted = p.decide(p.fresh_bool('result_aborted'))
        rt = None if aborted else mk.sreal(p, 'rt')
        task = Task(SNum(nodeid), name, None, None, rt)
        if not aborted:
            # a genuine rejection by the command
            g['genuine_rejections'] = g.get('genuine_rejections', 0) + 1
        return Pickled((False, task))

    def exhausted_res(e, env_, p):
        """Pool + Producer + Consumer contracts at the end of a sweep: if the
        flag was never set, every task of the pass for positions > skip0 was
        generated, checked and genuinely rejected."""
        g = p.ghost
        p.assume(z3.Implies(
            z3.Not(sym.zbool(g['ever_set_sweep'])),
            REJALL(g['B'].term, z3.IntVal(g['B_pass'].pid),
                   sym._znum(g['skip0']))))

    def inv_res_pre(e, env_):
        # first evaluation (entry): snapshot the sweep-start values
        return inv_res(e, env_)

    eng.loop_specs[(HR, L_RES)] = LoopSpec(
        inv=inv_res, on_entry=havoc_res,
        havoc={'effect:a': havoc_res2},
        elem=elem_res, exhausted=exhausted_res)

    # hook: adoption bookkeeping -- `exprs = nodes.reduplicate(task.exprs)`
    orig_redup = eng.overrides['ddsmt.nodes.reduplicate']

    def reduplicate2(e, x):
        p = cur()
        if isinstance(x, AbsExprs) and hasattr(x, 'sigma'):
            p.ghost['adopted_from'] = (x.term, x.sigma)
            p.ghost['adopted'] = x.nodeid
        return orig_redup(e, x)

    eng.overrides['ddsmt.nodes.reduplicate'] = reduplicate2


def run_hier_reduce(eng, p):
    hier = eng.load_module('ddsmt.strategy_hierarchical')
    g = p.ghost
    inp = fresh_exprs(p, 'input')
    # precondition: the input is a tree (parser output or ddmin's
    # reduplicated result -- C13 call sites in cli / _apply_mutator)
    p.assume(TREE(inp.term))
    g['last'] = FLAT(inp.term)
    g['input'] = inp
    g['written'] = False
    g['ever_set'] = False
    P0, P2 = PassTok(0), PassTok(2)
    g['passes'] = [(P0, SymDict([('max_depth', 1)])), [], P2]
    g['fixed'] = {}

    out = outcome(eng, hier.g['reduce'], [inp])
    brk = g.get('brk', {})
    p.oblige('C04/hier.reduce/raises-nothing', out.kind == 'return',
             info=repr(out))
    if out.kind != 'return':
        return
    res, nchecks = out.value
    ok = isinstance(res, AbsExprs)
    p.oblige('C01/hier.reduce/returns-a-list', ok)
    if not ok:
        return
    # C01: what is returned is what the output file holds (or nothing was
    # written and it is the input)
    p.oblige('C01/hier.reduce/result-is-last-written',
             FLAT(res.term) == g['last'])
    p.oblige('C01/hier.reduce/nothing-written-means-input-returned',
             z3.Or(sym.zbool(g['written']), res.term == inp.term))
    # C02: the result is a fixed point of the last pass
    p.oblige('C02/hier.reduce/result-is-fixed-point-of-last-pass',
             P2.pid in brk and mk_bool(z3.And(
                 brk[P2.pid].term == res.term,
                 REJALL(res.term, z3.IntVal(P2.pid), z3.IntVal(0)))),
             info={'signature': 'returned input is not the one the last '
                   'pass ended its unsuccessful fresh sweep on'})
    # C05: single writer of the abort flag
    flags = g.get('flags', [])
    p.oblige('C05/hier.reduce/one-abort-flag', len(flags) == 1)


def hier_contracts(tier):
    A = [ASSUME_POOL, ASSUME_EVENT, ASSUME_PICKLE,
         'Producer.generate / Consumer.check / nodes.reduplicate / '
         'write_smtlib_to_file / collect_information used through their '
         'contracts (verified separately: Producer.generate[any input], '
         'Consumer.check, reduplicate[any input] + C13 tier S, '
         'write_smtlib[*] in contracts/writers.py, C04/collect_information)',
         'inputs are abstract (uninterpreted sort Exprs with FLAT/ACC/AS)']
    return [
        Contract('hier.reduce', [HR], run_hier_reduce, setup=setup_hier,
                 assumptions=A, max_paths=20000),
        Contract('hier.reduce[-j 1]', [HR], run_hier_reduce,
                 setup=lambda e: setup_hier(e, 1),
                 assumptions=A + ['one worker: results arrive in submission '
                                  'order'], max_paths=20000),
    ]


def c13_contracts(tier):
    return []


# ---------------------------------------------------------------------------
# Consumer.check against the contract used in the result loop


class WorkerFlag:
    """The abort flag as seen from a worker / the feeder thread: every read
    returns an arbitrary value (all schedules)."""

    def __init__(self, fixed=None):
        self.reads = []
        self.fixed = fixed
        self.writes = 0

    def is_set(self):
        if self.fixed is not None:
            self.reads.append(self.fixed)
            return self.fixed
        b = cur().fresh_bool('flag_read')
        v = cur().decide(b)
        self.reads.append(v)
        return v

    def set(self):
        self.writes += 1

    def clear(self):
        self.writes += 1


WorkerFlag.__module__ = 'contracts.strategies'


class AnyError(Exception):
    pass


def setup_consumer(eng):
    install_env(eng)


def run_consumer_check(eng, p):
    hier = eng.load_module('ddsmt.strategy_hierarchical')
    mu = eng.load_module('ddsmt.mutator_utils')
    Task = hier.g['Task']
    Simplification = mu.g['Simplification']
    flag = WorkerFlag()
    cons = eng.call(hier.g['Consumer'], [flag], {})
    B = fresh_exprs(p, 'base')
    sigma = z3.Const('sigma', Simp)
    good_simp = p.decide(p.fresh_bool('simp_is_a_Simplification'))
    simp = eng.call(Simplification, [SymDict(), []], {}) if good_simp \
        else 'junk'
    nodeid = mk.sint(p, 'nodeid')
    task = Task(nodeid, 'mutator name', Pickled(B), Pickled(simp), None)
    checked = []
    applied = []

    def apply_simp(e, exprs, s):
        applied.append((exprs, s))
        k = p.choose(2, 'apply')
        if k == 1:
            raise PyRaise(AnyError('substitution failed'))
        r = fresh_exprs(p, 'cand')
        p.assume(r.term == AS(exprs.term, sigma))
        return r

    verdict = {}

    def check_exprs(e, exprs):
        k = p.choose(2, 'check')
        if k == 1:
            raise PyRaise(AnyError('check failed'))
        v = mk.sbool(p, 'verdict')
        # contract of check_exprs (C09 + C07): true only if the command was
        # run on the tokens of exactly this list and matched
        p.assume(z3.Implies(v.z, ACC(FLAT(exprs.term))))
        checked.append(exprs)
        verdict['v'] = v
        return v

    eng.overrides['ddsmt.strategy_hierarchical.apply_simp'] = apply_simp
    eng.overrides['ddsmt.mutator_utils.apply_simp'] = apply_simp
    eng.overrides['ddsmt.checker.check_exprs'] = check_exprs
    out = outcome(eng, eng.getattr(cons, 'check'), [task])
    N = 'Consumer.check'
    p.oblige(f'C04/{N}/returns-a-result-on-every-path',
             out.kind == 'return' and isinstance(out.value, Pickled),
             info=repr(out))
    if out.kind != 'return' or not isinstance(out.value, Pickled):
        return
    s, t = out.value.payload
    p.oblige(f'C01/{N}/result-names-its-task',
             t.nodeid is nodeid and t.name == 'mutator name' and
             t.simp is None)
    if s is True:
        ok = len(checked) == 1 and t.exprs is checked[0] and \
            len(applied) == 1 and applied[0][0] is B and \
            applied[0][1] is simp
        p.oblige(f'C01/{N}/success-only-for-the-checked-list', ok,
                 info={'signature': 'a success is reported for a list '
                       'other than the one the command accepted'})
        if ok:
            p.oblige(f'C01/{N}/success-means-accepted',
                     z3.And(verdict['v'].z, ACC(FLAT(t.exprs.term)),
                            t.exprs.term == AS(B.term, sigma)))
        p.oblige(f'C02/{N}/success-has-runtime', t.runtime is not None)
    else:
        p.oblige(f'C01/{N}/failure-carries-no-list',
                 s is False and t.exprs is None)
    # genuine verdict when the flag is never seen set and nothing fails
    if not any(flag.reads) and len(checked) == 1:
        p.oblige(f'C02/{N}/genuine-verdict',
                 mk_bool(sym.zbool(s) == verdict['v'].z) and
                 t.runtime is not None,
                 info={'signature': 'flag clear and check ran, but the '
                       'verdict of the command is not what is reported'})
    if not any(flag.reads) and good_simp and len(applied) == 1 and \
            applied and not checked and out.kind == 'return':
        pass
    p.oblige(f'C05/{N}/never-writes-the-abort-flag', flag.writes == 0)
    if t.runtime is None:
        p.oblige(f'C02/{N}/aborted-result-is-not-a-success', s is False)


# ---------------------------------------------------------------------------
# Producer.generate: every task carries the base; complete when the flag is
# never seen set


class ScriptedMutator:

    def __init__(self, eng, p, name, Simp_cls, log):
        self.name = name
        self._e, self._p, self._S, self._log = eng, p, Simp_cls, log
        # behaviour chosen once per mutator (same for every node)
        self.fkind = p.choose(3, f'{name}_filter')  # True / False / raises
        self.mkind = p.choose(3, f'{name}_mut')  # 2 props / raise after 1 / none
        self.has_global = p.choose(2, f'{name}_global') == 1

    def filter(self, node):
        if self.fkind == 2:
            raise PyRaise(AnyError('filter'))
        return self.fkind == 0

    def _prop(self, node, tag):
        s = self._e.call(self._S, [SymDict([(node.attrs['id'], None)]), []],
                         {})
        self._log.append((self.name, node, tag, s))
        return s

    def mutations(self, node):
        if self.mkind == 2:
            return []

        def gen():
            yield self._prop(node, 'm1')
            if self.mkind == 1:
                raise PyRaise(AnyError('mutations'))
            yield self._prop(node, 'm2')

        return gen()

    def global_mutations(self, node, exprs):
        self._log.append(('global-arg', exprs))
        if not self.has_global:
            return []
        return [self._prop(node, 'g1')]

    def __str__(self):
        return self.name


ScriptedMutator.__module__ = 'contracts.strategies'


def setup_producer(eng):
    install_env(eng)
    nm.install(eng)


def make_run_producer(shape_id, flag_mode, skip, max_depth):
    shapes = {
        0: lambda e: [nm.mk_node(e, 'a')],
        1: lambda e: [nm.mk_node(e, 'f', 'x'), nm.mk_leaf(e, 'y')],
        2: lambda e: [nm.mk_node(e, 'f', nm.mk_node(e, 'g', 'x'))],
    }

    def run(eng, p):
        hier = eng.load_module('ddsmt.strategy_hierarchical')
        mu = eng.load_module('ddsmt.mutator_utils')
        original = shapes[shape_id](eng)
        log = []
        muts = [ScriptedMutator(eng, p, 'M1', mu.g['Simplification'], log)]
        if flag_mode == 'clear':
            muts.append(
                ScriptedMutator(eng, p, 'M2', mu.g['Simplification'], log))
        flag = WorkerFlag(False if flag_mode == 'clear' else None)
        prod = eng.call(hier.g['Producer'], [muts, flag, original], {})
        params = SymDict([('max_depth', max_depth)]) if max_depth \
            else SymDict()
        tasks = []
        N = 'Producer.generate'
        try:
            for t in eng.call(eng.getattr(prod, 'generate'), [skip, params],
                              {}):
                tasks.append(t)
            p.oblige(f'C04/{N}/mutator-failures-contained', True)
        except PyRaise as ex:
            p.oblige(f'C04/{N}/mutator-failures-contained', False,
                     info={'outcome': repr(ex), 'signature':
                           'exception escapes Producer.generate'})
            return
        # reference BFS numbering (depth-limited) of the original
        order = []
        level = [(1, n) for n in original]
        while level:
            nxt = []
            for d, n in level:
                order.append(n)
                kids = n.attrs['data']
                if not isinstance(kids, str) and (not max_depth or
                                                  d < max_depth):
                    nxt.extend((d + 1, c) for c in kids)
            level = nxt
        base = None
        for t in tasks:
            ok = isinstance(t.exprs, Pickled) and t.exprs.payload is original
            p.oblige(f'C05/{N}/every-task-carries-the-base', ok)
            p.oblige(f'C02/{N}/nodeid-is-bfs-position-after-skip',
                     isinstance(t.nodeid, int) and skip < t.nodeid <=
                     len(order))
            p.oblige(f'C14/{N}/task-from-a-mutator-of-the-pass',
                     any(t.name in (m.name, f'(global) {m.name}')
                         for m in muts))
        p.oblige(f'C05/{N}/never-writes-the-abort-flag', flag.writes == 0)
        p.oblige(f'C15/{N}/global-mutations-get-the-whole-input',
                 all(x[1] is original for x in log if x[0] == 'global-arg'))
        if flag_mode != 'clear':
            return
        # completeness: flag never seen set => exactly All(B, M, skip)
        want = []
        for i, n in enumerate(order):
            if i + 1 <= skip:
                continue
            for m in muts:
                if m.fkind != 0:
                    continue
                if m.mkind == 0:
                    want += [(i + 1, m.name, n, 'm1'), (i + 1, m.name, n,
                                                       'm2')]
                elif m.mkind == 1:
                    want += [(i + 1, m.name, n, 'm1')]
                    continue  # raised: its remaining proposals are lost
                if m.has_global:
                    want += [(i + 1, f'(global) {m.name}', n, 'g1')]
        got = []
        for t in tasks:
            s = t.simp.payload if isinstance(t.simp, Pickled) else None
            ent = [x for x in log if x[0] != 'global-arg' and x[3] is s]
            got.append((t.nodeid, t.name, ent[0][1] if ent else None,
                        ent[0][2] if ent else None))
        p.oblige(f'C02/{N}/complete-when-flag-clear', got == want,
                 info={'got': repr([(a, b, d) for a, b, c, d in got]),
                       'want': repr([(a, b, d) for a, b, c, d in want]),
                       'signature': 'a proposal is not generated although '
                       'the abort flag was never set'})

    return run


def worker_contracts(tier):
    A = [ASSUME_EVENT, ASSUME_PICKLE]
    cs = [
        Contract('Consumer.check',
                 ['ddsmt.strategy_hierarchical.Consumer.check'],
                 run_consumer_check, setup=setup_consumer,
                 assumptions=A + [
                     'apply_simp / check_exprs modelled adversarially '
                     '(return or raise); check_exprs true only for accepted '
                     'token sequences (C09, C07)']),
    ]
    for shape_id in (0, 1, 2):
        for skip in (0, 1):
            for md in (None, 1):
                cs.append(
                    Contract(
                        f'Producer.generate[shape {shape_id},skip {skip},'
                        f'max_depth {md},flag clear]',
                        ['ddsmt.strategy_hierarchical.Producer.generate',
                         'ddsmt.strategy_hierarchical.Producer.__mutate_node'
                         ],
                        make_run_producer(shape_id, 'clear', skip, md),
                        setup=setup_producer, tier='S',
                        bound='inputs of <= 3 nodes, 2 scripted mutators '
                        '(filter true/false/raises; mutations 2 proposals / '
                        'failure after 1 / none; with/without global '
                        'proposal)', assumptions=A, max_paths=20000))
    cs.append(
        Contract('Producer.generate[flag havocked]',
                 ['ddsmt.strategy_hierarchical.Producer.generate',
                  'ddsmt.strategy_hierarchical.Producer.__mutate_node'],
                 make_run_producer(1 if tier == 'thorough' else 0, 'havoc',
                                   0, None),
                 setup=setup_producer, tier='S',
                 bound='input (a) [quick] / (f x) y [thorough], one '
                 'scripted mutator, every flag read arbitrary',
                 assumptions=A, max_paths=50000))
    from . import producer
    return cs + producer.contracts(tier)


# ---------------------------------------------------------------------------
# strategy_ddmin

DD = 'ddsmt.strategy_ddmin'


class MutTok:
    """An opaque mutator instance."""

    def __init__(self, name='mutator'):
        self.name = name

    def __str__(self):
        return self.name


MutTok.__module__ = 'contracts.strategies'


def make_taskgen(eng, p, exprs, parallel, mutator=None):
    """A TaskGenerator object in an arbitrary state after construction from
    ``exprs`` (the constructor itself is verified by C04/TaskGenerator and
    ddmin.TaskGenerator contracts): real class, real methods."""
    dd = eng.load_module(DD)
    cls = dd.g['TaskGenerator']
    o = ObjVal(cls)
    n = p.fresh_int('nsubsets')
    p.assume(n >= 0)
    o.attrs.update({
        'exprs': exprs,
        'mutator': mutator or MutTok(),
        'max_depth': None,
        'index': 0,
        'stopped': False,
        'num_filtered': mk.sint(p, 'num_filtered'),
        'gran': mk.sint(p, 'tg_gran'),
        'subsets': OpaqueList(SNum(n)),
        'pickled_exprs': Pickled(exprs) if parallel else None,
    })
    return o


class OpaqueList:
    """A list of which only the length is known."""

    def __init__(self, n):
        self.n = n


def same_exprs(a, b):
    if isinstance(a, AbsExprs) and isinstance(b, AbsExprs):
        return a.term == b.term
    return z3.BoolVal(False)


def install_dd_env(eng, jobs=1):
    install_env(eng, jobs)
    eng.len_handlers[OpaqueList] = lambda e, x: x.n
    eng.truth_handlers[OpaqueList] = lambda e, x: e.truth(x.n > 0)

    def collect_information(e, exprs):
        cur().ghost['collected_for'] = exprs

    eng.overrides['ddsmt.smtlib.collect_information'] = collect_information

    def reduplicate(e, x):
        p = cur()
        if not isinstance(x, AbsExprs):
            # the contract of reduplicate is stated over abstract inputs; a
            # concrete argument is outside this model, not an error of ddSMT
            raise Unsupported('reduplicate contract applied to a concrete '
                              f'{type(x).__name__}')
        r = AbsExprs(REDUP(x.term), 'redup')
        p.assume(FLAT(r.term) == FLAT(x.term))
        p.assume(TREE(r.term))
        return r

    eng.overrides['ddsmt.nodes.reduplicate'] = reduplicate

    def count_exprs(e, x):
        v = cur().fresh_int('nexprs')
        cur().assume(v >= 0)
        return SNum(v)

    eng.overrides['ddsmt.nodes.count_exprs'] = count_exprs


def dd_write_stub(eng, tag):

    def write_file(e, filename, x):
        p = cur()
        g = p.ghost
        p.oblige(f'C01/{tag}/writes-only-the-output-file',
                 filename == '<outfile>')
        ok = isinstance(x, AbsExprs)
        p.oblige(f'C01/{tag}/write-accepted',
                 ok and mk_bool(ACC(FLAT(x.term))),
                 info={'signature': 'a list is written that the command '
                       'was not run on / did not accept'})
        if not ok:
            return
        cand = g.get('adopted_from')
        p.oblige(f'C05/{tag}/written-is-the-accepted-candidate',
                 # C05 is about the contents written: the tokens of the
                 # accepted candidate (re-establishing distinct identities in
                 # between changes no token, C13)
                 cand is not None and mk_bool(
                     FLAT(x.term) == FLAT(cand[0])),
                 info={'signature': 'written contents are not those of the '
                       'accepted candidate'})
        p.oblige(f'C05/{tag}/candidate-derived-from-chain-predecessor',
                 cand is not None and mk_bool(z3.And(
                     cand[0] == AS(cand[1], cand[2]),
                     FLAT(cand[1]) == g['last'])),
                 info={'signature': 'stale adoption: the accepted candidate '
                       'was derived from a superseded input'})
        g['last'] = FLAT(x.term)
        g['written'] = True

    eng.overrides['ddsmt.nodeio.write_smtlib_to_file'] = write_file


def worker_result(eng, p, Result, task_id, base_term, tag='r'):
    """An arbitrary result of _worker for a task with the given base
    (contract W, verified by ddmin._worker)."""
    success = p.decide(p.fresh_bool(f'{tag}_success'))
    tests = mk.sint(p, f'{tag}_tests')
    p.assume(tests.z >= 0)
    if success:
        sigma = z3.Const(p.fresh_name('sigma'), Simp)
        cand = z3.Const(p.fresh_name('cand'), E)
        p.assume(cand == AS(base_term, sigma))
        p.assume(ACC(FLAT(cand)))
        ce = AbsExprs(cand, 'candidate')
        ce.origin = (cand, base_term, sigma)
        red = mk.sint(p, f'{tag}_reduced')
        return Result(task_id, True, red, ce, tests)
    return Result(task_id, False, 0, [], tests)


def track_adoption(eng):
    """taskgen.update(result.exprs) is the adoption step."""
    dd = eng.load_module(DD)
    real_update = dd.g['TaskGenerator'].ns['update']

    def update(e, self, exprs):
        cur().ghost['par_adopted'] = True
        cur().ghost['seq_adopted'] = True
        if isinstance(exprs, AbsExprs) and hasattr(exprs, 'origin'):
            cur().ghost['adopted_from'] = exprs.origin
        else:
            cur().ghost['adopted_from'] = None
        return e.call_real(real_update, [self, exprs])

    eng.overrides[DD + '.TaskGenerator.update'] = update


# -- _check_seq ---------------------------------------------------------------

L_SEQ = 'for task in taskgen'


def setup_check_seq(eng):
    install_dd_env(eng)
    dd = eng.load_module(DD)
    dd_write_stub(eng, 'ddmin._check_seq')
    track_adoption(eng)
    Task, Result = dd.g['Task'], dd.g['Result']

    def worker(e, task):
        p = cur()
        base = task.exprs.payload if isinstance(task.exprs, Pickled) \
            else task.exprs
        return worker_result(e, p, Result, task.id, base.term)

    eng.overrides[DD + '._worker'] = worker

    def inv(e, env_):
        p = cur()
        g = p.ghost
        tg = env_.vars['taskgen']
        ex = tg.attrs['exprs']
        if not isinstance(ex, AbsExprs):
            return False
        # C13: every task is generated from taskgen.exprs (elem below), so it
        # is a tree at the head of every iteration - also after an accepted
        # result was installed by update()
        return [('C13', TREE(ex.term)),
                ('C01+C06', FLAT(ex.term) == g['last']),
                ('C01', z3.Implies(sym.zbool(g['written']), ACC(g['last']))),
                ('C16', z3.Or(z3.Not(sym.zbool(g['seq_adopted'])),
                              same_exprs(g.get('collected_for'), ex)))]

    def havoc(e, env_, p):
        g = p.ghost
        tg = env_.vars['taskgen']
        tg.attrs['exprs'] = fresh_exprs(p, 'tg_exprs')
        g['collected_for'] = tg.attrs['exprs']
        g['seq_adopted'] = mk.sbool(p, 'seq_adopted')
        g['last'] = z3.Const(p.fresh_name('last'), Tok)
        g['written'] = mk.sbool(p, 'written')
        env_.vars['stats'] = SymDict([('tests', mk.sint(p, 't')),
                                      ('tests_success', mk.sint(p, 'ts')),
                                      ('reduced', mk.sint(p, 'rd'))])

    def elem(e, env_, p):
        # TaskGenerator.__next__: the task carries the generator's current
        # input (sequential: generated right now)
        tg = env_.vars['taskgen']
        return Task(mk.sint(p, 'task_id'), tg.attrs['exprs'], ['<simps>'])

    eng.loop_specs[(DD + '._check_seq', L_SEQ)] = LoopSpec(
        inv=inv, havoc={'effect:a': havoc}, elem=elem)


def run_check_seq(eng, p):
    dd = eng.load_module(DD)
    g = p.ghost
    B0 = fresh_exprs(p, 'B0')
    g['last'] = FLAT(B0.term)
    g['written'] = mk.sbool(p, 'written0')
    p.assume(z3.Implies(g['written'].z, ACC(g['last'])))
    g['seq_adopted'] = False
    # precondition (C13): _apply_mutator builds the generator from a tree
    # (C13/ddmin._apply_mutator/taskgen-input-is-a-tree)
    p.assume(TREE(B0.term))
    tg = make_taskgen(eng, p, B0, parallel=False)
    stats = SymDict([('tests', 0), ('tests_success', 0), ('reduced', 0)])
    out = outcome(eng, dd.g['_check_seq'], [tg, mk.sint(p, 'nexprs'), stats])
    N = 'ddmin._check_seq'
    p.oblige(f'C04/{N}/raises-nothing', out.kind == 'return', info=repr(out))
    if out.kind != 'return':
        return
    res = out.value
    p.oblige(f'C01/{N}/returns-the-current-input',
             isinstance(res, AbsExprs) and res is tg.attrs['exprs'] and
             mk_bool(FLAT(res.term) == g['last']))
    p.oblige(f'C13/{N}/returns-a-tree',
             isinstance(res, AbsExprs) and mk_bool(TREE(res.term)))
    p.oblige(f'C16/{N}/tables-rebuilt-after-adoption',
             z3.Or(z3.Not(sym.zbool(g['seq_adopted'])),
                   same_exprs(g.get('collected_for'), res)))


# -- _check_par ------------------------------------------------------------------

L_PAR_OUT = 'while start_index >= 0'
L_PAR_RES = 'for result in pool.imap_unordered(_worker, taskgen)'


def setup_check_par(eng):
    install_dd_env(eng, jobs=4)
    dd = eng.load_module(DD)
    dd_write_stub(eng, 'ddmin._check_par')
    track_adoption(eng)
    Task, Result = dd.g['Task'], dd.g['Result']
    FN = DD + '._check_par'

    def flag():
        return dd.g['__abort_flag']

    def tg_of(env_):
        return env_.vars['taskgen']

    def common(p, env_):
        g = p.ghost
        ex = tg_of(env_).attrs['exprs']
        if not isinstance(ex, AbsExprs):
            return [False]
        return [('C13', TREE(ex.term)),
                ('C01+C06', FLAT(ex.term) == g['last']),
                ('C01', z3.Implies(sym.zbool(g['written']), ACC(g['last'])))]

    # outer loop: one batch per iteration
    def inv_out(e, env_):
        p = cur()
        tg = tg_of(env_)
        return common(p, env_) + [
            ('C05+C13', isinstance(tg.attrs['pickled_exprs'], Pickled) and
             tg.attrs['pickled_exprs'].payload is tg.attrs['exprs']),
            ('C16', z3.Not(sym.zbool(flag().state))),
            ('C16', z3.Or(z3.Not(sym.zbool(p.ghost['par_adopted'])),
                          same_exprs(p.ghost.get('collected_for'),
                                     tg.attrs['exprs'])))]

    def havoc_out(e, env_, p):
        g = p.ghost
        tg = tg_of(env_)
        ex = fresh_exprs(p, 'tg_exprs')
        tg.attrs['exprs'] = ex
        tg.attrs['pickled_exprs'] = Pickled(ex)
        tg.attrs['index'] = mk.sint(p, 'index')
        tg.attrs['stopped'] = False
        g['collected_for'] = ex
        g['par_adopted'] = mk.sbool(p, 'par_adopted')
        g['last'] = z3.Const(p.fresh_name('last'), Tok)
        g['written'] = mk.sbool(p, 'written')
        env_.vars['start_index'] = mk.sint(p, 'start_index')
        env_.vars['stats'] = SymDict([('tests', mk.sint(p, 't')),
                                      ('tests_success', mk.sint(p, 'ts')),
                                      ('reduced', mk.sint(p, 'rd'))])
        flag().state = False

    eng.loop_specs[(FN, L_PAR_OUT)] = LoopSpec(
        inv=inv_out, havoc={'effect:a': havoc_out})

    # result loop of one batch
    def on_entry(e, env_, p):
        g = p.ghost
        tg = tg_of(env_)
        g['B_batch'] = tg.attrs['exprs']
        g['last0'] = g['last']
        g['written0'] = g['written']
        # C05: every task of the batch is generated from the current input
        p.oblige('C05/ddmin._check_par/batch-starts-from-current-input',
                 isinstance(tg.attrs['pickled_exprs'], Pickled) and
                 tg.attrs['pickled_exprs'].payload is tg.attrs['exprs'],
                 info={'signature': 'generator restarted before it was '
                       'updated'})

    def inv_res(e, env_):
        p = cur()
        g = p.ghost
        tg = tg_of(env_)
        skip = sym.zbool(env_.vars['skip'])
        ex = tg.attrs['exprs']
        if not isinstance(ex, AbsExprs):
            return False
        return common(p, env_) + [
            ('C16', sym.zbool(flag().state) == skip),
            ('C05', z3.Implies(z3.Not(skip), z3.And(
                ex.term == g['B_batch'].term,
                g['last'] == g['last0'],
                sym.zbool(g['written']) == sym.zbool(g['written0'])))),
            ('C05', z3.Implies(skip, sym.zbool(g['written']))),
            ('C05', FLAT(g['B_batch'].term) == g['last0']),
            ('C05+C13', isinstance(tg.attrs['pickled_exprs'], Pickled) and
             tg.attrs['pickled_exprs'].payload is ex),
        ]

    def havoc_res(e, env_, p):
        g = p.ghost
        tg = tg_of(env_)
        ex = fresh_exprs(p, 'tg_exprs_l')
        tg.attrs['exprs'] = ex
        tg.attrs['pickled_exprs'] = Pickled(ex)
        tg.attrs['stopped'] = mk.sbool(p, 'stopped_l')
        tg.attrs['index'] = mk.sint(p, 'index_l')
        g['last'] = z3.Const(p.fresh_name('last_l'), Tok)
        g['written'] = mk.sbool(p, 'written_l')
        g['adopted_from'] = None
        env_.vars['skip'] = mk.sbool(p, 'skip_l')
        env_.vars['start_index'] = mk.sint(p, 'start_index_l')
        env_.vars['stats'] = SymDict([('tests', mk.sint(p, 't')),
                                      ('tests_success', mk.sint(p, 'ts')),
                                      ('reduced', mk.sint(p, 'rd'))])
        flag().state = mk.sbool(p, 'flag_l')

    def elem_res(e, env_, p):
        """Result of _worker for a task the feeder thread generated at some
        point of this batch: its base is the input the generator held then --
        the batch's base, or (only after an adoption, when the generator was
        updated while the feeder was inside __next__) the new input."""
        g = p.ghost
        tg = tg_of(env_)
        late = p.decide(p.fresh_bool('task_generated_after_update'))
        if late:
            p.assume(sym.zbool(env_.vars['skip']))
            base = tg.attrs['exprs']
        else:
            base = g['B_batch']
        tid = mk.sint(p, 'task_id')
        p.assume(tid.z >= 0)
        return worker_result(e, p, Result, tid, base.term)

    eng.loop_specs[(FN, L_PAR_RES)] = LoopSpec(
        inv=inv_res, on_entry=on_entry, havoc={'effect:a': havoc_res},
        elem=elem_res)


def run_check_par(eng, p):
    dd = eng.load_module(DD)
    g = p.ghost
    B0 = fresh_exprs(p, 'B0')
    g['last'] = FLAT(B0.term)
    g['written'] = mk.sbool(p, 'written0')
    p.assume(z3.Implies(g['written'].z, ACC(g['last'])))
    g['par_adopted'] = False
    # precondition (C13): _apply_mutator builds the generator from a tree
    # (C13/ddmin._apply_mutator/taskgen-input-is-a-tree)
    p.assume(TREE(B0.term))
    g['collected_for'] = None
    tg = make_taskgen(eng, p, B0, parallel=True)
    stats = SymDict([('tests', 0), ('tests_success', 0), ('reduced', 0)])
    out = outcome(eng, dd.g['_check_par'], [tg, mk.sint(p, 'nexprs'), stats])
    N = 'ddmin._check_par'
    p.oblige(f'C04/{N}/raises-nothing', out.kind == 'return', info=repr(out))
    if out.kind != 'return':
        return
    res = out.value
    p.oblige(f'C01/{N}/returns-the-current-input',
             isinstance(res, AbsExprs) and res is tg.attrs['exprs'] and
             mk_bool(FLAT(res.term) == g['last']))
    p.oblige(f'C13/{N}/returns-a-tree',
             isinstance(res, AbsExprs) and mk_bool(TREE(res.term)))
    p.oblige(f'C16/{N}/tables-rebuilt-after-adoption',
             z3.Or(z3.Not(sym.zbool(g['par_adopted'])),
                   same_exprs(g.get('collected_for'), res)))


def ddmin_contracts(tier):
    A = [ASSUME_POOL, ASSUME_EVENT, ASSUME_PICKLE,
         '_worker / TaskGenerator.__next__ / reduplicate / '
         'write_smtlib_to_file / collect_information used through their '
         'contracts (verified separately)',
         'inputs are abstract (uninterpreted sort Exprs with FLAT/ACC/AS)']
    return [
        Contract('ddmin._check_seq', [DD + '._check_seq',
                                      DD + '.TaskGenerator.update'],
                 run_check_seq, setup=setup_check_seq, assumptions=A),
        Contract('ddmin._check_par', [DD + '._check_par',
                                      DD + '.TaskGenerator.update',
                                      DD + '.TaskGenerator.stop',
                                      DD + '.TaskGenerator.start',
                                      DD + '.TaskGenerator.reset'],
                 run_check_par, setup=setup_check_par, assumptions=A),
    ]


# -- _worker -------------------------------------------------------------------


def setup_worker(eng):
    install_dd_env(eng)


def run_worker(eng, p):
    dd = eng.load_module(DD)
    Task, Result = dd.g['Task'], dd.g['Result']
    flag = WorkerFlag()
    dd.g['__abort_flag'] = flag if p.choose(2, 'has_flag') else None
    dd.g['__cached_exprs'] = None
    dd.g['__cached_exprs_hash'] = None
    checked = []
    verdicts = []

    def apply_simp(e, exprs, s):
        k = p.choose(3, 'apply')
        if k == 1:
            raise PyRaise(AnyError('substitution failed'))
        if k == 2:
            return None
        r = fresh_exprs(p, 'cand')
        p.assume(r.term == AS(exprs.term, s))
        r.origin = (r.term, exprs.term, s)
        return r

    interrupted = []

    def check_exprs(e, exprs):
        k = p.choose(3, 'check')
        if k == 1:
            raise PyRaise(AnyError('check failed'))
        if k == 2:
            # the user interrupts ddSMT while the command runs (the
            # sequential worker runs in the main process)
            ki = KeyboardInterrupt()
            interrupted.append(ki)
            raise PyRaise(ki)
        v = mk.sbool(p, 'verdict')
        p.assume(z3.Implies(v.z, ACC(FLAT(exprs.term))))
        checked.append(exprs)
        verdicts.append(v)
        return v

    eng.overrides[DD + '.apply_simp'] = apply_simp
    eng.overrides['ddsmt.mutator_utils.apply_simp'] = apply_simp
    eng.overrides['ddsmt.checker.check_exprs'] = check_exprs
    N = 'ddmin._worker'
    parallel = p.choose(2, 'pickled') == 1
    prev = None
    for rnd in range(2):
        B = fresh_exprs(p, f'base{rnd}')
        sig = [z3.Const(f's{rnd}_{i}', Simp) for i in range(2)]
        task = Task(mk.sint(p, f'tid{rnd}'),
                    Pickled(B) if parallel else B,
                    Pickled(list(sig)) if parallel else list(sig))
        del checked[:]
        del verdicts[:]
        out = outcome(eng, dd.g['_worker'], [task])
        if interrupted:
            p.oblige(f'C04/{N}/an-interrupt-is-not-swallowed',
                     out.kind == 'raise' and out.value is interrupted[0],
                     info={'outcome': repr(out), 'signature':
                           'KeyboardInterrupt during a check is treated '
                           'like a failing candidate: ddSMT cannot be '
                           'interrupted'})
            return
        p.oblige(f'C04/{N}/returns-a-result-on-every-path',
                 out.kind == 'return', info=repr(out))
        if out.kind != 'return':
            return
        r = out.value
        p.oblige(f'C05/{N}/result-names-its-task', r.task_id is task.id)
        if r.success is True:
            ok = len(checked) >= 1 and r.exprs is checked[-1] and \
                hasattr(r.exprs, 'origin')
            p.oblige(f'C01/{N}/success-only-for-the-checked-list', ok,
                     info={'signature': 'a success is reported for a list '
                           'other than the one the command accepted'})
            if ok:
                cand, base, s = r.exprs.origin
                p.oblige(f'C01/{N}/success-means-accepted',
                         z3.And(verdicts[-1].z, ACC(FLAT(r.exprs.term))))
                p.oblige(f'C05/{N}/candidate-derived-from-the-task-base',
                         z3.And(base == B.term,
                                z3.Or(*[s == x for x in sig])),
                         info={'signature': 'worker used a stale cached '
                               'input instead of the base of its task'})
        else:
            p.oblige(f'C01/{N}/failure-carries-no-list',
                     r.success is False and r.exprs == [])
        p.oblige(f'C05/{N}/never-writes-the-abort-flag', flag.writes == 0)


# -- TaskGenerator.__next__: a task carries the generator's current input --------


def setup_tg_next(eng):
    install_dd_env(eng, jobs=1)
    nm.install(eng)
    # concrete nodes here: update() runs the real nodes.reduplicate
    del eng.overrides['ddsmt.nodes.reduplicate']


def make_run_tg_next(parallel):

    def run(eng, p):
        dd = eng.load_module(DD)
        mu = eng.load_module('ddsmt.mutator_utils')
        S = mu.g['Simplification']
        eng._ns.jobs = 4 if parallel else 1
        a = nm.mk_node(eng, 'assert', 'x')
        b = nm.mk_node(eng, 'assert', 'y')
        c = nm.mk_node(eng, 'assert', 'z')
        exprs = [a, b, c] + [nm.mk_node(eng, 'assert', f'v{i}')
                             for i in range(6 if parallel else 0)]

        class M:

            def filter(self, node):
                return not isinstance(node.attrs['data'], str) and \
                    len(node.attrs['data']) == 2

            def mutations(self, node):
                return [eng.call(S, [SymDict([(node.attrs['id'], None)]),
                                     []], {})]

            def __str__(self):
                return 'erase'

        M.__module__ = 'contracts.strategies'
        gran = 1
        tg = eng.call(dd.g['TaskGenerator'], [exprs, gran, M(), 1], {})
        N = 'ddmin.TaskGenerator'
        p.oblige(f'C05/{N}/parallel-mode-pickles-the-input',
                 (tg.attrs['pickled_exprs'] is not None) == parallel)
        nxt = eng.getattr(tg, '__next__')
        t1 = eng.call(nxt, [], {})

        def base_of(t):
            return t.exprs.payload if isinstance(t.exprs, Pickled) \
                else t.exprs

        p.oblige(f'C05+C13/{N}/task-carries-current-input', base_of(t1) is exprs)
        # adoption: update() replaces the base of all later tasks
        new = [a, c]
        eng.call(eng.getattr(tg, 'stop'), [], {})
        o = outcome(eng, nxt, [])
        p.oblige(f'C05/{N}/stopped-generator-yields-nothing',
                 o.kind == 'raise' and isinstance(o.value, StopIteration))
        eng.call(eng.getattr(tg, 'update'), [new], {})
        eng.call(eng.getattr(tg, 'reset'), [1], {})
        eng.call(eng.getattr(tg, 'start'), [], {})
        t2 = eng.call(nxt, [], {})
        # the new input, with identities re-established (C13: nodes that
        # were already unique - all of them here - keep their identity)
        b2 = base_of(t2)
        p.oblige(f'C05+C13/{N}/task-after-update-carries-new-input',
                 b2 is tg.attrs['exprs'] and isinstance(b2, list) and
                 len(b2) == 2 and b2[0] is a and b2[1] is c and t2.id == 1,
                 info={'signature': 'task generated after update() still '
                       'carries the superseded input'})

    return run


def ddmin_worker_contracts(tier):
    A = [ASSUME_EVENT, ASSUME_PICKLE,
         'hash() of the pickled input identifies it (cache key of _worker)']
    return [
        Contract('ddmin._worker', [DD + '._worker', DD + '._simp'],
                 run_worker, setup=setup_worker, max_paths=20000,
                 assumptions=A + ['apply_simp / check_exprs modelled '
                                  'adversarially; pickle.loads does not '
                                  'raise']),
        Contract('ddmin.TaskGenerator[sequential]',
                 [DD + '.TaskGenerator.__next__', DD + '.TaskGenerator.update',
                  DD + '.TaskGenerator.reset'], make_run_tg_next(False),
                 setup=setup_tg_next, tier='S',
                 bound='one concrete input of 3 commands'),
        Contract('ddmin.TaskGenerator[parallel]',
                 [DD + '.TaskGenerator.__next__', DD + '.TaskGenerator.update',
                  DD + '.TaskGenerator.reset'], make_run_tg_next(True),
                 setup=setup_tg_next, tier='S',
                 bound='one concrete input of 9 commands, 4 jobs'),
    ]


# -- _apply_mutator / ddmin.reduce ------------------------------------------------


def check_func_contract(tag):
    """_check_seq/_check_par through their contract (proved above): they
    return the generator's current input, whose tokens are the last ones
    written (if any write happened), every write was of an accepted list."""

    def check_func(e, taskgen, nexprs, stats):
        p = cur()
        g = p.ghost
        changed = p.decide(p.fresh_bool('batch_adopted_something'))
        if changed:
            ex = fresh_exprs(p, 'after_check')
            g['last'] = FLAT(ex.term)
            p.assume(ACC(g['last']))
            g['written'] = True
            taskgen.attrs['exprs'] = ex
        return taskgen.attrs['exprs']

    return check_func


def setup_apply_mutator(eng):
    install_dd_env(eng)
    FN = DD + '._apply_mutator'

    def taskgen_ctor(e, exprs, gran, mutator, max_depth=None):
        p = cur()
        ok = isinstance(exprs, AbsExprs)
        p.oblige('C13/ddmin._apply_mutator/taskgen-input-is-a-tree',
                 ok and mk_bool(TREE(exprs.term)),
                 info={'signature': 'TaskGenerator built from an input that '
                       'is neither the (tree) argument nor reduplicated'})
        par = p.decide(p.fresh_bool('parallel_mode'))
        tg = make_taskgen(e, p, exprs, par, mutator)
        if gran is not None:
            tg.attrs['gran'] = gran
        else:
            p.assume(tg.attrs['gran'].z >= 0)
        return tg

    eng.overrides[DD + '.TaskGenerator'] = taskgen_ctor
    eng.overrides[DD + '._check_seq'] = check_func_contract('seq')
    eng.overrides[DD + '._check_par'] = check_func_contract('par')

    def inv(e, env_):
        g = cur().ghost
        ex = env_.vars['exprs']
        tg = env_.vars['taskgen']
        if not isinstance(ex, AbsExprs):
            return [False]
        return [('C13', TREE(ex.term)),
                ('C13', same_exprs(tg.attrs['exprs'], ex)),
                ('C01+C06', FLAT(ex.term) == g['last']),
                ('C01', z3.Implies(sym.zbool(g['written']), ACC(g['last'])))]

    def havoc(e, env_, p):
        g = p.ghost
        ex = fresh_exprs(p, 'exprs_l')
        env_.vars['exprs'] = ex
        env_.vars['gran'] = mk.sint(p, 'gran_l')
        env_.vars['taskgen'] = make_taskgen(
            e, p, ex, p.decide(p.fresh_bool('parallel_l')))
        g['last'] = z3.Const(p.fresh_name('last_l'), Tok)
        g['written'] = mk.sbool(p, 'written_l')
        env_.vars['stats'] = SymDict([('tests', mk.sint(p, 't')),
                                      ('tests_success', mk.sint(p, 'ts')),
                                      ('reduced', mk.sint(p, 'rd'))])

    eng.loop_specs[(FN, 'while gran > 0')] = LoopSpec(
        inv=inv, havoc={'effect:a': havoc},
        decreases=lambda e, env_: env_.vars['gran'])


def run_apply_mutator(eng, p):
    dd = eng.load_module(DD)
    g = p.ghost
    inp = fresh_exprs(p, 'input')
    p.assume(TREE(inp.term))  # precondition (C13): callers pass a tree
    g['last'] = FLAT(inp.term)
    g['written'] = mk.sbool(p, 'written0')
    p.assume(z3.Implies(g['written'].z, ACC(g['last'])))
    out = outcome(eng, dd.g['_apply_mutator'], [MutTok(), inp])
    N = 'ddmin._apply_mutator'
    p.oblige(f'C04/{N}/raises-nothing', out.kind == 'return', info=repr(out))
    if out.kind != 'return':
        return
    res = out.value[0]
    ok = isinstance(res, AbsExprs)
    p.oblige(f'C13/{N}/returns-a-tree', ok and mk_bool(TREE(res.term)))
    p.oblige(f'C01/{N}/returns-the-last-written-input',
             ok and mk_bool(z3.And(
                 FLAT(res.term) == g['last'],
                 z3.Implies(sym.zbool(g['written']), ACC(g['last'])))))


def setup_dd_reduce(eng):
    install_dd_env(eng)
    FN = DD + '.reduce'
    eng.overrides[DD + '.ddmin_passes'] = lambda e: [[MutTok('a')],
                                                     [MutTok('b')]]

    def apply_mutator(e, mut, exprs, max_depth=None):
        p = cur()
        g = p.ghost
        ok = isinstance(exprs, AbsExprs)
        p.oblige('C13/ddmin.reduce/apply-mutator-gets-a-tree',
                 ok and mk_bool(TREE(exprs.term)))
        p.oblige('C01/ddmin.reduce/apply-mutator-gets-current-input',
                 ok and mk_bool(FLAT(exprs.term) == g['last']))
        nred = mk.sint(p, 'nreduced')
        p.assume(nred.z >= 0)
        res = fresh_exprs(p, 'after_mutator')
        p.assume(TREE(res.term))
        changed = p.decide(p.fresh_bool('mutator_adopted_something'))
        if changed:
            g['last'] = FLAT(res.term)
            p.assume(ACC(g['last']))
            g['written'] = True
        else:
            p.assume(FLAT(res.term) == g['last'])
        return (res, mk.sint(p, 'ntests'), nred)

    eng.overrides[DD + '._apply_mutator'] = apply_mutator

    def inv(e, env_):
        g = cur().ghost
        ex = env_.vars['exprs']
        if not isinstance(ex, AbsExprs):
            return [False]
        return [('C13', TREE(ex.term)),
                ('C01+C06', FLAT(ex.term) == g['last']),
                ('C01', z3.Implies(sym.zbool(g['written']), ACC(g['last'])))]

    def havoc(e, env_, p):
        g = p.ghost
        env_.vars['exprs'] = fresh_exprs(p, 'exprs_l')
        env_.vars['ntests_total'] = mk.sint(p, 'ntests_total')
        env_.vars['nreduced_round'] = mk.sint(p, 'nreduced_round')
        g['last'] = z3.Const(p.fresh_name('last_l'), Tok)
        g['written'] = mk.sbool(p, 'written_l')

    mut_elem = lambda e, env_, p: MutTok('m')  # noqa: E731
    for hdr, elem in (('while True', None), ('while True#2', None),
                      ('for mut in passes[0]', mut_elem),
                      ('for mut in passes[1]', mut_elem)):
        eng.loop_specs[(FN, hdr)] = LoopSpec(
            inv=inv, havoc={'effect:a': havoc}, elem=elem)


def run_dd_reduce(eng, p):
    dd = eng.load_module(DD)
    g = p.ghost
    inp = fresh_exprs(p, 'input')
    p.assume(TREE(inp.term))  # parser output (C13)
    g['last'] = FLAT(inp.term)
    g['written'] = False
    out = outcome(eng, dd.g['reduce'], [inp])
    N = 'ddmin.reduce'
    p.oblige(f'C04/{N}/raises-nothing', out.kind == 'return', info=repr(out))
    if out.kind != 'return':
        return
    res = out.value[0]
    ok = isinstance(res, AbsExprs)
    p.oblige(f'C13/{N}/returns-a-tree', ok and mk_bool(TREE(res.term)))
    p.oblige(f'C01/{N}/returns-the-last-written-input',
             ok and mk_bool(z3.And(
                 FLAT(res.term) == g['last'],
                 z3.Implies(sym.zbool(g['written']), ACC(g['last'])))))
    p.oblige(f'C16/{N}/tables-built-before-first-use',
             g.get('collected_for') is inp)


# -- cli.ddsmt_main: strategy hand-over and file frame ------------------------------


class FileModel:

    def __init__(self, name, mode):
        self.name, self.mode = name, mode

    def __enter__(self):
        return self

    def __exit__(self, *a):
        return False

    def read(self):
        return '<text of %s>' % self.name

    def write(self, s):
        cur().ghost.setdefault('fs_writes', []).append(self.name)


FileModel.__module__ = 'contracts.strategies'


def file_size(f):
    """os.path.getsize: an arbitrary size; a file that a reduction was
    derived from is not empty (an empty text has no expression to reduce)."""
    p = cur()
    v = p.fresh_int('size')
    p.assume(v >= (1 if force(f) == '<infile>' else 0))
    return SNum(v)


def setup_cli(eng):
    install_dd_env(eng)
    import os as real_os
    osm = env.ModelNS()
    osm.path = env.ModelNS(
        isfile=lambda f: True, getsize=file_size,
        join=real_os.path.join, splitext=real_os.path.splitext,
        dirname=real_os.path.dirname, abspath=real_os.path.abspath,
        # ordinary configuration here (the usage contracts quantify over the
        # file facts): the output path is not the input file; whether the
        # output file already exists is arbitrary
        exists=lambda f: True if force(f) == '<infile>' else SBool(
            cur().fresh_bool('outfile_exists')),
        samefile=lambda a, b: force(a) == force(b))
    osm.access = lambda f, m: True
    osm.X_OK = 1
    eng.native_modules['os'] = osm

    def open_(e, name, mode='r', *a, **k):
        cur().ghost.setdefault('opens', []).append((name, mode))
        return FileModel(name, mode)

    eng.native_handlers[open] = open_
    # the statistics printed at the end compute with these: arbitrary
    # numbers (count_exprs: non-negative, from install_dd_env; an input
    # without any s-expression has none), and the messages are built
    eng.eval_log_args = True


def make_run_cli(strategy):

    def run(eng, p):
        ns = eng._ns
        ns.strategy = strategy
        ns.cmd = ['/bin/cmd']
        ns.cmd_cc = None
        ns.timeout = None
        ns.timeout_cc = None
        cli = eng.load_module('ddsmt.cli')
        g = p.ghost
        parsed = fresh_exprs(p, 'parsed')
        log = []

        def parse_smtlib(e, text):
            log.append(('parse', text))
            # contract of the parser (C13): every node freshly constructed
            p.assume(TREE(parsed.term))
            return ParsedIter(parsed)

        eng.overrides['ddsmt.nodeio.parse_smtlib'] = parse_smtlib

        def b_list(e, it=()):
            if isinstance(it, ParsedIter):
                return it.exprs
            return list(e.iterate(it))

        eng.native_handlers[list] = b_list
        eng.overrides['ddsmt.mutators.auto_detect_theories'] = \
            lambda e, x: log.append(('detect', x))
        eng.overrides['ddsmt.tmpfiles.init'] = lambda e: log.append('tmp')
        eng.overrides['ddsmt.tmpfiles.copy_binaries'] = \
            lambda e: log.append('copy')
        eng.overrides['ddsmt.checker.do_golden_runs'] = \
            lambda e: log.append('golden')
        eng.overrides['ddsmt.cli.setup_logging'] = lambda e: None
        g['last'] = FLAT(parsed.term)
        g['written'] = False

        def strat(name):

            def reduce(e, exprs):
                ok = isinstance(exprs, AbsExprs)
                p.oblige(f'C13/cli.ddsmt_main/{name}-gets-a-tree',
                         ok and mk_bool(TREE(exprs.term)),
                         info={'signature': f'{name} is handed an input '
                               'that is not known to be a tree'})
                p.oblige(f'C05/cli.ddsmt_main/{name}-continues-the-chain',
                         ok and mk_bool(FLAT(exprs.term) == g['last']),
                         info={'signature': 'strategy started from an input '
                               'other than the last accepted one'})
                p.oblige(f'C10/cli.ddsmt_main/golden-run-before-{name}',
                         'golden' in log)
                log.append(('reduce', name))
                res = fresh_exprs(p, f'after_{name}')
                p.assume(TREE(res.term))
                if p.decide(p.fresh_bool(f'{name}_reduced')):
                    g['last'] = FLAT(res.term)
                    p.assume(ACC(g['last']))
                    g['written'] = True
                    return (res, mk.sint(p, 'n'))
                return (exprs, mk.sint(p, 'n'))

            return reduce

        eng.overrides['ddsmt.strategy_ddmin.reduce'] = strat('ddmin')
        eng.overrides['ddsmt.strategy_hierarchical.reduce'] = \
            strat('hierarchical')
        out = outcome(eng, cli.g['ddsmt_main'], [])
        N = f'cli.ddsmt_main[{strategy}]'
        p.oblige(f'C04/{N}/raises-nothing', out.kind == 'return',
                 info=repr(out))
        if out.kind != 'return':
            return
        opens = g.get('opens', [])
        p.oblige(f'C01/{N}/input-file-only-read',
                 all(m == 'r' for f, m in opens if f == '<infile>') and
                 ('<infile>', 'r') in opens,
                 info={'signature': 'input file opened for writing'})
        p.oblige(f'C01/{N}/no-file-written-directly',
                 all(m == 'r' for f, m in opens))
        ran = [x[1] for x in log if isinstance(x, tuple) and
               x[0] == 'reduce']
        want = {'ddmin': ['ddmin'], 'hierarchical': ['hierarchical'],
                'hybrid': ['ddmin', 'hierarchical']}[strategy]
        p.oblige(f'C01/{N}/runs-the-selected-strategies', ran == want)

    return run


class ParsedIter:

    def __init__(self, exprs):
        self.exprs = exprs


def cli_contracts(tier):
    A = ['both reduce() functions used through their contracts '
         '(ddmin.reduce, hier.reduce); parser result is a tree of freshly '
         'constructed nodes (C08/C13)', 'open() modelled: records (path, '
         'mode)']
    return [
        Contract(f'cli.ddsmt_main[{s}]', ['ddsmt.cli.ddsmt_main',
                                          'ddsmt.cli.check_options'],
                 make_run_cli(s), setup=setup_cli, assumptions=A)
        for s in ('ddmin', 'hierarchical', 'hybrid')
    ]


# -- cli: usage errors (C04) --------------------------------------------------
#
# "Usage errors are reported as a one-line diagnostic" for a missing input,
# a missing or non-executable command - main or cross-check.  The files of
# the run are ghost inputs: for each path two booleans, "is a regular file"
# and "has the x bit".  The real check_options() and the real
# tmpfiles.copy_binaries() are interpreted over them; what they guard is the
# environment's own behaviour: shutil.copy of something that is not a regular
# file raises OSError, running a command that is not an executable regular
# file raises OSError (Popen), reading a missing input raises OSError.


def make_run_usage(with_cc):

    def run(eng, p):
        ns = eng._ns
        ns.strategy = 'ddmin'
        ns.cmd = ['/bin/cmd', '--flag']
        ns.cmd_cc = ['/bin/cc'] if with_cc else None
        ns.timeout = None
        ns.timeout_cc = None
        ns.parser_test = False
        fs = {}

        def fact(path, what):
            path = force(path)
            if not isinstance(path, str):
                raise Unsupported(f'file system model: path {path!r}')
            k = (path, what)
            if k not in fs:
                fs[k] = p.fresh_bool(f'{what}[{path}]')
            return fs[k]

        def isfile(f):
            return SBool(fact(f, 'isfile'))

        def access(f, mode):
            if force(mode) != 1:
                raise Unsupported('os.access: only X_OK is modelled')
            # the x bit says nothing about what kind of thing the path is:
            # a (searchable) directory has it too - 'regular file' is a
            # separate question (os.path.isfile)
            return SBool(fact(f, 'xbit'))

        # the output path may name the very file that is the input (same
        # path, ./path, a link resolved by the OS): one more ghost fact
        same = p.fresh_bool('outfile_is_infile')

        def samefile(a, b):
            if {force(a), force(b)} == {'<infile>', '<outfile>'}:
                return SBool(same)
            raise Unsupported('os.path.samefile: other paths not modelled')

        def exists(f):
            f = force(f)
            if f == '<outfile>':
                # it exists if it is the input (which does, when regular)
                return SBool(z3.Or(z3.And(same, fact('<infile>', 'isfile')),
                                   p.fresh_bool('outfile_exists')))
            return SBool(fact(f, 'isfile'))

        import os as real_os
        osm = env.ModelNS()
        osm.path = env.ModelNS(
            isfile=isfile, getsize=file_size, join=real_os.path.join,
            splitext=real_os.path.splitext, dirname=real_os.path.dirname,
            abspath=real_os.path.abspath, samefile=samefile, exists=exists,
            realpath=lambda f: f)
        osm.access = access
        osm.X_OK = 1
        eng.native_modules['os'] = osm
        N = 'cli.usage[cc]' if with_cc else 'cli.usage[no cc]'
        events = []

        def copy(src, dst, **k):
            src, dst = force(src), force(dst)
            if not p.decide(fact(src, 'isfile')):
                events.append(('copy-of-a-non-file', src))
                raise PyRaise(FileNotFoundError(2, 'No such file', src))
            # shutil.copy copies the permission bits
            fs[(dst, 'isfile')] = z3.BoolVal(True)
            fs[(dst, 'xbit')] = fact(src, 'xbit')
            fs[(dst, 'runnable')] = fact(src, 'runnable')
            return dst

        shm = env.ModelNS()
        shm.copy = copy
        eng.native_modules['shutil'] = shm

        def open_(e, name, mode='r', *a, **k):
            if not p.decide(fact(name, 'isfile')):
                events.append(('open-of-a-non-file', force(name)))
                raise PyRaise(FileNotFoundError(2, 'No such file',
                                                force(name)))
            return FileModel(name, mode)

        eng.native_handlers[open] = open_
        # the modules bind os / shutil when loaded: models first
        cli = eng.load_module('ddsmt.cli')
        tmpf = eng.load_module('ddsmt.tmpfiles')
        tmpf.g['__BINARY'] = '<tmp>/binary'
        tmpf.g['__BINARY_CC'] = '<tmp>/binary_cc'
        # (already loaded by the set-up: rebind the names they imported)
        for m in (cli, tmpf):
            m.g['os'] = osm
        tmpf.g['shutil'] = shm

        def run_cmd(cmd):
            c0 = force(cmd[0])
            if not p.decide(z3.And(fact(c0, 'isfile'), fact(c0, 'xbit'))):
                events.append(('run-of-a-non-executable', c0))
                raise PyRaise(PermissionError(13, 'Permission denied', c0))
            # the x bit does not make a file something the OS can start
            # (script without #! line, foreign binary): only running it tells
            if not p.decide(fact(c0, 'runnable')):
                events.append(('run-of-an-unrunnable-file', c0))
                raise PyRaise(OSError(8, 'Exec format error', c0))

        def golden(e):
            run_cmd(ns.cmd)
            if eng.truth(ns.cmd_cc):
                run_cmd(ns.cmd_cc)
            events.append('golden')

        parsed = fresh_exprs(p, 'parsed')
        eng.overrides['ddsmt.nodeio.parse_smtlib'] = \
            lambda e, text: ParsedIter(parsed)

        def b_list(e, it=()):
            if isinstance(it, ParsedIter):
                return it.exprs
            return list(e.iterate(it))

        eng.native_handlers[list] = b_list
        eng.overrides['ddsmt.mutators.auto_detect_theories'] = \
            lambda e, x: None
        eng.overrides['ddsmt.tmpfiles.init'] = lambda e: None
        eng.overrides['ddsmt.checker.do_golden_runs'] = golden
        eng.overrides['ddsmt.cli.setup_logging'] = lambda e: None
        eng.overrides['ddsmt.strategy_ddmin.reduce'] = \
            lambda e, exprs: (events.append('reduce'), (exprs, 0))[1]
        # the facts the user controls, before the run touches anything
        infile_ok = fact('<infile>', 'isfile')
        cmd_ok = z3.And(fact('/bin/cmd', 'isfile'), fact('/bin/cmd', 'xbit'),
                        fact('/bin/cmd', 'runnable'))
        cc_ok = z3.And(fact('/bin/cc', 'isfile'), fact('/bin/cc', 'xbit'),
                       fact('/bin/cc', 'runnable')) \
            if with_cc else z3.BoolVal(True)
        # C01 / C06: the input file is left alone - an output path that is
        # the input file cannot be honoured
        usage_ok = z3.And(infile_ok, cmd_ok, cc_ok, z3.Not(same))
        out = outcome(eng, cli.g['ddsmt_main'], [])
        diag = out.kind == 'raise' and isinstance(out.value, ObjVal) and \
            out.value.cls.qualname == 'ddsmt.cli.DDSMTException'
        p.oblige(f'C04/{N}/only-a-usage-diagnostic-escapes',
                 out.kind == 'return' or diag,
                 info={'outcome': repr(out), 'events': repr(events),
                       'signature': 'an exception other than the usage '
                       f'diagnostic escapes ddsmt_main: {out!r}'})
        if diag:
            p.oblige(f'C04/{N}/diagnostic-only-for-a-usage-error',
                     z3.Not(usage_ok))
            # (that a file cannot be started is only found by starting it:
            # the attempt itself is the one event allowed before the
            # diagnostic; no minimisation in any case)
            p.oblige(f'C04/{N}/nothing-run-after-a-usage-error',
                     all(isinstance(ev, tuple) and
                         ev[0] == 'run-of-an-unrunnable-file'
                         for ev in events) and 'reduce' not in events,
                     info=repr(events))
        if out.kind == 'return':
            p.oblige(f'C04/{N}/usage-error-is-reported', usage_ok)
            # the run went through (a reduction may have been written to the
            # output path): then that path is not the input file
            p.oblige(f'C01+C06/{N}/input-file-is-left-alone', z3.Not(same),
                     info={'signature': 'a run goes through although the '
                           'output path is the input file: the input is '
                           'replaced by the first accepted simplification'})
            p.oblige(f'C04/{N}/minimisation-ran', 'reduce' in events and
                     'golden' in events)

    return run


def replay_usage(name, model, detail):
    """The real executable on a real directory laid out as the counter-model
    says; a traceback or a diagnostic of more than one line is a failure."""
    def b(k):
        return bool(model.get(k, True))

    lay = {}
    for path in ('<infile>', '/bin/cmd', '/bin/cc'):
        lay[path] = [b(f'isfile[{path}]'), b(f'xbit[{path}]'),
                     b(f'runnable[{path}]')]
    A = {'layout': lay, 'with_cc': '[cc]' in name,
         'same': bool(model.get('outfile_is_infile', False))}
    script = f'''
import os, subprocess, sys, tempfile
A = {A!r}
d = tempfile.mkdtemp(prefix='c04usage-')
names = {{'<infile>': 'in.smt2', '/bin/cmd': 'cmd.sh', '/bin/cc': 'cc.sh'}}
for k, (isfile, xbit, runnable) in A['layout'].items():
    f = os.path.join(d, names[k])
    if not isfile:
        if xbit and k != '<infile>':
            os.mkdir(f)  # something with the x bit that is no regular file
        continue
    with open(f, 'w') as h:
        h.write('(assert true)\\n' if k == '<infile>'
                else '#!/bin/sh\\necho sat\\n' if runnable
                else 'echo sat (a script without the first line)\\n')
    os.chmod(f, 0o755 if xbit else 0o644)
argv = [sys.executable, os.path.join(os.environ['PYTHONPATH'].split(os.pathsep)[0], 'bin/ddsmt'),
        '-j1', os.path.join(d, 'in.smt2'),
        os.path.join(d, '.', 'in.smt2') if A.get('same') else
        os.path.join(d, 'out.smt2'), os.path.join(d, 'cmd.sh')]
inp = os.path.join(d, 'in.smt2')
before = open(inp, 'rb').read() if os.path.isfile(inp) else None
if A['with_cc']:
    argv[3:3] = ['-c', os.path.join(d, 'cc.sh')]
r = subprocess.run(argv, capture_output=True, text=True, timeout=300)
after = open(inp, 'rb').read() if os.path.isfile(inp) else None
import shutil; shutil.rmtree(d, ignore_errors=True)
tb = 'Traceback (most recent call last)' in r.stderr + r.stdout
usage_ok = all(i and ((x and r) or k == '<infile>')
               for k, (i, x, r) in A['layout'].items()
               if A['with_cc'] or k != '/bin/cc')
usage_ok = usage_ok and not A.get('same')
print('layout', A, 'exit', r.returncode, 'traceback', tb,
      'input file changed', before != after)
print(r.stderr[-800:])
bad = tb or (r.returncode == 0) != usage_ok or before != after
sys.exit(1 if bad else 0)
'''
    return {'script': script, 'input': A}


def usage_contracts(tier):
    A = ['os.path.isfile / os.access(X_OK) / shutil.copy / open / running a '
         'command modelled over two ghost booleans per path (regular file, '
         'x bit): copy and open of a non-file raise OSError, running a '
         'non-executable raises OSError, copy keeps the x bit',
         'parser, theory detection, tmpfiles.init, do_golden_runs and '
         'reduce are stubs here (their own contracts are elsewhere); '
         'main() prints the diagnostic exception as one line and returns 1 '
         '(read, 6 lines, not interpreted)']
    return [
        Contract(f'cli.usage[{t}]', ['ddsmt.cli.ddsmt_main',
                                     'ddsmt.cli.check_options',
                                     'ddsmt.tmpfiles.copy_binaries'],
                 make_run_usage(t == 'cc'), setup=setup_cli, assumptions=A,
                 replay=replay_usage)
        for t in ('no cc', 'cc')
    ]


def ddmin_top_contracts(tier):
    A = ['_check_seq/_check_par/_apply_mutator used through their contracts '
         '(proved by ddmin._check_seq, ddmin._check_par, '
         'ddmin._apply_mutator)']
    return [
        Contract('ddmin._apply_mutator', [DD + '._apply_mutator'],
                 run_apply_mutator, setup=setup_apply_mutator,
                 assumptions=A),
        Contract('ddmin.reduce', [DD + '.reduce'], run_dd_reduce,
                 setup=setup_dd_reduce, assumptions=A),
    ]


def all_contracts(tier):
    return (hier_contracts(tier) + worker_contracts(tier) +
            ddmin_contracts(tier) + ddmin_worker_contracts(tier) +
            ddmin_top_contracts(tier) + cli_contracts(tier) +
            usage_contracts(tier))
