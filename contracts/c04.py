"""C04 -- no internal failure on any input, meaningful exit status.

Exception-freedom obligations on the functions that run in the main process,
for *all* s-expression shapes (lazy symbolic nodes), plus the exit-status
contract of main()/bin/ddsmt.
"""
import os

import z3

from pyvc import mk, sym
from pyvc.api import Contract, NativeCheck, outcome
from pyvc.interp import LoopSpec, PyRaise
from pyvc.sym import SBool, SNum, SStr, SOpt, mk_bool, force
from . import env, nodemodel as nm

PROPERTY = 'C04'
A_NODES = [nm.ASSUME_LAZY, nm.ASSUME_EQ_CONTRACT]


def setup_nodes(eng):
    env.static_options(eng)
    nm.install(eng)
    nm.use_eq_contract(eng)
    contains_contract(eng)


def generic_node_loop(tag):
    """Loop over the children / sub-terms of a symbolic node: the body is
    verified for an arbitrary node (covers every iteration of every input)."""
    return LoopSpec(
        inv=lambda e, env_: True,
        elem=lambda e, env_, p: node_or_char(e, p, tag))


def node_or_char(eng, p, tag):
    """Element of a loop over a Node: a child node, or -- when the node is
    a leaf -- one character of its text."""
    if p.decide(p.fresh_bool(f'{tag}_is_char')):
        c = p.fresh_str(f'{tag}_char')
        p.assume(z3.Length(c) == 1)
        return sym.mk_str([('v', c)])
    return nm.lazy_node(eng, p, tag)


def node_replay(call_expr, var='S_n', imports='', prelude=''):
    """Replay script: rebuild the counterexample node and call the real
    function; reproduced (exit 1) iff it raises."""

    def replay(name, model, detail):
        v = model.get(var)
        if not isinstance(v, dict) or 'sexpr' not in v:
            return None
        script = f"""
import sys
from harness import replaylib as R
R.init_ddsmt()
{imports}
node = R.build({v['sexpr']!r})
{prelude}
try:
    {call_expr}
except Exception as e:
    print('raised', type(e).__name__, e, 'on', R.sexpr(R.plain(node)))
    sys.exit(1)
print('no exception on', R.sexpr(R.plain(node)))
sys.exit(0)
"""
        return {'script': script, 'input': v['sexpr']}

    return replay


def contains_contract(eng):
    """nodes.contains(node, func) used through its contract: it applies func
    to nodes of dfs(node) only, raises only what func raises, returns a
    Boolean.  (func is checked on an arbitrary node.)"""

    def contains(e, node, func):
        from pyvc.verify import probe
        p = sym.cur()
        # the predicate is probed on an arbitrary node (all its paths) without
        # multiplying the paths of the caller
        for o in probe(lambda: e.call(
                func, [nm.lazy_node(e, sym.cur(), 'sub')], {})):
            if o.kind == 'raise':
                # continue the caller's path with the sub-node on which the
                # predicate fails (keeps the counterexample concrete)
                for c in o.extra_pc:
                    p.assume(c)
                raise PyRaise(o.value, o.where)
        res = mk.sbool(p, 'contains')
        # ghost: which node was searched, with which answer (C14 below)
        p.ghost.setdefault('contains_queries', []).append((node, res))
        return res

    eng.overrides['ddsmt.nodes.contains'] = contains


# The commands of SMT-LIB 2.6 that declare or define a symbol with a sort, and
# the positions of the command at which sorts occur (from the standard, not
# from the code): C14 lets theory detection disable a group only if the input
# declares nothing of the theory.
DECLARING_FORMS = {
    'declare-const': (2, ),
    'declare-fun': (2, 3),
    'define-fun': (2, 3),
    'define-fun-rec': (2, 3),
    'define-sort': (3, ),
    'define-funs-rec': (1, ),
    'declare-datatype': (2, ),
    'declare-datatypes': (2, ),
}


def make_is_relevant(theory):

    def run(eng, p):
        mod = eng.load_module(f'ddsmt.mutators_{theory}')
        node = nm.lazy_node(eng, p, 'n')
        out = outcome(eng, mod.g['is_relevant'], [node])
        p.oblige(f'C04/mutators_{theory}.is_relevant/raises-nothing',
                 out.kind == 'return',
                 info={'outcome': repr(out), 'node': nm.render(node),
                       'signature': out.exc_name()
                       if out.kind == 'raise' else ''})
        if out.kind != 'return':
            return
        res = out.value
        N = f'C14/mutators_{theory}.is_relevant'
        p.oblige(f'{N}/returns-a-boolean', res is True or res is False,
                 info=repr(res))
        if res is not False:
            return
        # "not relevant": then, whatever declaring command this is, every
        # one of its sort positions was searched for a sort of the theory
        # (and the search - nodes.contains through its contract - said no;
        # a yes would have been returned as True on this path)
        s = nm.S(node)
        kids = nm.Struct.kids(s)
        asked = {k for k, ch in node.tag.get('kids', {}).items()
                 if any(q[0] is ch for q in p.ghost.get(
                     'contains_queries', []))}
        for form, pos in DECLARING_FORMS.items():
            if theory == 'datatypes':
                # a symbol over a datatype presupposes the command that
                # declares the datatype: that command is what counts
                if not form.startswith('declare-datatype'):
                    continue
                pos, missing = (0, ), ['the command itself']
            else:
                missing = [k for k in pos if k not in asked]
            if not missing:
                continue
            is_form = z3.And(nm.Struct.is_tup(s),
                             z3.Length(kids) > max(pos),
                             nm.Struct.is_leaf(kids[0]),
                             nm.Struct.text(kids[0]) == z3.StringVal(form))
            p.oblige(f'{N}/not-relevant-only-after-looking-at-every-sort-'
                     f'position[{form}]', z3.Not(is_form),
                     info={'signature': f'({form} ...) is judged not relevant '
                           f'without looking at position(s) {missing}',
                           'node': nm.render(node)})

    return run


# -- smtlib.collect_information ------------------------------------------------

CI = 'ddsmt.smtlib.collect_information'


def get_sort_contract(eng):
    """get_sort / get_bv_width used through their exception-freedom contract
    (verified by C04/get_sort, C04/get_bv_width): no exception, result is
    None or a sort term / an integer."""

    def get_sort(e, node):
        p = sym.cur()
        return SOpt(p.fresh_bool('sort_unknown'),
                    nm.lazy_node(e, p, 'sort'))

    def get_bv_width(e, node):
        return SNum(sym.cur().fresh_int('bw'))

    eng.overrides['ddsmt.smtlib.get_sort'] = get_sort
    eng.overrides['ddsmt.smtlib.get_bv_width'] = get_bv_width


def setup_collect(eng):
    setup_nodes(eng)
    nm.install_abs(eng)
    get_sort_contract(eng)
    # the trace messages of collect_information are built eagerly: their
    # arguments are evaluated (str(node) through its contract: an opaque
    # string, raises nothing -- verified by the contract Node.__str__)
    eng.eval_log_args = True
    eng.overrides['ddsmt.nodes.Node.__str__'] = lambda e, n: sym.mk_str(
        [('v', sym.cur().fresh_str('rendered'))])

    def havoc(e, env_, p):
        nm.havoc_tables(e, p)

    top = LoopSpec(inv=lambda e, env_: True,
                   elem=lambda e, env_, p: nm.lazy_node(e, p, 'cmd'),
                   havoc={'effect:tables': havoc})
    sub = LoopSpec(inv=lambda e, env_: True,
                   elem=lambda e, env_, p: nm.lazy_node(e, p, 'node'),
                   havoc={'effect:tables': havoc})
    eng.loop_specs[(CI, 'for cmd in exprs')] = top
    eng.loop_specs[(CI, 'for node in nodes.dfs(exprs)')] = sub
    for hdr in ('for constr in cmd[2][id]', 'for var in node[1]',
                'for var in node[1]#2'):
        eng.loop_specs[(CI, hdr)] = generic_node_loop('child')
    # iterated object is known not to be a leaf here: elements are nodes
    for hdr in ('for num in node[2:]', ):
        eng.loop_specs[(CI, hdr)] = LoopSpec(
            inv=lambda e, env_: True,
            elem=lambda e, env_, p: nm.lazy_node(e, p, 'child'))

    # loops over one child of the command: what an element is follows from
    # what that child is on this path (a list: a node; a leaf: a character of
    # its text) - asked of the child, not assumed from the guard in the code
    def child_elem(index):

        def elem(e, env_, p):
            it = e.getitem(env_.vars['cmd'], index)
            if e.truth(e.call(e.getattr(it, 'is_leaf'), [], {})):
                c = p.fresh_str('child_char')
                p.assume(z3.Length(c) == 1)
                return sym.mk_str([('v', c)])
            return nm.lazy_node(e, p, 'child')

        return elem

    for hdr, index in (('for constr in cmd[2]', 2), ('for sig in cmd[1]', 1)):
        eng.loop_specs[(CI, hdr)] = LoopSpec(inv=lambda e, env_: True,
                                             elem=child_elem(index))
    for hdr in ('for (id, sel) in enumerate(constr[1:])',
                'for (i, sel) in enumerate(constr[1:])'):
        eng.loop_specs[(CI, hdr)] = LoopSpec(
            inv=lambda e, env_: True,
            elem=lambda e, env_, p: (nm._nonneg(p),
                                     node_or_char(e, p, 'sel')))


def run_collect(eng, p):
    sm = eng.load_module('ddsmt.smtlib')
    n = nm.lazy_node(eng, p, 'n')
    out = outcome(eng, sm.g['collect_information'], [[n]])
    p.oblige('C04/collect_information/raises-nothing', out.kind == 'return',
             info={'outcome': repr(out), 'signature': out.exc_name()
                   if out.kind == 'raise' else '',
                   'where': str(out.where)})


def search_replay(call_expr, imports='', wrap_list=True):
    """Replay for contracts whose loops were verified on generic elements:
    the model gives independent pieces; candidate inputs are composed from
    them and run on the real function until one raises."""

    def replay(name, model, detail):
        cands = [v['sexpr'] for k, v in sorted(model.items())
                 if isinstance(v, dict) and 'sexpr' in v]
        want = detail.get('signature') if isinstance(detail, dict) else ''
        script = f"""
import sys
from harness import replaylib as R
R.init_ddsmt()
{imports}
pieces = {cands!r}
tried = 0
for pl in R.compose_candidates(pieces):
    for top in (pl, ['assert', pl]):
        node = R.build(top)
        exprs = [node]
        tried += 1
        try:
            {call_expr}
        except Exception as e:
            if {want!r} in ('', type(e).__name__):
                print('raised', type(e).__name__, e, 'on', R.sexpr(R.plain(node)))
                sys.exit(1)
print('no exception on', tried, 'candidate inputs composed from', pieces)
sys.exit(0)
"""
        return {'script': script, 'input': cands}

    return replay


collect_replay = search_replay('smtlib.collect_information(exprs)',
                               'from ddsmt import smtlib')


# -- get_sort: failures of the inference are contained ---------------------------


class AnyError(Exception):
    """Stands for an arbitrary exception class the code does not name."""


def setup_get_sort(eng):
    setup_nodes(eng)
    nm.install_abs(eng)


def run_get_sort(eng, p):
    sm = eng.load_module('ddsmt.smtlib')
    nm.havoc_tables(eng, p)
    node = nm.lazy_node(eng, p, 'n')

    def aux(e, n):
        # the case analysis may return anything or fail on ill-formed terms
        k = p.choose(3, 'aux')
        if k == 0:
            raise PyRaise(AnyError('ill-formed term'))
        if k == 1:
            return None
        return nm.lazy_node(e, p, 'sort')

    eng.overrides['ddsmt.smtlib._get_sort_aux'] = aux
    out = outcome(eng, sm.g['get_sort'], [node])
    p.oblige('C04/get_sort/failure-contained', out.kind == 'return',
             info={'outcome': repr(out), 'signature': 'get_sort propagates '
                   'exceptions of _get_sort_aux'})


GET_SORT_REPLAY = """
import sys, itertools
from harness import replaylib as R
R.init_ddsmt()
from ddsmt import smtlib
# ill-formed terms that delta debugging produces from well-formed ones
atoms = ['x', '1', '_', 'extract', 'bv1', 'bvneg', 'concat', 'zero_extend',
         'fp', 'ite', 'select', '+']
cands = [[a] for a in atoms] + [[a, b] for a in atoms for b in atoms]
cands += [[['_', a, b], 'x'] for a in atoms for b in atoms]
cands += [[['_', a, b, c], 'x'] for a in atoms for b in atoms
          for c in ('x', '1')]
cands += [['_', 'bv1', ['8']], [['_', 'extract', ['1'], '0'], 'x'],
          ['concat', ['_', 'bv1', ['8']], 'x']]
smtlib.collect_information([])
for pl in cands:
    node = R.build(pl)
    try:
        smtlib.get_sort(node)
    except Exception as e:
        print('get_sort raised', type(e).__name__, e, 'on', R.sexpr(pl))
        # the same term as a let binding crashes collect_information, which
        # runs unguarded in the main process
        exprs = [R.build(['assert', ['let', [['v', pl]], 'v']])]
        try:
            smtlib.collect_information(exprs)
        except Exception as e2:
            print('collect_information raised', type(e2).__name__, 'on',
                  R.sexpr(R.plain(exprs[0])))
        sys.exit(1)
print('get_sort raised on none of', len(cands), 'ill-formed terms')
sys.exit(0)
"""


# -- ddmin task generation: mutator failures are contained ------------------------


class AdvMutator:
    """Adversarial mutator: every method may fail or return junk."""

    def __init__(self, eng, p, simp_cls, has_filter, kind):
        self._eng, self._p, self._S = eng, p, simp_cls
        self._kind = kind
        if has_filter:
            self.filter = self._filter
        if kind == 'mutations':
            self.mutations = self._mutations
        elif kind == 'global':
            self.global_mutations = lambda node, exprs: self._mutations(node)

    def _filter(self, node):
        k = self._p.choose(3, 'filter')
        if k == 0:
            raise PyRaise(AnyError('filter failed'))
        return k == 1

    def _mutations(self, node):
        k = self._p.choose(5, 'mutations')
        if k == 0:
            raise PyRaise(AnyError('mutations failed'))
        if k == 1:
            return []
        if k == 2:
            return 42  # not iterable
        simp = self._eng.call(self._S, [{node.attrs['id']: None}, []], {})
        if k == 3:
            return [simp]

        def gen():
            yield simp
            raise PyRaise(AnyError('generator failed'))

        return gen()

    def __str__(self):
        return 'adversarial mutator'


AdvMutator.__module__ = 'contracts.c04'


def setup_taskgen(eng):
    env.static_options(eng, jobs=1)
    nm.install(eng)


def make_run_taskgen(has_filter, kind, gran):

    def run(eng, p):
        dd = eng.load_module('ddsmt.strategy_ddmin')
        mu = eng.load_module('ddsmt.mutator_utils')
        a = nm.mk_node(eng, 'assert', nm.mk_node(eng, 'f', 'x'))
        b = nm.mk_node(eng, 'check-sat')
        exprs = [a, b]  # traversal limited to the two top-level nodes
        mut = AdvMutator(eng, p, mu.g['Simplification'], has_filter, kind)
        tag = f'C04/TaskGenerator[{kind},filter={has_filter},gran={gran}]'
        o = outcome(eng, dd.g['TaskGenerator'], [exprs, gran, mut, 1])
        p.oblige(f'{tag}/init-raises-nothing', o.kind == 'return',
                 info={'outcome': repr(o), 'signature':
                       'mutator failure escapes ddmin task generation'})
        if o.kind != 'return':
            return
        tg = o.value
        nxt = eng.getattr(tg, '__next__')
        for _ in range(8):
            o = outcome(eng, nxt, [])
            if o.kind == 'raise':
                p.oblige(f'{tag}/next-raises-only-StopIteration',
                         isinstance(o.value, StopIteration),
                         info={'outcome': repr(o), 'signature':
                               'mutator failure escapes ddmin task '
                               'generation'})
                return
            t = o.value
            p.oblige(f'{tag}/task-has-simplifications',
                     isinstance(t.simplifications, list) and
                     len(t.simplifications) > 0)

    return run


TASKGEN_REPLAY = """
import sys
from harness import replaylib as R
R.init_ddsmt()
from ddsmt import strategy_ddmin, smtlib, mutators_bv
# a real mutator on an ill-formed node that reduction produces
exprs = [R.build(['assert', ['=', ['bvnot'], 'x']])]
smtlib.collect_information(exprs)
try:
    for m in (mutators_bv.BVDoubleNegation(), mutators_bv.BVConcatToZeroExtend()):
        for exprs in ([R.build(['assert', ['bvneg']])],
                      [R.build(['assert', ['concat']])]):
            tg = strategy_ddmin.TaskGenerator(exprs, 1, m)
            for t in tg:
                pass
except Exception as e:
    print('ddmin task generation raised', type(e).__name__, e)
    sys.exit(1)
print('task generation contained the failure')
sys.exit(0)
"""


# -- exit status ---------------------------------------------------------------------


def setup_main(eng):
    env.static_options(eng, profile=False)


def run_main(eng, p):
    cli = eng.load_module('ddsmt.cli')
    main = eng.load_module('ddsmt.__main__')
    DDE = cli.g['DDSMTException']
    k = p.choose(6, 'ending')
    names = ['normal', 'usage-error', 'interrupt', 'memory', 'sys.exit(1)',
             'internal-error']

    def ddsmt_main(e):
        if k == 1:
            raise PyRaise(e.call(DDE, ['input file is not a regular file'],
                                 {}))
        if k == 2:
            raise PyRaise(KeyboardInterrupt())
        if k == 3:
            raise PyRaise(MemoryError())
        if k == 4:
            raise PyRaise(SystemExit(1))
        if k == 5:
            raise PyRaise(AnyError('bug'))
        return None

    eng.overrides['ddsmt.cli.ddsmt_main'] = ddsmt_main
    o = outcome(eng, main.g['main'], [])
    printed = p.ghost.get('printed', [])
    N = 'C04/__main__.main'
    if k == 0:
        p.oblige(f'{N}/returns-0-on-completion',
                 o.kind == 'return' and o.value == 0 and not printed)
    elif k in (1, 2, 3):
        p.oblige(f'{N}/returns-1-with-one-line[{names[k]}]',
                 o.kind == 'return' and o.value == 1 and len(printed) == 1,
                 info=repr((o, printed)))
        if k == 1 and o.kind == 'return' and printed:
            line = eng.to_str(printed[0])
            p.oblige(f'{N}/usage-error-message',
                     isinstance(line, str) and '\n' not in line and
                     line.startswith('[ddsmt] Error: '))
    elif k == 4:
        p.oblige(f'{N}/SystemExit-propagates',
                 o.kind == 'raise' and isinstance(o.value, SystemExit) and
                 o.value.code == 1)
    else:
        # an internal error is not swallowed and never reported as success
        p.oblige(f'{N}/internal-error-never-returns-0',
                 not (o.kind == 'return' and o.value == 0))


def run_bin(eng, p):
    import types
    r = mk.sint(p, 'main_result')
    p.assume(z3.Or(r.z == 0, r.z == 1))
    code = []

    def fake_exit(c=0):
        code.append(c)
        raise SystemExit(c)

    fake_exit.__module__ = 'contracts.c04'
    eng.native_modules['sys'] = types.SimpleNamespace(
        path=[], exit=fake_exit, argv=['ddsmt'])
    eng.native_modules['multiprocessing'] = types.SimpleNamespace(
        set_start_method=lambda m: None)
    eng.module_stubs['ddsmt.__main__'] = {'main': lambda: r}
    eng.modules.pop('ddsmt.__main__', None)
    import os
    try:
        eng.run_script(os.path.join(eng.repo, 'bin', 'ddsmt'))
        status = 0
    except PyRaise as e:
        if not isinstance(e.value, SystemExit):
            raise
        status = e.value.code
        if status is None:
            status = 0
    p.oblige('C04/bin.ddsmt/exit-status-is-main-result',
             mk_bool(sym._znum(status) == r.z),
             info={'signature': 'bin/ddsmt ignores the value of main()'})


BIN_REPLAY = """
import subprocess, sys, os
repo = os.environ.get('PYVC_REPO', '/repo')
r = subprocess.run([sys.executable, os.path.join(repo, 'bin', 'ddsmt'),
                    '/nonexistent-input.smt2', '/tmp/ddsmt-replay-out.smt2',
                    '/bin/true'], capture_output=True, text=True)
print('stdout:', r.stdout.strip(), '| exit status:', r.returncode)
# a usage error must not exit with status 0
sys.exit(1 if r.returncode == 0 else 0)
"""


def const_replay(script):
    return lambda name, model, detail: {'script': script, 'search': True}


# -- no recursion over the depth of the input (static) ----------------------------

RECURSION_OK = {
    # recursion over the nesting of the *tuple literal* passed to Node(...)
    # by a mutator -- a constant of the calling code, not of the input
    'Node.__ensure_is_node':
    'depth = nesting of the tuple literal handed to Node() by the caller',
}


def run_no_recursion(eng, p):
    """Functions of nodes.py / nodeio.py run in the main process on the whole
    input: none may recurse (directly, or -- __str__/__repr__ -- through
    str()/repr()/formatting of a child): a term nested deeper than the
    interpreter's recursion limit would abort ddSMT."""
    import ast
    bad = []
    for modname in ('ddsmt.nodes', 'ddsmt.nodeio'):
        path = eng.source_path(modname)
        tree = ast.parse(open(path).read())

        def funcs(body, prefix=''):
            for n in body:
                if isinstance(n, ast.FunctionDef):
                    yield prefix + n.name, n
                elif isinstance(n, ast.ClassDef):
                    yield from funcs(n.body, n.name + '.')

        for qual, fn in funcs(tree.body):
            name = fn.name
            mangled = name
            calls = set()
            fmt = False
            for n in ast.walk(fn):
                if isinstance(n, ast.Call):
                    f = n.func
                    if isinstance(f, ast.Name):
                        calls.add(f.id)
                    elif isinstance(f, ast.Attribute):
                        calls.add(f.attr)
                    # map(str, ...) / map(repr, ...)
                    if isinstance(f, ast.Name) and f.id == 'map':
                        for a in n.args:
                            if isinstance(a, ast.Name) and a.id in (
                                    'str', 'repr'):
                                calls.add(a.id)
                elif isinstance(n, ast.FormattedValue):
                    fmt = True
            rec = mangled in calls
            if name == '__str__' and ('str' in calls or 'format' in calls):
                rec = True
            if name == '__repr__' and 'repr' in calls:
                rec = True
            if name in ('__str__', '__repr__') and fmt:
                # f'{child}' inside __str__/__repr__: only plain data may be
                # formatted -- accept attribute accesses of the form x.data /
                # x.id, refuse anything else
                for n in ast.walk(fn):
                    if isinstance(n, ast.FormattedValue) and not (
                            isinstance(n.value, ast.Attribute) and
                            n.value.attr in ('data', 'id')):
                        rec = True
            if rec and qual not in RECURSION_OK:
                bad.append(f'{modname}.{qual}')
    # auxiliary (syntactic, may flag harmless recursion): a refutation makes
    # the check undecided; the native deep-nesting check decides
    p.oblige('static/nodes/no-recursion-over-the-depth-of-the-input', not bad,
             info={'recursive': bad, 'signature': 'a function that runs on '
                   'the whole input in the main process is recursive: terms '
                   'nested deeper than the recursion limit abort ddSMT'})


def run_no_swallowed_interrupt(eng, p):
    """No handler in ddSMT catches KeyboardInterrupt / SystemExit without
    re-raising, except the documented ones (the mapping to a diagnostic in
    __main__.main; the profiler wrapper, which re-raises)."""
    import ast
    import glob
    bad = []
    ok_sites = {('ddsmt/__main__.py', 'main')}
    files = sorted(glob.glob(os.path.join(eng.repo, 'ddsmt', '*.py'))) + [
        os.path.join(eng.repo, 'bin', 'ddsmt')]
    for path in files:
        rel = os.path.relpath(path, eng.repo)
        tree = ast.parse(open(path).read())
        owner = {}

        def mark(node, fname):
            for ch in ast.iter_child_nodes(node):
                if isinstance(ch, ast.ExceptHandler):
                    owner[ch] = fname
                mark(ch, ch.name if isinstance(
                    ch, (ast.FunctionDef, ast.AsyncFunctionDef)) else fname)

        mark(tree, '<module>')
        for h, fname in owner.items():
            t = h.type
            if t is None:
                names = ['<bare>']
            else:
                names = [ast.unparse(x) for x in (
                    t.elts if isinstance(t, ast.Tuple) else [t])]
            broad = [x for x in names if x in (
                '<bare>', 'BaseException', 'KeyboardInterrupt',
                'SystemExit')]
            if not broad:
                continue
            reraises = any(isinstance(x, ast.Raise) for x in ast.walk(h))
            if not reraises and (rel, fname) not in ok_sites:
                bad.append(f'{rel}:{h.lineno} except {", ".join(broad)}')
    bad = sorted(set(bad))
    # auxiliary (syntactic): a handler in code that only runs in pool workers
    # would be harmless; the _worker contract decides for the main process
    p.oblige('static/no-handler-swallows-an-interrupt', not bad,
             info={'handlers': bad, 'signature': 'a handler catches '
                   'KeyboardInterrupt / SystemExit and goes on: ddSMT '
                   'cannot be interrupted there'})


def native_checks(tier):
    L = 6 if tier == 'thorough' else 5
    return [
        NativeCheck('C04/native/deep-nesting',
                    ['ddsmt.nodes.Node.__str__', 'ddsmt.nodes.Node.__repr__',
                     'ddsmt.smtlib.collect_information',
                     'ddsmt.nodeio.parse_smtlib', 'ddsmt.nodeio.write_smtlib'],
                    'harness/c04_deep.py',
                    [6000 if tier == 'thorough' else 3000],
                    bound='9 commands around a unary chain nested 3000 '
                    '(6000) levels deep x 17 main-process operations',
                    timeout=1200),
        NativeCheck('C04/native/parser', ['ddsmt.nodeio.parse_smtlib'],
                    'harness/parser_native.py', ['parse', L],
                    bound=f'exception freedom of the parser on all strings '
                    f'of length <= {L} over 11 representative characters '
                    '(balanced or not)', timeout=3000),
    ]


THEORY_SORT = {
    'arithmetic': 'Int', 'bv': ['_', 'BitVec', '8'],
    'fp': ['_', 'FloatingPoint', '5', '11'], 'strings': 'String',
}


def relevant_replay(theory):
    """Replay for both kinds of obligation of the is_relevant contracts: an
    exception is searched for as before; 'judged not relevant without
    looking' is shown on the real function with commands of the form the
    obligation names that carry a sort of the theory at a sort position."""
    search = search_replay(f'mutators_{theory}.is_relevant(node)',
                           imports=f'from ddsmt import mutators_{theory}')

    def replay(name, model, detail):
        if '/not-relevant-only-after-' not in name:
            return search(name, model, detail)
        form = name[name.index('[') + 1:name.rindex(']')]
        S = THEORY_SORT.get(theory, 'T')
        cmds = {
            'declare-const': [['declare-const', 'x', S]],
            'declare-fun': [['declare-fun', 'f', [S], 'Bool'],
                            ['declare-fun', 'f', ['Bool'], S]],
            'define-fun': [['define-fun', 'f', [['a', S]], 'Bool', 'true'],
                           ['define-fun', 'f', [], S, 'v']],
            'define-fun-rec': [['define-fun-rec', 'f', [['a', S]], 'Bool',
                                ['f', 'a']],
                               ['define-fun-rec', 'f', [['a', 'Bool']], S,
                                ['f', 'a']]],
            'define-sort': [['define-sort', 'N', [], S]],
            'define-funs-rec': [['define-funs-rec',
                                 [['f', [['a', S]], 'Bool']], [['f', 'a']]],
                                ['define-funs-rec',
                                 [['f', [['a', 'Bool']], S]], [['f', 'a']]]],
            'declare-datatype': [['declare-datatype', 'T',
                                  [['mk', ['fld', S]]]]],
            'declare-datatypes': [['declare-datatypes', [['T', '0']],
                                   [[['c'], ['mk', ['fld', S]]]]]],
        }[form]
        script = f"""
import sys
from harness import replaylib as R
R.init_ddsmt()
from ddsmt import mutators_{theory}
bad = 0
for cmd in {cmds!r}:
    got = mutators_{theory}.is_relevant(R.build(cmd))
    print(R.sexpr(cmd), '-> is_relevant:', got)
    if got is not True:
        bad += 1
if bad:
    print('declares a symbol of the {theory} theory, judged not relevant: '
          'the group would be disabled automatically')
sys.exit(1 if bad else 0)
"""
        return {'script': script, 'input': cmds}

    return replay


def is_relevant_contracts(tier):
    """Exception freedom (C04) and the theory-detection clause of C14 for
    the five is_relevant() functions, on an arbitrary command."""
    return [
        Contract(f'C04/mutators_{th}.is_relevant',
                 [f'ddsmt.mutators_{th}.is_relevant'],
                 make_is_relevant(th), setup=setup_nodes,
                 assumptions=A_NODES + [
                     'nodes.contains used through its contract (applies '
                     'the predicate to sub-nodes only); which commands '
                     'declare a symbol and where their sorts stand is taken '
                     'from SMT-LIB 2.6 (DECLARING_FORMS)'],
                 replay=relevant_replay(th))
        for th in ('arithmetic', 'bv', 'datatypes', 'fp', 'strings')
    ]


def contracts(tier):
    from pyvc.interp import PyRaise  # noqa
    from . import c08, traversals, writers, rebuild
    cs = [Contract('C04/no-recursion', ['ddsmt.nodes', 'ddsmt.nodeio'],
                   run_no_recursion,
                   assumptions=['syntactic: direct recursion and recursion '
                                'of __str__/__repr__ through str()/repr()/'
                                'formatting; mutual recursion between '
                                'different functions is not searched for'])]
    cs.append(Contract('C04/no-swallowed-interrupt',
                       ['ddsmt.nodeio.write_smtlib_to_file'],
                       run_no_swallowed_interrupt,
                       assumptions=['syntactic scan of every except clause '
                                    'of ddsmt/*.py and bin/ddsmt']))
    cs += list(c08.scanner_contracts(tier)) + traversals.contracts(tier) + \
        writers.contracts(tier) + rebuild.contracts(tier) + \
        rebuild.reduplicate_contracts(tier) + \
        rebuild.substitute_contracts(tier)
    cs += is_relevant_contracts(tier)
    cs.append(
        Contract('C04/collect_information', [CI], run_collect,
                 setup=setup_collect, replay=collect_replay,
                 assumptions=A_NODES + [
                     'get_sort/get_bv_width used through their '
                     'exception-freedom contract; loops over commands, '
                     'sub-terms and children verified for an arbitrary '
                     'element with the symbol tables havocked'],
                 max_paths=20000))
    cs.append(
        Contract('C04/get_sort', ['ddsmt.smtlib.get_sort'], run_get_sort,
                 setup=setup_get_sort, replay=const_replay(GET_SORT_REPLAY),
                 assumptions=A_NODES + [
                     '_get_sort_aux modelled adversarially: returns None or '
                     'a node, or raises an arbitrary Exception']))
    for has_filter in (True, False):
        for kind in ('mutations', 'global'):
            for gran in (1, 2):
                cs.append(
                    Contract(
                        f'C04/TaskGenerator[{kind},filter={has_filter},'
                        f'gran={gran}]',
                        ['ddsmt.strategy_ddmin.TaskGenerator.__init__',
                         'ddsmt.strategy_ddmin.TaskGenerator.__next__',
                         'ddsmt.strategy_ddmin.TaskGenerator.__get_substs'],
                        make_run_taskgen(has_filter, kind, gran),
                        setup=setup_taskgen, tier='S',
                        max_paths=8000,
                        bound='input: 2 commands, max_depth 1 (containment does '
                        'not depend on the shape); mutator adversarial: '
                        'raise / [] / non-iterable / one proposal / '
                        'generator failing after one proposal',
                        replay=const_replay(TASKGEN_REPLAY),
                        assumptions=['mutators modelled adversarially']))
    cs.append(
        Contract('C04/__main__.main', ['ddsmt.__main__.main'], run_main,
                 setup=setup_main,
                 assumptions=['cli.ddsmt_main abstracted: completes, or '
                              'raises DDSMTException / KeyboardInterrupt / '
                              'MemoryError / SystemExit(1) / an arbitrary '
                              'exception']))
    cs.append(
        Contract('C04/bin.ddsmt', ['bin.ddsmt'], run_bin,
                 replay=const_replay(BIN_REPLAY),
                 assumptions=['__main__.main() abstracted: returns 0 or 1; '
                              'a script that ends without sys.exit() exits '
                              'with status 0']))
    # exception freedom / containment obligations (C04/...) of the strategy
    # functions, workers and cli are part of the strategy contracts
    from . import strategies
    cs.extend(strategies.all_contracts(tier))
    return cs
