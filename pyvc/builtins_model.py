"""Semantics of builtins and a few stdlib functions inside the engine.

This file is part of the trusted base; it is cross-checked against CPython by
``pyvc.selfcheck`` (concrete runs through the engine must agree with native
execution).
"""
import collections
import math
import re

import z3

from . import sym
from .sym import (SBool, SNum, SStr, SOpt, Unsupported, PathAbort, force,
                  is_sym, mk_bool, cur)


def install(eng):  # noqa: C901
    from . import interp
    from .interp import (ObjVal, ClassVal, FuncVal, BoundMethod, PyRaise,
                         SymDict, SymSet, _MISSING)
    B = eng.builtins
    H = eng.native_handlers

    def reg(native, fn):
        H[interp._hkey(native)] = fn

    # -- len ---------------------------------------------------------------
    def b_len(e, x):
        x = force(x)
        if isinstance(x, ObjVal):
            try:
                f, _ = x.cls.lookup('__len__')
            except KeyError:
                raise PyRaise(TypeError('object has no len()'))
            return e.call(f, [x], {})
        if isinstance(x, SStr):
            return x.length()
        h = e.len_handlers.get(type(x))
        if h is not None:
            return h(e, x)
        if is_sym(x):
            raise PyRaise(TypeError('object has no len()'))
        return e.guard(lambda: len(x))

    eng.len_handlers = {}
    reg(len, b_len)

    # -- isinstance ----------------------------------------------------------
    def inst_of(e, x, c):
        if isinstance(c, tuple):
            r = False
            for cc in c:
                r = sym.s_or(r, inst_of(e, x, cc))
                if r is True:
                    return True
            return r
        h = e.isinstance_handlers.get(type(x))
        if h is not None:
            return h(e, x, c)
        if isinstance(x, sym.Abstract):
            raise Unsupported(f'isinstance() of {type(x).__name__}')
        if isinstance(c, ClassVal):
            return isinstance(x, ObjVal) and c in x.cls.mro
        if isinstance(x, ObjVal):
            return any(isinstance(k, type) and issubclass(k, c)
                       for k in x.cls.mro if isinstance(k, type))
        if isinstance(x, SStr):
            return issubclass(str, c)
        if isinstance(x, SNum):
            return issubclass(int if x.is_int else float, c)
        if isinstance(x, SBool):
            return issubclass(bool, c)
        if isinstance(x, (SymDict, )):
            return issubclass(dict, c)
        if isinstance(x, SymSet):
            return issubclass(set, c)
        return isinstance(x, c)

    def b_isinstance(e, x, c):
        if isinstance(x, SOpt):
            x = force(x)
        return inst_of(e, x, c)

    eng.isinstance_handlers = {}
    reg(isinstance, b_isinstance)

    # -- conversions -----------------------------------------------------------
    def b_str(e, x=''):
        return e.to_str(x)

    reg(str, b_str)

    def b_int(e, x=0, base=None):
        x = force(x)
        if base is not None:
            if is_sym(x):
                raise Unsupported('int(symbolic, base)')
            return e.guard(lambda: int(x, base))
        if is_sym(x):
            return e.guard(lambda: sym.to_int(x))
        if isinstance(x, ObjVal):
            raise PyRaise(TypeError('int() argument must be a string or a '
                                    'number, not object'))
        return e.guard(lambda: int(x))

    reg(int, b_int)

    def b_float(e, x=0.0):
        x = force(x)
        if isinstance(x, SNum):
            return x
        if is_sym(x):
            raise Unsupported('float() of symbolic string')
        return e.guard(lambda: float(x))

    reg(float, b_float)

    def b_bool(e, x=False):
        return e.truth(x)

    reg(bool, b_bool)

    def b_repr(e, x):
        x = force(x)
        if isinstance(x, ObjVal):
            f, _ = x.cls.lookup('__repr__')
            return e.call(f, [x], {})
        if is_sym(x):
            raise Unsupported('repr of symbolic')
        return repr(x)

    reg(repr, b_repr)

    # -- hash -------------------------------------------------------------------
    STRHASH = z3.Function('strhash', z3.StringSort(), z3.IntSort())
    HCOMB = z3.Function('hcomb', z3.IntSort(), z3.IntSort(), z3.IntSort())
    eng.STRHASH = STRHASH
    eng.HCOMB = HCOMB
    eng.symbolic_hash = False

    def b_hash(e, x):
        x = force(x)
        if isinstance(x, ObjVal):
            try:
                f, _ = x.cls.lookup('__hash__')
            except KeyError:
                return id(x)
            return e.call(f, [x], {})
        if isinstance(x, SStr):
            return SNum(STRHASH(x.z))
        if isinstance(x, str) and e.symbolic_hash:
            return SNum(STRHASH(z3.StringVal(x)))
        if isinstance(x, tuple) and (e.symbolic_hash or any(
                isinstance(y, ObjVal) or is_sym(y) for y in x)):
            acc = z3.IntVal(len(x))
            for y in x:
                h = b_hash(e, y)
                acc = HCOMB(acc, sym._znum(h))
            return SNum(acc)
        if is_sym(x):
            raise Unsupported('hash of symbolic number')
        return e.guard(lambda: hash(x))

    reg(hash, b_hash)

    # -- attribute functions ------------------------------------------------------
    def b_hasattr(e, o, n):
        return e.hasattr(o, n)

    reg(hasattr, b_hasattr)

    def b_getattr(e, o, n, *d):
        try:
            return e.getattr(o, n)
        except PyRaise as ex:
            if d and isinstance(ex.value, AttributeError):
                return d[0]
            raise

    reg(getattr, b_getattr)

    def b_setattr(e, o, n, v):
        e.setattr(o, n, v)

    reg(setattr, b_setattr)

    # -- iteration helpers -------------------------------------------------------
    def b_map(e, f, *its):
        if len(its) == 1:
            return (e.call(f, [x], {}) for x in e.iterate(its[0]))
        return (e.call(f, list(xs), {})
                for xs in zip(*[e.iterate(i) for i in its]))

    reg(map, b_map)

    def b_filter(e, f, it):
        if f is None:
            return (x for x in e.iterate(it) if e.truth(x))
        return (x for x in e.iterate(it) if e.truth(e.call(f, [x], {})))

    reg(filter, b_filter)

    def b_any(e, it):
        if isinstance(it, sym.CharsIn):
            return it.any()
        for x in e.iterate(it):
            if e.truth(x):
                return True
        return False

    reg(any, b_any)

    def b_all(e, it):
        if isinstance(it, sym.CharsIn):
            return it.all()
        for x in e.iterate(it):
            if not e.truth(x):
                return False
        return True

    reg(all, b_all)

    def b_enumerate(e, it, start=0):
        def gen():
            yield from enumerate(e.iterate(it), start)
        return gen()

    reg(enumerate, b_enumerate)

    def b_zip(e, *its):
        def gen():
            yield from zip(*[e.iterate(i) for i in its])
        return gen()

    reg(zip, b_zip)

    def b_list(e, it=()):
        return list(e.iterate(it))

    reg(list, b_list)

    def b_tuple(e, it=()):
        return tuple(e.iterate(it))

    reg(tuple, b_tuple)

    def b_set(e, it=()):
        return e.mk_set(list(e.iterate(it)))

    reg(set, b_set)

    def b_dict(e, *a, **k):
        d = SymDict()
        if a:
            src = a[0]
            if isinstance(src, (dict, SymDict)):
                items = e.dict_items(src)
            else:
                items = [tuple(e.iterate(x)) for x in e.iterate(src)]
            for kk, vv in items:
                d = e.dict_set(d, kk, vv)
        for kk, vv in k.items():
            d.set(e, kk, vv)
        return d

    reg(dict, b_dict)

    def b_iter(e, x):
        return iter(e.iterate(x))

    reg(iter, b_iter)

    def b_next(e, it, *d):
        if isinstance(it, ObjVal):
            f, _ = it.cls.lookup('__next__')
            try:
                return e.call(f, [it], {})
            except PyRaise as ex:
                if d and isinstance(ex.value, StopIteration):
                    return d[0]
                raise
        try:
            return next(it)
        except StopIteration:
            if d:
                return d[0]
            raise PyRaise(StopIteration())
        except TypeError as ex:
            raise PyRaise(ex)

    reg(next, b_next)

    def b_reversed(e, x):
        x = force(x)
        if isinstance(x, ObjVal):
            n = b_len(e, x)
            if isinstance(n, SNum):
                h = e.reversed_handlers.get('obj')
                if h is not None:
                    return h(e, x, n)
                raise Unsupported('reversed() of symbolic-length object')
            g, _ = x.cls.lookup('__getitem__')
            return (e.call(g, [x, i], {}) for i in range(n - 1, -1, -1))
        h = e.reversed_handlers.get(type(x))
        if h is not None:
            return h(e, x)
        return e.guard(lambda: reversed(x))

    eng.reversed_handlers = {}
    reg(reversed, b_reversed)

    def b_sorted(e, it, key=None, reverse=False):
        xs = list(e.iterate(it))
        if key is not None:
            ks = [e.call(key, [x], {}) for x in xs]
        else:
            ks = xs
        if any(is_sym(k) or isinstance(k, ObjVal) for k in ks):
            # insertion sort with symbolic comparisons (stable)
            order = []
            for i, k in enumerate(ks):
                j = len(order)
                while j > 0 and e.truth(
                        e.guard(lambda: k < ks[order[j - 1]])):
                    j -= 1
                order.insert(j, i)
            res = [xs[i] for i in order]
            if reverse:
                raise Unsupported('sorted(reverse) with symbolic keys')
            return res
        idx = sorted(range(len(xs)), key=lambda i: ks[i], reverse=reverse)
        return [xs[i] for i in idx]

    reg(sorted, b_sorted)

    def b_min(e, *a, **k):
        return _minmax(e, a, k, lambda x, y: x < y)

    def b_max(e, *a, **k):
        return _minmax(e, a, k, lambda x, y: x > y)

    def _minmax(e, a, k, better):
        if k:
            raise Unsupported('min/max with key/default')
        xs = list(e.iterate(a[0])) if len(a) == 1 else list(a)
        if not xs:
            raise PyRaise(ValueError('min()/max() arg is an empty sequence'))
        best = force(xs[0])
        for x in xs[1:]:
            x = force(x)
            if e.truth(e.guard(lambda: better(x, best))):
                best = x
        return best

    reg(min, b_min)
    reg(max, b_max)

    def b_sum(e, it, start=0):
        acc = start
        import ast as _ast
        for x in e.iterate(it):
            acc = e.binop(_ast.Add(), acc, x)
        return acc

    reg(sum, b_sum)

    def b_range(e, *a):
        a = [force(x) for x in a]
        if any(isinstance(x, SNum) for x in a):
            if len(a) == 1:
                lo, hi = 0, a[0]
            elif len(a) == 2:
                lo, hi = a
            else:
                raise Unsupported('symbolic range with step')
            return SRange(lo, hi)
        return e.guard(lambda: range(*a))

    reg(range, b_range)

    class SRange:

        def __init__(self, lo, hi):
            self.lo = lo
            self.hi = hi

    def iter_srange(e, r):
        i = r.lo
        k = 0
        while True:
            if not e.truth(i < r.hi):
                return
            if k >= e.iter_bound:
                cur().bounded.append(f'range unrolled {e.iter_bound} times')
                raise PathAbort('iteration bound')
            yield i
            i = i + 1
            k += 1

    eng.iter_handlers[SRange] = iter_srange

    class SRevRange:
        """reversed(range(lo, hi)) with symbolic bounds; only usable as the
        iterable of a loop that has an invariant (generic element)."""

        def __init__(self, r):
            self.r = r

    eng.reversed_handlers[SRange] = lambda e, r: SRevRange(r)
    eng.len_handlers[SRange] = lambda e, r: _clip0(r.hi - r.lo)

    def _clip0(n):
        if isinstance(n, SNum):
            return SNum(z3.If(n.z < 0, z3.IntVal(0), n.z))
        return max(0, n)

    def b_round(e, x, nd=None):
        x = force(x)
        if isinstance(x, SNum):
            p = cur()
            if nd is None:
                r = p.fresh_int('round')
                p.assume(z3.And(z3.ToReal(r) - x.z <= 0.5,
                                x.z - z3.ToReal(r) <= 0.5))
                return SNum(r)
            r = p.fresh_real('round')
            eps = z3.RealVal(5) / z3.RealVal(10**(nd + 1))
            xz = x.z if not x.is_int else z3.ToReal(x.z)
            p.assume(z3.And(r - xz <= eps, xz - r <= eps))
            p.notes.append('round() modelled as any value within half an ulp')
            return SNum(r)
        return e.guard(lambda: round(x) if nd is None else round(x, nd))

    reg(round, b_round)

    def b_print(e, *a, **k):
        p = sym._Cur.path
        if p is not None:
            p.ghost.setdefault('printed', []).append(
                tuple(a) if len(a) != 1 else a[0])
        return None

    reg(print, b_print)

    def b_bin(e, x):
        x = force(x)
        if is_sym(x):
            raise Unsupported('bin() of symbolic int')
        return e.guard(lambda: bin(x))

    reg(bin, b_bin)

    def b_type(e, x, *rest):
        if rest:
            raise Unsupported('type() with 3 arguments')
        x = force(x)
        if isinstance(x, ObjVal):
            return x.cls
        if isinstance(x, SStr):
            return str
        if isinstance(x, SNum):
            return int if x.is_int else float
        if isinstance(x, SBool):
            return bool
        return type(x)

    reg(type, b_type)

    def b_callable(e, x):
        return isinstance(x, (FuncVal, BoundMethod, ClassVal)) or callable(x)

    reg(callable, b_callable)

    def b_abs(e, x):
        x = force(x)
        if isinstance(x, SNum):
            return x if e.truth(x >= 0) else -x
        return e.guard(lambda: abs(x))

    reg(abs, b_abs)

    def b_open(e, *a, **k):
        raise Unsupported('open() without a file-system model')

    reg(open, b_open)

    # -- re / math ---------------------------------------------------------------
    reg(re.match, lambda e, pat, s, *a: e.guard(
        lambda: sym.re_match(pat, force(s))))

    def m_ceil(e, x):
        x = force(x)
        if isinstance(x, SNum):
            if x.is_int:
                return x
            p = cur()
            c = p.fresh_int('ceil')
            p.assume(z3.And(z3.ToReal(c) >= x.z, z3.ToReal(c) - 1 < x.z))
            return SNum(c)
        return e.guard(lambda: math.ceil(x))

    reg(math.ceil, m_ceil)

    # -- str methods with symbolic arguments ----------------------------------
    MH = eng.method_handlers

    def str_join(e, sep, it):
        out = ''
        first = True
        for x in e.iterate(it):
            x = force(x)
            if not isinstance(x, (str, SStr)):
                raise PyRaise(TypeError('sequence item: expected str'))
            if not first:
                out = out + sep
            out = out + x
            first = False
        return out

    MH[(str, 'join')] = str_join

    def str_startswith(e, s, p, *a):
        p = force(p)
        if isinstance(p, SStr):
            return mk_bool(z3.PrefixOf(p.z, z3.StringVal(s)))
        return e.guard(lambda: s.startswith(p, *a))

    MH[(str, 'startswith')] = str_startswith

    def str_format(e, s, *a, **k):
        if any(interp._deep_sym(x) for x in a) or any(
                interp._deep_sym(x) for x in k.values()):
            # only plain '{}' fields are supported symbolically
            parts = re.split(r'(\{\})', s)
            if k or any('{' in p and p != '{}' for p in parts):
                raise Unsupported('str.format with symbolic arguments')
            out = ''
            args = list(a)
            for p in parts:
                if p == '{}':
                    out = out + e.to_str(args.pop(0))
                else:
                    out = out + p
            return out
        return e.guard(lambda: s.format(*a, **k))

    MH[(str, 'format')] = str_format

    # -- dict methods routed through dict_find ----------------------------------
    def d_get(e, d, k, default=None):
        kk = e.dict_find(d, k)
        if kk is _MISSING:
            return default
        return d[kk]

    def d_pop(e, d, k, *default):
        kk = e.dict_find(d, k)
        if kk is _MISSING:
            if default:
                return default[0]
            raise PyRaise(KeyError(repr(k)))
        v = d[kk]
        del d[kk]
        return v

    def d_setdefault(e, d, k, default=None):
        kk = e.dict_find(d, k)
        if kk is _MISSING:
            if not e.plain_hashable(force(k)):
                raise Unsupported('setdefault with symbolic key on dict')
            d[k] = default
            return default
        return d[kk]

    def d_update(e, d, other=(), **kw):
        if isinstance(other, (dict, SymDict)):
            items = e.dict_items(other)
        else:
            items = [tuple(e.iterate(x)) for x in e.iterate(other)]
        for k, v in items:
            if not e.plain_hashable(force(k)):
                raise Unsupported('dict.update introducing a symbolic key')
            d[k] = v
        d.update(kw)

    MH[(dict, 'get')] = d_get
    MH[(dict, 'pop')] = d_pop
    MH[(dict, 'setdefault')] = d_setdefault
    MH[(dict, 'update')] = d_update

    def set_add(e, s, x):
        if not e.plain_hashable(force(x)):
            raise Unsupported('set.add of symbolic value (use SymSet)')
        s.add(x)

    MH[(set, 'add')] = set_add

    def list_extend(e, lst, it):
        lst.extend(e.iterate(it))

    MH[(list, 'extend')] = list_extend

    def list_index(e, lst, x, *a):
        for i, y in enumerate(lst):
            if y is x or e.truth(e.eq(y, x)):
                return i
        raise PyRaise(ValueError('x not in list'))

    MH[(list, 'index')] = list_index

    def deque_extend(e, dq, it):
        dq.extend(e.iterate(it))

    MH[(collections.deque, 'extend')] = deque_extend

    # SymDict / SymSet behave like dict / set in the interpreted code
    def symdict_attr(e, d, name):
        m = {
            'get': lambda k, default=None: _sd_get(e, d, k, default),
            'pop': lambda k, *df: _sd_pop(e, d, k, *df),
            'items': lambda: d.items(),
            'keys': lambda: [k for k, _ in d.items()],
            'values': lambda: [v for _, v in d.items()],
            'copy': lambda: SymDict(d.items()),
            'update': lambda o=(): [d.set(e, k, v)
                                    for k, v in e.dict_items(o)] and None,
            'setdefault': lambda k, df=None: _sd_setdefault(e, d, k, df),
        }.get(name)
        if m is None:
            raise PyRaise(AttributeError(name))
        m._pyvc_symbolic_ok = True
        return m

    def _sd_get(e, d, k, default):
        kk = d.find(e, force(k))
        return default if kk is _MISSING else d.get_stored(kk)

    def _sd_pop(e, d, k, *df):
        kk = d.find(e, force(k))
        if kk is _MISSING:
            if df:
                return df[0]
            raise PyRaise(KeyError(repr(k)))
        v = d.get_stored(kk)
        d.remove_stored(kk)
        return v

    def _sd_setdefault(e, d, k, df):
        kk = d.find(e, force(k))
        if kk is _MISSING:
            d._append(force(k), df)
            return df
        return d.get_stored(kk)

    eng.getattr_handlers[SymDict] = symdict_attr

    def symset_attr(e, s, name):
        if name == 'add':
            f = lambda x: s.add(e, x)  # noqa: E731
        elif name == 'update':
            f = lambda it: [s.add(e, x) for x in e.iterate(it)] and None  # noqa
        else:
            raise PyRaise(AttributeError(name))
        f._pyvc_symbolic_ok = True
        return f

    eng.getattr_handlers[SymSet] = symset_attr
    eng.contains_handlers[SymSet] = lambda e, s, x: s.has(e, x)
    eng.SRange = SRange
