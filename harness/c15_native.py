"""Bounded stand-in for C15: every proposal of every mutator on every node of
a corpus of well-sorted inputs (and of their partially reduced forms) must

* refer only to nodes of that input (identity keys are ids of the input),
* apply without error,
* render and re-parse -- by ddSMT and by the reference reader -- to exactly
  the tree ddSMT keeps in memory (every leaf a single token),
* declare only symbols that are not declared yet, placed before first use.

usage: c15_native.py <rounds of partial reduction>
"""
import itertools
import sys

ARGS = sys.argv[1:]
from harness import replaylib as R  # noqa: E402
from harness.bounded import Recorder  # noqa: E402
from harness import refreader as ref  # noqa: E402

R.init_ddsmt()
from ddsmt import (smtlib, nodes, nodeio, mutators, mutator_utils,  # noqa
                   options)

CORPUS = {
    'core': '''(set-logic QF_UFLIA)
(declare-const a Bool)(declare-const b Bool)(declare-const c Bool)
(declare-fun f (Int) Int)
(assert (and a b c a b c a b (or a b) (=> a b c) (xor a true b) (= a false)))
(assert (! (not (not (= (f 1) (f 2)))) :named n1))
(assert (distinct (f 0) 1 2))
(check-sat-assuming (a b))
(check-sat)
''',
    'arith': '''(set-logic QF_NIRA)
(declare-const x Int)(declare-const y Int)(declare-const r Real)
(assert (not (< x (+ y 10 20))))
(assert (<= 0 x 15 (* 2 y)))
(assert (> r (/ 3 4)))
(assert (= r 12.75))
''',
    'bv': '''(set-logic QF_BV)
(declare-const v (_ BitVec 8))(declare-const w (_ BitVec 8))
(declare-fun u () (_ BitVec 4))
(assert (= ((_ extract 5 2) ((_ zero_extend 4) v)) #xa))
(assert (= (concat #b0000 u) (bvnot (bvnot w))))
(assert (= #b1 (bvcomp v w)))
(assert (= (ite (= v w) #b1 #b0) (_ bv1 1)))
(assert (bvult ((_ zero_extend 2) v) ((_ zero_extend 2) w)))
(assert (= ((_ sign_extend 1) ((_ sign_extend 2) u)) (bvnand v v) ))
(assert (= (_ bv200 8) (bvor v w)))
''',
    'bv-reduced': '''(declare-const __w (_ BitVec 2))
(define-fun _w () (_ BitVec 4) ((_ zero_extend 2) __w))
(define-fun w () (_ BitVec 8) ((_ zero_extend 4) _w))
(declare-const _v (_ BitVec 3))
(declare-const v (_ BitVec 8))
(assert (= w v))
''',
    'quant-let': '''(declare-const p Bool)
(define-fun g ((a Int) (b Int)) Int (+ a (* b 2)))
(define-fun k () Int 7)
(assert (not (forall ((q Bool) (z Int)) (or q (> z 0)))))
(assert (let ((t (g 1 k)) (s (g k 2))) (> (+ t s) (g t s))))
(assert (exists ((|quoted sym| Int)) (= |quoted sym| k)))
(define-funs-rec ((ev ((n Int)) Bool) (od ((n Int)) Bool))
  ((ite (= n 0) true (od (- n 1))) (ite (= n 0) false (ev (- n 1)))))
''',
    'datatypes': '''(declare-datatype Pair ((mk (fst Int) (snd Bool)) (nil)))
(declare-datatypes ((L 0) (T 0)) (((cons (hd Int) (tl L)) (e)) ((leaf) (br (l T)))))
(declare-const d Pair)
(assert (= (fst (mk 1 true)) 1))
(assert (= d nil))
''',
    'fp': '''(declare-const h (_ FloatingPoint 5 11))
(declare-const s (_ FloatingPoint 8 24))
(declare-const m RoundingMode)
(assert (fp.lt h (fp.add m h h)))
''',
    'strings': '''(declare-const s String)(declare-const t String)
(assert (str.contains s "ab""cd ef"))
(assert (str.contains (str.++ s t) t))
(assert (= (str.replace_all s "a" "b") t))
(assert (> (str.indexof s "x\\u{41}yz;(" 0) 1))
(assert (= (seq.nth (seq.unit 1) 0) 1))
(assert (= s "12345678901234567890"))
(assert (= t "a""b"))
(assert (distinct s """x" "x""" "a""""b"))
''',
    # a partially reduced form: ReplaceByChild lifted a wide term to the top
    'wide-top': '''(declare-const a Bool)
(and a a a a a a a a a a)
(check-sat)
''',
    'quoted': '''(declare-const |_q v| (_ BitVec 2))
(declare-const |q v| (_ BitVec 8))
(declare-const |s t| String)
(declare-fun |f g| () (_ BitVec 4))
(assert (str.contains |s t| "a"))
(assert (= |q v| ((_ zero_extend 4) |f g|)))
(assert (exists ((|b c| Int)) (> |b c| 0)))
''',
    # incremental benchmark: set-info lines in the middle of the file
    'mid-set-info': '''(set-info :source |x|)
(set-logic QF_BV)
(declare-const v (_ BitVec 8))
(declare-const s String)
(define-fun y () (_ BitVec 8) (bvadd v v))
(assert (= y v))
(assert (str.contains s "k"))
(set-info :status sat)
(check-sat)
(assert (= v (_ bv1 8)))
(set-info :status unsat)
(check-sat)
''',
    # logic names that consist of exactly one replaceable fragment
    'logic-lia': '''(set-logic LIA)
(declare-const x Int)
(assert (forall ((y Int)) (> (+ x y) y)))
(check-sat)
''',
    'logic-bv': '''(set-logic BV)
(declare-const x (_ BitVec 4))
(assert (forall ((y (_ BitVec 4))) (= (bvand x y) y)))
''',
    'logic-uf': '''(set-logic UF)
(declare-sort U 0)
(declare-fun f (U) U)
(assert (forall ((y U)) (= (f y) y)))
''',
    # comments inside commands (legal SMT-LIB; kept as leaves by the parser)
    'comments-inside': '''(set-logic QF_LIA)
(declare-datatypes ((Lst 0)) (((nil) ; the empty list
 (cons (hd Int) (tl Lst)))))
(declare-const ; the variable
 x Int)
(declare-fun f (Int ; argument
 ) Int)
(assert (> (f x) ; compare
 0))
(check-sat)
''',
    # names a mutator would derive are taken by functions WITH arguments
    # (and by a defined function): declared all the same
    'names-fun': '''(declare-fun _v ((_ BitVec 4)) Bool)
(declare-fun __w (Int) (_ BitVec 2))
(declare-const v (_ BitVec 8))
(declare-const w (_ BitVec 8))
(declare-fun s_prefix (Int) String)
(define-fun s_suffix ((i Int)) String "z")
(declare-const s String)
(assert (str.contains s "q"))
(assert (_v ((_ extract 3 0) v)))
(assert (= w (concat (__w 1) ((_ extract 5 0) w))))
(assert (= (s_prefix 1) (s_suffix 2)))
''',
    # ... by a recursive definition, by a constructor and by a selector
    'names-rec': '''(define-fun-rec _v ((x (_ BitVec 4))) (_ BitVec 4) (_v x))
(declare-datatype T ((__w (s_prefix Int)) (nil)))
(declare-const v (_ BitVec 8))
(declare-const w (_ BitVec 8))
(declare-const s String)
(assert (str.contains s "q"))
(assert (= ((_ extract 3 0) v) (_v #x1)))
(assert (= w (concat #b00 ((_ extract 5 0) w))))
(assert (= (s_prefix (__w 1)) 1))
''',
    'names': '''(declare-const x1__fresh Int)
(declare-const __v (_ BitVec 2))
(declare-const _v (_ BitVec 4))
(declare-const v (_ BitVec 8))
(declare-const s_prefix String)
(declare-const s String)
(assert (str.contains s "q"))
(assert (= v ((_ zero_extend 4) _v)))
(assert (> (+ x1__fresh 1) 0))
''',
}


def plain(n):
    if isinstance(n, (list, tuple)) and not hasattr(n, 'is_leaf'):
        return [plain(x) for x in n]
    return n.data if n.is_leaf() else [plain(c) for c in n.data]


def all_nodes(exprs):
    out = []
    stack = list(reversed(exprs))
    while stack:
        n = stack.pop()
        out.append(n)
        if not n.is_leaf():
            stack.extend(reversed(n.data))
    return out


def declared_names(exprs):
    """Every symbol a command of the input introduces (the commands of
    SMT-LIB 2.6 that do, not the ones ddSMT happens to look at)."""
    names = set()

    def datatype(decl):
        # ((ctor (sel sort) ...) ...), possibly (par (..) (...))
        if decl.is_leaf():
            return
        if len(decl) == 3 and decl[0].is_leaf() and decl[0].data == 'par':
            decl = decl[2]
        for ctor in decl:
            if ctor.is_leaf():
                names.add(ctor.data)
                continue
            if len(ctor) and ctor[0].is_leaf():
                names.add(ctor[0].data)
            for sel in ctor[1:]:
                if not sel.is_leaf() and len(sel) and sel[0].is_leaf():
                    names.add(sel[0].data)

    for cmd in exprs:
        if cmd.is_leaf() or len(cmd) < 2 or not cmd[0].is_leaf():
            continue
        c = cmd[0].data
        if c in ('declare-const', 'declare-fun', 'define-fun',
                 'define-fun-rec', 'declare-sort', 'define-sort',
                 'declare-datatype') and cmd[1].is_leaf():
            names.add(cmd[1].data)
        if c == 'define-funs-rec' and not cmd[1].is_leaf():
            for sig in cmd[1]:
                if not sig.is_leaf() and len(sig) and sig[0].is_leaf():
                    names.add(sig[0].data)
        if c == 'declare-datatype' and len(cmd) > 2:
            datatype(cmd[2])
        if c == 'declare-datatypes' and len(cmd) > 2 and \
                not cmd[1].is_leaf() and not cmd[2].is_leaf():
            for srt in cmd[1]:
                if not srt.is_leaf() and len(srt) and srt[0].is_leaf():
                    names.add(srt[0].data)
            for decl in cmd[2]:
                datatype(decl)
    return names


def norm(t):
    if isinstance(t, str):
        return ref.norm_comment(t)
    return [norm(c) for c in t]


def all_mutators():
    out = []
    for th, (mod, mapping) in mutators.get_all_mutators().items():
        for cname in mapping:
            out.append((cname, getattr(mod, cname)()))
    return out


def proposals(m, node, exprs):
    res = []
    if hasattr(m, 'filter') and not m.filter(node):
        return res
    if hasattr(m, 'mutations'):
        res.extend(('mutations', s) for s in m.mutations(node))
    if hasattr(m, 'global_mutations'):
        res.extend(('global', s) for s in m.global_mutations(node, exprs))
    return res


def check_input(rec, iname, exprs, muts, accepted_out):
    smtlib.collect_information(exprs)
    nodes_ = all_nodes(exprs)
    ids = {n.id for n in nodes_}
    decl = declared_names(exprs)
    base_plain = plain(exprs)
    for node in nodes_:
        for cname, m in muts:
            try:
                props = proposals(m, node, exprs)
            except Exception:  # noqa  a failing mutator only loses its
                continue  # candidates (C04)
            for kind, simp in props[:12]:
                case = {'input': iname, 'mutator': cname, 'kind': kind,
                        'node': nodeio.write_smtlib_to_str([node])[:80]}
                rec.case((iname, cname, kind, node.id, repr(
                    [k if isinstance(k, int) else 'S' for k in simp.substs])))
                bad_keys = [k for k in simp.substs
                            if isinstance(k, int) and k not in ids]
                if bad_keys:
                    rec.violation(f'C15/native/{cname}/ids-in-input', case,
                                  f'keys {bad_keys} are not ids of the input')
                    continue
                subst_copy = dict(simp.substs)
                try:
                    new = mutator_utils.apply_simp(
                        exprs, mutator_utils.Simplification(
                            subst_copy, simp.fresh_vars))
                except Exception as e:  # noqa
                    rec.violation(f'C15/native/{cname}/applies', case,
                                  f'apply_simp: {type(e).__name__}: {e}')
                    continue
                if plain(exprs) != base_plain:
                    rec.violation(f'C15/native/{cname}/input-not-modified',
                                  case, 'base changed by apply_simp')
                    return
                try:
                    text = nodeio.write_smtlib_to_str(new)
                    mem = norm(plain(new))
                except Exception as e:  # noqa
                    rec.violation(f'C15/native/{cname}/renders', case,
                                  f'{type(e).__name__}: {e}')
                    continue
                back, ok = ref.read(text)
                if not ok or back != mem:
                    rec.violation(
                        f'C15/native/{cname}/leaves-are-single-tokens',
                        {**case, 'rendering': text[:160]},
                        'file re-reads as a different tree (reference '
                        'reader)')
                    continue
                back2 = norm(plain(list(nodeio.parse_smtlib(text))))
                if back2 != mem:
                    rec.violation(f'C15/native/{cname}/reparse',
                                  {**case, 'rendering': text[:160]},
                                  'ddSMT re-parses its own file differently')
                    continue
                # fresh declarations
                for fv in simp.fresh_vars:
                    nm_ = fv[1].data if (not fv.is_leaf() and len(fv) > 1
                                         and fv[1].is_leaf()) else None
                    if nm_ is None:
                        rec.violation(f'C15/native/{cname}/fresh-decl-form',
                                      case, 'declaration without a name')
                        continue
                    if nm_ in decl:
                        rec.violation(
                            f'C15/native/{cname}/fresh-name-is-fresh', case,
                            f'{nm_} is already declared in the input')
                    pl = plain(new)
                    pos_decl = [i for i, c in enumerate(pl)
                                if isinstance(c, list) and len(c) > 1 and
                                c[0] in ('declare-const', 'declare-fun') and
                                c[1] == nm_]
                    first_use = [i for i, c in enumerate(pl)
                                 if i not in pos_decl and
                                 nm_ in ref.flat([c])]
                    if pos_decl and first_use and \
                            min(first_use) < min(pos_decl):
                        rec.violation(
                            f'C15/native/{cname}/declared-before-use', case,
                            f'{nm_} used in command {min(first_use)} but '
                            f'declared in command {min(pos_decl)}')
                if accepted_out is not None and len(accepted_out) < 40 and \
                        isinstance(new, list):
                    accepted_out.append((f'{iname}>{cname}', new))


def main():
    rounds = int(ARGS[0])
    rec = Recorder('C15/native/proposals',
                   f'{len(CORPUS)} inputs over all theories; every node x '
                   'every mutator x up to 12 proposals; plus '
                   f'{rounds} round(s) of partially reduced forms (up to 40 '
                   'results of the previous round as new inputs)')
    muts = all_mutators()
    level = [(n, list(nodeio.parse_smtlib(t))) for n, t in CORPUS.items()]
    for r in range(rounds + 1):
        nxt = []
        for iname, exprs in level:
            exprs = nodes.reduplicate(exprs)
            check_input(rec, iname, exprs, muts,
                        nxt if r < rounds else None)
        # spread over mutators: keep at most 3 per mutator
        seen = {}
        level = []
        for name, ex in nxt:
            k = name.split('>')[-1]
            if seen.get(k, 0) < 3:
                seen[k] = seen.get(k, 0) + 1
                level.append((name, ex))
    rec.finish(exhaustive=False)


if __name__ == '__main__':
    main()
