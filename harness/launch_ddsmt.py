"""Launcher: runs ddsmt's main() from $PYVC_REPO with
nodeio.write_smtlib_to_file wrapped so that the digest of every content
written to the output file is appended to $DDSMT_WRITES (observation only;
no change of behaviour).  usage: launch_ddsmt.py <ddsmt arguments>"""
import hashlib
import multiprocessing
import os
import sys

REPO = os.environ.get('PYVC_REPO', '/repo')
sys.path.insert(0, REPO)

if __name__ == '__main__':
    multiprocessing.set_start_method('fork')
    from ddsmt import nodeio, __main__
    real = nodeio.write_smtlib_to_file
    log = os.environ.get('DDSMT_WRITES')

    def wrapped(filename, exprs):
        real(filename, exprs)
        if log:
            with open(filename, 'rb') as f:
                h = hashlib.sha256(f.read()).hexdigest()[:16]
            with open(log, 'a') as f:
                f.write(h + '\n')

    nodeio.write_smtlib_to_file = wrapped
    sys.exit(__main__.main())
