"""Typing table for C16 (the specification), written from the SMT-LIB theory
definitions: Core, Ints, Reals, FixedSizeBitVectors, FloatingPoint, Strings,
ArraysEx.  Each entry builds a schematic term through a context object and
returns (term, result sort).  Two contexts exist: the symbolic one of
contracts/c16.py (operands are opaque lazy nodes, widths/indices symbolic
integers) and the concrete one of harness/c16_native.py (typed term
generator).  Sorts are tuples: ('Bool',), ('BV', w), ('FP', eb, sb),
('Array', i, e), ('alpha', x) ...
"""


def width_of(sort):
    return sort[1] if sort[0] == 'BV' else None


# ---------------------------------------------------------------------------
# the typing table: name -> builder(ctx) -> (term, result sort)


def nary(op, argsort, ressort, arities=(2, 3)):
    out = {}
    for n in arities:

        def build(c, n=n):
            s = argsort(c)
            args = [c.operand(s) for _ in range(n)]
            return c.node(op, *args), ressort(c, s)

        out[f'{op}/{n}'] = build
    return out


def table():  # noqa: C901
    T = {}
    B = lambda c: c.Bool()  # noqa: E731
    INT = lambda c: c.Int()  # noqa: E731
    REAL = lambda c: c.Real()  # noqa: E731
    STR = lambda c: c.String()  # noqa: E731
    RE = lambda c: c.RegLan()  # noqa: E731
    BVw = lambda c: c.BV(c.fresh_pos('w'))  # noqa: E731
    FPs = lambda c: c.FP(c.fresh_pos('eb', 2), c.fresh_pos('sb', 2))  # noqa
    same = lambda c, s: s  # noqa: E731
    toB = lambda c, s: c.Bool()  # noqa: E731

    # -- Core
    T.update(nary('not', B, toB, (1, )))
    for op in ('=>', 'and', 'or', 'xor'):
        T.update(nary(op, B, toB))
    for op in ('=', 'distinct'):
        T.update(nary(op, lambda c: c.Alpha('s'), toB))
        T.update(nary(op, BVw, toB, (2, )))

    def ite(c, sortf):
        s = sortf(c)
        return c.node('ite', c.operand(c.Bool()), c.operand(s),
                      c.operand(s)), s

    T['ite/alpha'] = lambda c: ite(c, lambda c: c.Alpha('s'))
    T['ite/bv'] = lambda c: ite(c, BVw)
    T['ite/int'] = lambda c: ite(c, INT)
    # -- Ints / Reals
    for op in ('+', '-', '*'):
        T.update({k + '[Int]': v for k, v in nary(op, INT, same).items()})
        T.update({k + '[Real]': v for k, v in nary(op, REAL, same).items()})
    T.update({k + '[Int]': v for k, v in nary('-', INT, same, (1, )).items()})
    T.update({k + '[Real]': v for k, v in nary('-', REAL, same,
                                               (1, )).items()})
    T.update(nary('div', INT, same))
    T.update(nary('mod', INT, same, (2, )))
    T.update(nary('abs', INT, same, (1, )))
    T.update(nary('/', REAL, same))
    for op in ('<=', '<', '>=', '>'):
        T.update({k + '[Int]': v for k, v in nary(op, INT, toB).items()})
        T.update({k + '[Real]': v for k, v in nary(op, REAL, toB).items()})
    T.update(nary('to_real', INT, lambda c, s: c.Real(), (1, )))
    T.update(nary('to_int', REAL, lambda c, s: c.Int(), (1, )))
    T.update(nary('is_int', REAL, toB, (1, )))

    def divisible(c):
        n = c.fresh_pos('n')
        return c.node(c.node('_', 'divisible', c.numeral(n)),
                      c.operand(c.Int())), c.Bool()

    T['divisible'] = divisible
    # -- bit-vectors
    for op in ('bvnot', 'bvneg'):
        T.update(nary(op, BVw, same, (1, )))
    for op in ('bvand', 'bvor', 'bvadd', 'bvmul'):
        T.update(nary(op, BVw, same, (2, 3)))
    for op in ('bvudiv', 'bvurem', 'bvshl', 'bvlshr', 'bvnand', 'bvnor',
               'bvxor', 'bvxnor', 'bvsub', 'bvsdiv', 'bvsrem', 'bvsmod',
               'bvashr'):
        T.update(nary(op, BVw, same, (2, )))
    for op in ('bvult', 'bvule', 'bvugt', 'bvuge', 'bvslt', 'bvsle', 'bvsgt',
               'bvsge'):
        T.update(nary(op, BVw, toB, (2, )))
    T.update(nary('bvcomp', BVw, lambda c, s: c.BV(1), (2, )))

    def concat(c, n=2):
        ws = [c.fresh_pos(f'w{i}') for i in range(n)]
        args = [c.operand(c.BV(w)) for w in ws]
        total = ws[0]
        for w in ws[1:]:
            total = total + w
        return c.node('concat', *args), c.BV(total)

    T['concat/2'] = concat
    T['concat/3'] = lambda c: concat(c, 3)

    def extract(c):
        m = c.fresh_pos('m')
        i = c.fresh_pos('i', 0)
        j = c.fresh_pos('j', 0)
        c.require(j <= i, i < m)
        return c.node(c.node('_', 'extract', c.numeral(i), c.numeral(j)),
                      c.operand(c.BV(m))), c.BV(i - j + 1)

    T['extract'] = extract

    def extend(op):

        def build(c):
            m = c.fresh_pos('m')
            i = c.fresh_pos('i', 0)
            return c.node(c.node('_', op, c.numeral(i)),
                          c.operand(c.BV(m))), c.BV(m + i)

        return build

    T['zero_extend'] = extend('zero_extend')
    T['sign_extend'] = extend('sign_extend')

    def repeat(c):
        m = c.fresh_pos('m')
        i = c.fresh_pos('i')
        w = c.product(i, m)
        return c.node(c.node('_', 'repeat', c.numeral(i)),
                      c.operand(c.BV(m))), c.BV(w)

    T['repeat'] = repeat

    def rotate(op):

        def build(c):
            m = c.fresh_pos('m')
            i = c.fresh_pos('i', 0)
            return c.node(c.node('_', op, c.numeral(i)),
                          c.operand(c.BV(m))), c.BV(m)

        return build

    T['rotate_left'] = rotate('rotate_left')
    T['rotate_right'] = rotate('rotate_right')
    # -- arrays

    def select(c):
        i, e = c.Alpha('isort'), c.Alpha('esort')
        return c.node('select', c.operand(c.Array(i, e)), c.operand(i)), e

    def select_bv(c):
        i, e = c.BV(c.fresh_pos('iw')), c.BV(c.fresh_pos('ew'))
        return c.node('select', c.operand(c.Array(i, e)), c.operand(i)), e

    def store(c):
        i, e = c.Alpha('isort'), c.Alpha('esort')
        a = c.Array(i, e)
        return c.node('store', c.operand(a), c.operand(i), c.operand(e)), a

    T['select'] = select
    T['select[bv]'] = select_bv
    T['store'] = store
    # -- floating point

    def fp(c):
        eb, sb = c.fresh_pos('eb', 2), c.fresh_pos('sb', 2)
        return c.node('fp', c.operand(c.BV(1)), c.operand(c.BV(eb)),
                      c.operand(c.BV(sb - 1))), c.FP(eb, sb)

    T['fp'] = fp
    for op in ('fp.abs', 'fp.neg'):
        T.update(nary(op, FPs, same, (1, )))
    for op in ('fp.rem', 'fp.min', 'fp.max'):
        T.update(nary(op, FPs, same, (2, )))

    def rm_op(op, n):

        def build(c):
            s = FPs(c)
            return c.node(op, c.operand(c.RM()),
                          *[c.operand(s) for _ in range(n)]), s

        return build

    for op, n in (('fp.add', 2), ('fp.sub', 2), ('fp.mul', 2),
                  ('fp.div', 2), ('fp.fma', 3), ('fp.sqrt', 1),
                  ('fp.roundToIntegral', 1)):
        T[op] = rm_op(op, n)
    for op in ('fp.leq', 'fp.lt', 'fp.geq', 'fp.gt', 'fp.eq'):
        T.update(nary(op, FPs, toB, (2, )))
    for op in ('fp.isNormal', 'fp.isSubnormal', 'fp.isZero', 'fp.isInfinite',
               'fp.isNaN', 'fp.isNegative', 'fp.isPositive'):
        T.update(nary(op, FPs, toB, (1, )))
    T.update(nary('fp.to_real', FPs, lambda c, s: c.Real(), (1, )))

    def to_fp(op, src):

        def build(c):
            eb, sb = c.fresh_pos('eb', 2), c.fresh_pos('sb', 2)
            head = c.node('_', op, c.numeral(eb), c.numeral(sb))
            if src == 'bv':
                w = c.fresh_pos('w')
                return c.node(head, c.operand(c.BV(w))), c.FP(eb, sb)
            if src == 'rm-bv':
                return c.node(head, c.operand(c.RM()),
                              c.operand(c.BV(c.fresh_pos('w')))), c.FP(eb, sb)
            if src == 'rm-real':
                return c.node(head, c.operand(c.RM()),
                              c.operand(c.Real())), c.FP(eb, sb)
            return c.node(head, c.operand(c.RM()), c.operand(FPs(c))), \
                c.FP(eb, sb)

        return build

    T['to_fp[bv]'] = to_fp('to_fp', 'bv')
    T['to_fp[rm,real]'] = to_fp('to_fp', 'rm-real')
    T['to_fp[rm,fp]'] = to_fp('to_fp', 'rm-fp')
    T['to_fp[rm,sbv]'] = to_fp('to_fp', 'rm-bv')
    T['to_fp_unsigned'] = to_fp('to_fp_unsigned', 'rm-bv')

    def to_bv(op):

        def build(c):
            m = c.fresh_pos('m')
            return c.node(c.node('_', op, c.numeral(m)), c.operand(c.RM()),
                          c.operand(FPs(c))), c.BV(m)

        return build

    T['fp.to_ubv'] = to_bv('fp.to_ubv')
    T['fp.to_sbv'] = to_bv('fp.to_sbv')
    # -- strings
    for op, args, res in (
        ('str.len', (STR, ), INT), ('str.<', (STR, STR), B),
        ('str.<=', (STR, STR), B), ('str.prefixof', (STR, STR), B),
        ('str.suffixof', (STR, STR), B), ('str.contains', (STR, STR), B),
        ('str.indexof', (STR, STR, INT), INT), ('str.to_code', (STR, ), INT),
        ('str.to_int', (STR, ), INT), ('str.is_digit', (STR, ), B),
        ('str.++', (STR, STR), STR), ('str.at', (STR, INT), STR),
        ('str.substr', (STR, INT, INT), STR),
        ('str.replace', (STR, STR, STR), STR),
        ('str.from_int', (INT, ), STR), ('str.from_code', (INT, ), STR),
        ('str.replace_all', (STR, STR, STR), STR),
        ('str.replace_re', (STR, RE, STR), STR),
        ('str.replace_re_all', (STR, RE, STR), STR),
        ('str.in_re', (STR, RE), B), ('str.to_re', (STR, ), RE),
        ('re.++', (RE, RE), RE), ('re.union', (RE, RE), RE),
        ('re.inter', (RE, RE), RE), ('re.*', (RE, ), RE),
        ('re.+', (RE, ), RE), ('re.opt', (RE, ), RE),
        ('re.comp', (RE, ), RE), ('re.diff', (RE, RE), RE),
        ('re.range', (STR, STR), RE),
        # SMT-LIB 2.5 spellings still found in benchmarks
        ('str.in.re', (STR, RE), B), ('str.to.int', (STR, ), INT),
        ('int.to.str', (INT, ), STR), ('str.to.re', (STR, ), RE)):

        def build(c, op=op, args=args, res=res):
            return c.node(op, *[c.operand(a(c)) for a in args]), res(c)

        T[op] = build
    return T


def leaf_table():
    """Constants and bound symbols."""
    L = {}

    def const(text, sortf):
        return lambda c: (c.leaf(text), sortf(c))

    L['true'] = const('true', lambda c: c.Bool())
    L['false'] = const('false', lambda c: c.Bool())

    def numeral(c):
        v = c.fresh_pos('n', 0)
        return c.plain_numeral(v), c.Int()

    L['numeral'] = numeral
    L['decimal'] = const('1.50', lambda c: c.Real())
    L['#b'] = const('#b0101', lambda c: c.BV(4))
    L['#x'] = const('#x0f', lambda c: c.BV(8))

    def bvlit(c):
        w = c.fresh_pos('w')
        v = c.fresh_pos('v', 0)
        return c.node('_', c.bvtext(v), c.plain_numeral(w)), c.BV(w)

    L['(_ bvN w)'] = bvlit

    # FloatingPoint: the special values (_ +oo eb sb), (_ -oo eb sb),
    # (_ NaN eb sb), (_ +zero eb sb), (_ -zero eb sb) have sort
    # (_ FloatingPoint eb sb)
    def fpspecial(name):

        def build(c):
            e = c.fresh_pos('e', 2)
            sb = c.fresh_pos('s', 2)
            return (c.node('_', c.leaf(name), c.plain_numeral(e),
                           c.plain_numeral(sb)), c.FP(e, sb))

        return build

    for name in ('+oo', '-oo', 'NaN', '+zero', '-zero'):
        L[f'(_ {name} eb sb)'] = fpspecial(name)
    # ... and the rounding-mode constants have sort RoundingMode
    for name in ('RNE', 'RNA', 'RTP', 'RTN', 'RTZ', 'roundNearestTiesToEven',
                 'roundTowardZero'):
        L[name] = const(name, lambda c: c.RM())

    def var(sortf):

        def build(c):
            s = sortf(c)
            return c.declare('x', s), s

        return build

    L['variable[bv]'] = var(lambda c: c.BV(c.fresh_pos('w')))
    L['variable[alpha]'] = var(lambda c: c.Alpha('s'))
    L['variable[int]'] = var(lambda c: c.Int())
    return L


