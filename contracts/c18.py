"""C18 -- sequential runs are reproducible.

Determinism (reads) contracts, checked mechanically on the AST of every
module on the path from the input text to the sequence of writes: values
that differ between two runs with the same input -- hash(), Node.hash, id(),
process / thread ids, clocks, random numbers, iteration order of sets -- may
only be used at the white-listed places (equality short-cuts whose result
is hash-independent by C12's contract, statistics, temporary file names,
membership tests).  The order-sensitive part of the hierarchical strategy
with one worker follows from C02/C05's invariants under the Pool(1)
contract; end-to-end repeat runs under different PYTHONHASHSEED and timing
are the bounded stand-in.
"""
import ast
import os

from pyvc.api import Contract, NativeCheck

PROPERTY = 'C18'

MODULES = ['nodes', 'smtlib', 'nodeio', 'mutator_utils', 'mutators',
           'mutators_core', 'mutators_smtlib', 'mutators_boolean',
           'mutators_arithmetic', 'mutators_bv', 'mutators_strings',
           'mutators_datatypes', 'mutators_fp', 'strategy_ddmin',
           'strategy_hierarchical', 'checker', 'cli', 'tmpfiles']

# (module, function) -> allowed nondeterministic reads
WHITELIST = {
    ('nodes', 'Node.__init__'): {'hash()'},  # cached hash of the data
    ('nodes', 'Node.__eq__'): {'.hash'},  # short-cut, result hash-free (C12)
    ('nodes', 'Node.__hash__'): {'.hash'},
    ('nodes', 'Node.__getstate__'): {'.hash'},
    ('nodes', 'Node.__setstate__'): {'.hash'},
    ('strategy_ddmin', '_worker'): {'hash()'},  # cache key only
    ('strategy_ddmin', '_apply_mutator'): {'time'},  # statistics
    ('strategy_hierarchical', 'Consumer.check'): {'time'},  # Task.runtime
    ('strategy_hierarchical', 'reduce'): {'time'},  # log message
    ('checker', 'execute'): {'time'},  # RunInfo.runtime
    ('cli', 'ddsmt_main'): {'time'},
    ('tmpfiles', 'get_tmp_filename'): {'pid', 'thread-id'},
    ('nodeio', 'write_smtlib_to_file'): {'pid'},  # temporary file name
}


def scan(tree, modname):
    """[(function, kind, lineno)] of nondeterministic reads and of
    iterations over sets."""
    found = []

    def visit(node, qual, set_names):
        for ch in ast.iter_child_nodes(node):
            q = qual
            if isinstance(ch, (ast.FunctionDef, ast.ClassDef)):
                q = (qual + '.' if qual else '') + ch.name
                visit(ch, q, set(set_names))
                continue
            check(ch, qual, set_names)
            visit(ch, qual, set_names)

    def is_set_expr(e, set_names):
        if isinstance(e, (ast.Set, ast.SetComp)):
            return True
        if isinstance(e, ast.Call) and isinstance(e.func, ast.Name) and \
                e.func.id in ('set', 'frozenset'):
            return True
        if isinstance(e, ast.Name) and e.id in set_names:
            return True
        if isinstance(e, ast.Attribute) and e.attr in set_names:
            return True
        # set algebra: a - b, a | b, ..., a.difference(b), ...
        if isinstance(e, ast.BinOp) and isinstance(
                e.op, (ast.Sub, ast.BitOr, ast.BitAnd, ast.BitXor)) and (
                    is_set_expr(e.left, set_names) or
                    is_set_expr(e.right, set_names)):
            return True
        if isinstance(e, ast.Call) and isinstance(e.func, ast.Attribute) \
                and e.func.attr in ('union', 'difference', 'intersection',
                                    'symmetric_difference', 'copy') and \
                is_set_expr(e.func.value, set_names):
            return True
        return False

    def check(n, qual, set_names):
        if isinstance(n, ast.Assign) and is_set_expr(n.value, set_names):
            for t in n.targets:
                if isinstance(t, ast.Name):
                    set_names.add(t.id)
                if isinstance(t, ast.Attribute):
                    set_names.add(t.attr)
        if isinstance(n, ast.Call):
            f = n.func
            if isinstance(f, ast.Name) and f.id == 'hash':
                found.append((qual, 'hash()', n.lineno))
            if isinstance(f, ast.Name) and f.id == 'id' and n.args:
                found.append((qual, 'id()', n.lineno))
            d = ast.unparse(f)
            if d in ('os.getpid', ):
                found.append((qual, 'pid', n.lineno))
            if d in ('threading.get_ident', ):
                found.append((qual, 'thread-id', n.lineno))
            if d.startswith('time.'):
                found.append((qual, 'time', n.lineno))
            if d.startswith('random.') or d.startswith('uuid.'):
                found.append((qual, 'random', n.lineno))
        if isinstance(n, ast.Attribute) and n.attr == 'hash' and \
                isinstance(n.ctx, ast.Load):
            found.append((qual, '.hash', n.lineno))
        iters = []
        if isinstance(n, ast.For):
            iters.append(n.iter)
        if isinstance(n, (ast.ListComp, ast.SetComp, ast.DictComp,
                          ast.GeneratorExp)):
            iters.extend(g.iter for g in n.generators)
        if isinstance(n, ast.Call) and isinstance(n.func, ast.Name) and \
                n.func.id in ('list', 'tuple', 'next', 'iter', 'enumerate',
                              'map', 'filter', 'zip') and n.args:
            iters.extend(n.args)
        # order-sensitive consumers: xs.extend(s), sep.join(s), xs += s
        if isinstance(n, ast.Call) and isinstance(n.func, ast.Attribute) and \
                n.func.attr in ('extend', 'join', 'writelines') and n.args:
            iters.extend(n.args)
        if isinstance(n, ast.AugAssign) and isinstance(n.op, ast.Add):
            iters.append(n.value)
        for it in iters:
            if is_set_expr(it, set_names):
                found.append((qual, 'set-iteration', n.lineno))

    # module-level names bound to sets
    mod_sets = set()
    for st in tree.body:
        if isinstance(st, ast.Assign) and is_set_expr(st.value, set()):
            for t in st.targets:
                if isinstance(t, ast.Name):
                    mod_sets.add(t.id)
    visit(tree, '', mod_sets)
    return found


def id_in_text_sites(tree):
    """[(function, lineno)]: a node id (``<expr>.id``) is formatted into the
    text of a Node that is being constructed - f-string, str(), format(), %
    inside the arguments of ``Node(...)``.  Ids are drawn from one counter
    shared by the main process (the feeder thread generates candidates ahead)
    and the worker: their values depend on timing even with one job.  As
    keys of a substitution they never reach the file; as text they do."""
    sites = []

    def formatted_ids(e):
        out = []
        for n in ast.walk(e):
            inner = []
            if isinstance(n, ast.JoinedStr):
                inner = [v.value for v in n.values
                         if isinstance(v, ast.FormattedValue)]
            elif isinstance(n, ast.Call) and (
                    (isinstance(n.func, ast.Name) and n.func.id in
                     ('str', 'repr', 'format')) or
                    (isinstance(n.func, ast.Attribute) and
                     n.func.attr == 'format')):
                inner = list(n.args) + [k.value for k in n.keywords]
            elif isinstance(n, ast.BinOp) and isinstance(n.op, ast.Mod):
                inner = [n.right]
            for x in inner:
                out.extend(a for a in ast.walk(x)
                           if isinstance(a, ast.Attribute) and a.attr == 'id'
                           and isinstance(a.ctx, ast.Load))
        return out

    def visit(node, qual):
        for ch in ast.iter_child_nodes(node):
            q = qual
            if isinstance(ch, (ast.FunctionDef, ast.ClassDef)):
                q = (qual + '.' if qual else '') + ch.name
            if isinstance(ch, ast.Call) and isinstance(ch.func, ast.Name) \
                    and ch.func.id == 'Node':
                for a in list(ch.args) + [k.value for k in ch.keywords]:
                    if formatted_ids(a):
                        sites.append((q, ch.lineno))
                        break
            visit(ch, q)

    visit(tree, '')
    return sites


def run_static(eng, p):
    bad = []
    seen = 0
    id_sites = []
    for m in MODULES:
        path = os.path.join(eng.repo, 'ddsmt', m + '.py')
        for qual, line in id_in_text_sites(ast.parse(open(path).read())):
            id_sites.append((m, qual, line))
    # one obligation per site, so that a known site never hides another
    for m, qual, line in id_sites:
        p.oblige(f'C18/static/no-node-id-in-leaf-text[{m}.{qual}]', False,
                 info={'site': f'{m}.py:{line}', 'signature':
                       f'{m}.{qual} formats a node id into the text of a '
                       'Node: the id depends on timing, the text is written '
                       'to the file'})
    p.oblige('C18/static/node-id-scan-ran', True)
    for m in MODULES:
        path = os.path.join(eng.repo, 'ddsmt', m + '.py')
        tree = ast.parse(open(path).read())
        for qual, kind, line in scan(tree, m):
            seen += 1
            if kind in WHITELIST.get((m, qual), set()):
                continue
            bad.append(f'{m}.py:{line} {qual or "<module>"}: {kind}')
    p.oblige('C18/static/no-run-dependent-value-on-the-candidate-path',
             not bad, info={'reads': bad, 'signature':
                            'a hash / id / clock / set-order dependent value '
                            'is read outside the white-listed places'})
    p.oblige('C18/static/scan-is-not-vacuous', seen >= 10)
    # sorted(set(...)) is fine, set membership is fine: only iteration counts


def contracts(tier):
    from . import strategies
    return [c for c in strategies.hier_contracts(tier)
            if c.name == 'hier.reduce[-j 1]'] + [
        Contract('C18/static', [f'ddsmt.{m}' for m in ('nodes', 'smtlib')],
                 run_static,
                 assumptions=[
                     'dict iteration follows insertion order (language '
                     'guarantee); with one worker results arrive in '
                     'submission order (Pool(1) contract); Node.__eq__ is '
                     'hash-independent (C12 contract); the scan is syntactic: '
                     'a set reaching an iteration through a call boundary '
                     'is not tracked'
                 ]),
    ]


def native_checks(tier):
    n = 6 if tier == 'thorough' else 3
    return [
        NativeCheck('C18/native/repeat-runs',
                    ['ddsmt.__main__.main', 'ddsmt.strategy_ddmin.reduce',
                     'ddsmt.strategy_hierarchical.reduce'],
                    'harness/c18_native.py', [n],
                    bound=f'3 inputs x 3 strategies x {n} hash seeds, with '
                    'and without timing perturbation', timeout=3000),
    ]
