"""Symbolic input text of unbounded length (for the scanner contract, C08/C04).

* ``SText``: the text as a z3 array of character codes with a symbolic
  length; indexing checks the bounds (IndexError otherwise) and yields an
  ``SChar``.
* ``SChar``: one character ``T[i]``; comparison with one-character strings
  is a comparison of codes.
* ``CharList``: what the scanner accumulates (``[char]`` + ``append``): a
  list of characters kept as *spans* ``T[lo:hi]`` as long as consecutive
  characters are appended; ``''.join(...)`` gives a ``SpanStr`` -- an opaque
  symbolic string that remembers which spans of the text it consists of.
* ``AbsStack`` / ``AbsNodeList`` / ``AbsTuple``: the stack of open lists with
  an unknown number of untouched entries below the ones an iteration looks
  at, lists of unknown length that only grow, and ``Node(*list)``.

Assumed (Python semantics): list append/pop/[-1] and ``f(*xs)`` depend on
nothing but the list contents; ``tuple(map(f, xs))`` is ``tuple(xs)`` when
``f`` returns its argument for an arbitrary element of ``xs``.
"""
import z3

from pyvc import sym
from pyvc.interp import ObjVal, PyRaise, Unsupported, _hkey
from pyvc.sym import SNum, SStr, mk_bool, cur


def zint(x):
    if isinstance(x, SNum):
        return x.z
    if isinstance(x, bool):
        raise Unsupported('bool as index')
    if isinstance(x, int):
        return z3.IntVal(x)
    if z3.is_expr(x):
        return x
    raise Unsupported(f'not an integer: {x!r}')


class SText(sym.Abstract):
    """The whole input: ``arr[0..size)`` are the character codes."""

    def __init__(self, p, name='text'):
        self.arr = z3.Array(p.fresh_name(name), z3.IntSort(), z3.IntSort())
        self.size = p.fresh_int(name + '_size')
        p.assume(self.size >= 0)

    def at(self, i):
        return z3.Select(self.arr, i)

    def __repr__(self):
        return f'<SText {self.arr} size={self.size}>'


class SChar:
    """A one-character string; ``idx`` is set when it is ``text[idx]``."""
    __slots__ = ('text', 'idx', 'code')

    def __init__(self, text, idx=None, code=None):
        self.text = text
        self.idx = idx
        self.code = code if code is not None else text.at(idx)

    def __eq__(self, o):
        if isinstance(o, SChar):
            return mk_bool(self.code == o.code)
        if isinstance(o, str):
            if len(o) != 1:
                return False
            return mk_bool(self.code == ord(o))
        if isinstance(o, SStr):
            raise Unsupported('character compared with symbolic string')
        return False

    def __ne__(self, o):
        return sym.s_not(self.__eq__(o))

    __hash__ = None

    def __repr__(self):
        return f'<SChar {self.code}>'


class CharList(sym.Abstract):
    """List of characters; segments are ('span', lo, hi) or ('chr', SChar)."""

    def __init__(self, text, segs=()):
        self.text = text
        self.segs = list(segs)

    @staticmethod
    def of_list(text, xs):
        c = CharList(text)
        for x in xs:
            c.append(x)
        return c

    def append(self, ch):
        if not isinstance(ch, SChar):
            raise Unsupported(f'CharList.append({type(ch).__name__})')
        if ch.idx is not None and self.segs and self.segs[-1][0] == 'span':
            _, lo, hi = self.segs[-1]
            if _provably(hi == ch.idx):
                self.segs[-1] = ('span', lo, z3.simplify(hi + 1))
                return
        if ch.idx is not None:
            self.segs.append(('span', ch.idx, z3.simplify(ch.idx + 1)))
        else:
            self.segs.append(('chr', ch))

    def single_span(self):
        if len(self.segs) == 1 and self.segs[0][0] == 'span':
            return self.segs[0][1], self.segs[0][2]
        return None


def _provably(z):
    z = z3.simplify(z)
    if z3.is_true(z):
        return True
    if z3.is_false(z):
        return False
    p = cur()
    return not p._sat(z3.Not(z))


class SpanStr(SStr):
    """Opaque symbolic string that is the concatenation of text spans."""
    __slots__ = ('segs', 'text')

    def __init__(self, p, text, segs):
        SStr.__init__(self, [('v', p.fresh_str('tok'))])
        self.segs = list(segs)
        self.text = text

    def single_span(self):
        if len(self.segs) == 1 and self.segs[0][0] == 'span':
            return self.segs[0][1], self.segs[0][2]
        return None


class AbsNodeList(sym.Abstract):
    """A list of Nodes of unknown length that an iteration may append to."""

    def __init__(self, name):
        self.name = name
        self.appended = []
        self.base = None  # z3 Int: number of elements before this iteration

    def append(self, x):
        self.appended.append(x)

    def length(self):
        if self.base is None:
            p = cur()
            self.base = p.fresh_int('len_' + self.name)
            p.assume(self.base >= 0)
        return z3.simplify(self.base + len(self.appended))

    def __repr__(self):
        return f'<list {self.name} + {len(self.appended)}>'


class AbsTuple(sym.Abstract):
    """``tuple(xs)`` / ``*xs`` of an abstract list at a given moment."""

    def __init__(self, src, count):
        self.src = src
        self.count = count  # number of items appended to src at that moment
        self.length = None

    def __repr__(self):
        return f'<tuple of {self.src!r}>'


class AbsMapped(sym.Abstract):

    def __init__(self, tup):
        self.tup = tup


class AbsStack(sym.Abstract):
    """Stack of open lists: ``below`` untouched entries under ``top``."""

    def __init__(self, eng, p, below, top):
        self.eng = eng
        self.below = below  # z3 Int, >= 0
        self.top = list(top)
        self.fresh = 0

    def _materialise(self):
        p = cur()
        if not self.eng.truth(mk_bool(self.below > 0)):
            return None
        self.below = z3.simplify(self.below - 1)
        self.fresh += 1
        x = AbsNodeList(f'open{self.fresh}')
        self.top.insert(0, x)
        return x

    def append(self, x):
        self.top.append(x)

    def pop(self, *a):
        if a:
            raise Unsupported('stack.pop(index)')
        if not self.top and self._materialise() is None:
            raise PyRaise(IndexError('pop from empty list'))
        return self.top.pop()

    def peek(self):
        if not self.top and self._materialise() is None:
            raise PyRaise(IndexError('list index out of range'))
        return self.top[-1]

    def nonempty(self):
        if self.top:
            return True
        return mk_bool(self.below > 0)

    def __repr__(self):
        return f'<stack {self.below} + {self.top!r}>'


def generic_node(eng, name):
    """An arbitrary Node (element of an abstract list)."""
    from . import nodemodel as nm
    o = nm.lazy_node(eng, cur(), name)
    o.tag['generic'] = True
    return o


def install(eng):
    """Register the handlers for the types above."""

    def text_getitem(e, t, key):
        if isinstance(key, slice):
            raise Unsupported('slice of the symbolic text')
        if isinstance(key, bool) or not isinstance(key, (int, SNum)):
            raise PyRaise(TypeError('string indices must be integers'))
        k = zint(key)
        if e.truth(mk_bool(z3.And(k >= 0, k < t.size))):
            return SChar(t, z3.simplify(k))
        if e.truth(mk_bool(z3.And(k < 0, k >= -t.size))):
            return SChar(t, z3.simplify(k + t.size))
        raise PyRaise(IndexError('string index out of range'))

    eng.getitem_handlers[SText] = text_getitem
    eng.len_handlers[SText] = lambda e, t: SNum(t.size)
    eng.isinstance_handlers[SText] = lambda e, x, c: isinstance(c, type) and issubclass(str, c)
    eng.isinstance_handlers[SChar] = lambda e, x, c: isinstance(c, type) and issubclass(str, c)
    eng.truth_handlers[SChar] = lambda e, x: True
    eng.truth_handlers[SText] = lambda e, t: e.truth(mk_bool(t.size > 0))

    # -- lists of characters --------------------------------------------------
    join0 = eng.method_handlers[(str, 'join')]

    def str_join(e, sep, it):
        if isinstance(it, list) and it and all(
                isinstance(x, SChar) for x in it):
            it = CharList.of_list(it[0].text, it)
        if isinstance(it, CharList):
            if sep != '':
                raise Unsupported('join of characters with a separator')
            if not it.segs:
                return ''
            return SpanStr(cur(), it.text, it.segs)
        return join0(e, sep, it)

    eng.method_handlers[(str, 'join')] = str_join
    eng.truth_handlers[CharList] = lambda e, c: bool(c.segs)

    # -- the joined string: its last character, a literal character added ----
    def span_getitem(e, s, key):
        if isinstance(key, slice) or isinstance(key, bool):
            raise Unsupported('SpanStr: only s[-1] is modelled')
        k = key.z if isinstance(key, SNum) else key
        if not (isinstance(k, int) and k == -1) and not (
                z3.is_expr(k) and _provably(k == -1)):
            raise Unsupported('SpanStr: only s[-1] is modelled')
        if not s.segs:
            raise PyRaise(IndexError('string index out of range'))
        last = s.segs[-1]
        if last[0] == 'chr':
            return last[1]
        _, lo, hi = last
        if _provably(hi > lo):
            return SChar(s.text, z3.simplify(hi - 1))
        raise Unsupported('SpanStr[-1]: last span not known to be non-empty')

    eng.getitem_handlers[SpanStr] = span_getitem

    def span_add(e, op, a, b):
        if isinstance(a, SpanStr) and isinstance(b, str) and len(b) == 1:
            lit = SChar(a.text, None, code=z3.IntVal(ord(b)))
            return SpanStr(cur(), a.text, a.segs + [('chr', lit)])
        return NotImplemented

    import ast as _ast
    eng.binop_handlers[(_ast.Add, SpanStr)] = span_add

    # -- stack / abstract lists -------------------------------------------------
    eng.truth_handlers[AbsStack] = lambda e, s: e.truth(s.nonempty())

    def stack_getitem(e, s, key):
        if key != -1:
            raise Unsupported(f'stack[{key!r}]')
        return s.peek()

    eng.getitem_handlers[AbsStack] = stack_getitem

    def iter_abs(e, x):
        raise Unsupported('iteration over an abstract list')

    eng.iter_handlers[AbsNodeList] = iter_abs

    def tup_len(e, t):
        if t.length is None:
            t.length = z3.simplify(t.src.length() - len(t.src.appended) +
                                   t.count)
        return sym.mk_num(t.length)

    eng.len_handlers[AbsNodeList] = lambda e, x: sym.mk_num(x.length())
    eng.truth_handlers[AbsNodeList] = lambda e, x: e.truth(
        mk_bool(x.length() > 0))

    eng.len_handlers[AbsTuple] = tup_len
    eng.isinstance_handlers[AbsTuple] = lambda e, x, c: isinstance(c, type) and issubclass(tuple, c)
    eng.isinstance_handlers[AbsNodeList] = lambda e, x, c: isinstance(c, type) and issubclass(list, c)
    eng.isinstance_handlers[AbsStack] = lambda e, x, c: isinstance(c, type) and issubclass(list, c)

    def tup_getitem(e, t, key):
        if isinstance(key, int) and key >= 0:
            if not e.truth(tup_len(e, t) > key):
                raise PyRaise(IndexError('tuple index out of range'))
            return generic_node(e, f'{t.src.name}_{key}')
        raise Unsupported(f'abstract tuple [{key!r}]')

    eng.getitem_handlers[AbsTuple] = tup_getitem

    map0 = eng.native_handlers[_hkey(map)]
    tuple0 = eng.native_handlers[_hkey(tuple)]
    hash0 = eng.native_handlers[_hkey(hash)]

    def b_map(e, f, *its):
        if len(its) == 1 and isinstance(its[0], AbsTuple):
            g = generic_node(e, 'elem')
            r = e.call(f, [g], {})
            if r is not g:
                raise Unsupported('map over an abstract list with a function '
                                  'that is not the identity on its elements')
            return AbsMapped(its[0])
        return map0(e, f, *its)

    def b_tuple(e, it=()):
        if isinstance(it, AbsMapped):
            return it.tup
        if isinstance(it, AbsTuple):
            return it
        return tuple0(e, it)

    def b_hash(e, x):
        if isinstance(x, AbsTuple):
            return SNum(cur().fresh_int('hash_tuple'))
        return hash0(e, x)

    def tuple_comp(e, it, node, env, mod, clsctx):
        """(f(a) for a in <abstract tuple>) with f the identity on nodes"""
        import ast
        from pyvc.interp import Env
        g = node.generators[0]
        if len(node.generators) != 1 or g.ifs or not isinstance(
                node, (ast.GeneratorExp, ast.ListComp)):
            return NotImplemented
        x = generic_node(e, 'elem')
        cenv = Env(env, env.func if env is not None else None)
        e.assign(g.target, x, cenv, mod, clsctx)
        if e.eval(node.elt, cenv, mod, clsctx) is not x:
            raise Unsupported('comprehension over an abstract list with an '
                              'element expression that is not the identity '
                              'on nodes')
        return AbsMapped(it)

    eng.comp_handlers[AbsTuple] = tuple_comp

    eng.native_handlers[_hkey(map)] = b_map
    eng.native_handlers[_hkey(tuple)] = b_tuple
    eng.native_handlers[_hkey(hash)] = b_hash
    eng.truth_handlers[AbsTuple] = lambda e, t: e.truth(tup_len(e, t) > 0)

    # f(*xs) with xs an abstract list
    eng.star_handlers[AbsNodeList] = lambda e, xs: AbsTuple(
        xs, len(xs.appended))
