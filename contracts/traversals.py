"""Unbounded contracts for the explicit-stack traversals of ddsmt.nodes
(C12 "visit every node exactly once in the documented order", C04 exception
freedom on every tree) -- see contracts/worklist.py for the technique.

Specification functions (structural recursion over s-expressions):

    PRE(leaf)   = [leaf]              PREL([])      = []
    PRE(tup ks) = [tup ks] ++ PREL(ks)  PREL(x . r) = PRE(x) ++ PREL(r)
    SIZE(leaf)  = 1                   SIZEL([])     = 0
    SIZE(tup ks)= 1 + SIZEL(ks)       SIZEL(x . r)  = SIZE(x) + SIZEL(r)
    LEVELS: breadth-first order, BFS(q) = [] if q = [], head(q) . BFS(tail(q)
            ++ kids(head(q)))
"""
import z3

from pyvc import sym
from pyvc.api import Contract
from pyvc.interp import LoopSpec, ObjVal, PyRaise
from pyvc.sym import SNum, mk_bool, cur
from . import env as envmod
from . import nodemodel as nm
from . import worklist as wl


def verify_solve(pc, goal):
    from pyvc import verify
    return verify.solve(pc, goal, 20000)

Struct, SeqS = nm.Struct, nm.SeqS
PRE = z3.Function('PRE', Struct, SeqS)
PREL = z3.Function('PREL', SeqS, SeqS)
SIZE = z3.Function('SIZEOF', Struct, z3.IntSort())
SIZEL = z3.Function('SIZEL', SeqS, z3.IntSort())
BFS = z3.Function('BFS', SeqS, SeqS)
REVSEQ = z3.Function('REVSEQ', SeqS, SeqS)  # reversal (uninterpreted)

ASSUME_SPEC = ('specification functions PRE/PREL, SIZE/SIZEL, BFS are '
               'uninterpreted; their defining equations (structural '
               'recursion) are instantiated for the node taken from the work '
               'list')
ASSUME_LIST = ('work lists are abstract lists (contracts/worklist.py): '
               'append/extend/pop/popleft, comprehensions over reversed(...) '
               'and truth value per Python semantics; an unknown list is '
               'described by its denotation only')


def kids(s):
    return Struct.kids(s)


def unfold_pre(p, s):
    p.assume(PRE(s) == z3.If(Struct.is_tup(s),
                             z3.Concat(z3.Unit(s), PREL(kids(s))),
                             z3.Unit(s)))


def unfold_size(p, s):
    p.assume(SIZE(s) == z3.If(Struct.is_tup(s), 1 + SIZEL(kids(s)), 1))
    p.assume(z3.Implies(Struct.is_tup(s), SIZEL(kids(s)) >= 0))


def setup(eng):
    wl.pre_install(eng)
    envmod.static_options(eng)
    nm.install(eng)
    wl.install(eng)
    for f in (DFS, CN, BFSQ):
        eng.spec_required.add(f)


def is_node(eng, x):
    return isinstance(x, ObjVal) and x.cls is nm.node_class(eng)


# ---------------------------------------------------------------------------
# dfs(exprs): yields the nodes of the forest in preorder, each exactly once

DFS = 'ddsmt.nodes.dfs'


def den_seq(eng, lst, item_den, seg_den, concat):
    """Denotation of an abstract list, top first."""
    out = []
    for part in reversed(lst.parts):
        if isinstance(part, tuple):
            out.append(item_den(part[1]))
        elif isinstance(part, wl.Seg):
            out.append(seg_den(part))
        else:
            out.append(part.den)
    return concat(out)


def cat(xs):
    xs = [x for x in xs]
    if not xs:
        return z3.Empty(SeqS)
    if len(xs) == 1:
        return xs[0]
    return z3.Concat(*xs)


def setup_dfs(eng):
    setup(eng)

    def item_den(it):
        if isinstance(it, tuple) and len(it) == 2 and is_node(eng, it[1]):
            return PRE(nm.S(it[1]))
        raise sym.Unsupported('work-list item that is not (depth, node)')

    def seg_den(sg):
        # the wrapper must make (depth, node) pairs
        g = nm.lazy_node(eng, cur(), cur().fresh_name('probe'))
        w = sg.wrap(g) if sg.wrap else g
        if not (isinstance(w, tuple) and len(w) == 2 and w[1] is g):
            raise sym.Unsupported('work-list items are not (depth, node)')
        # pushed reversed: popped in sequence order; pushed in order: popped
        # last to first
        return PREL(sg.seq) if sg.rev else PREL(REVSEQ(sg.seq))

    def den(lst):
        return den_seq(eng, lst, item_den, seg_den, cat)

    def split(e, D):
        p = cur()
        n = nm.lazy_node(e, p, p.fresh_name('popped'))
        d = p.fresh_int('depth')
        rest = z3.Const(p.fresh_name('D'), SeqS)
        p.assume(D == z3.Concat(PRE(nm.S(n)), rest))
        unfold_pre(p, nm.S(n))
        return (SNum(d), n), rest

    def havoc(e, env_, p):
        D = z3.Const(p.fresh_name('D'), SeqS)
        env_.vars['visit'] = wl.AbsList(e, [wl.Opaque(
            D, split, lambda d: z3.Length(d) > 0)])
        p.ghost['out'] = z3.Const(p.fresh_name('O'), SeqS)

    def inv(e, env_):
        p = cur()
        v = env_.vars['visit']
        if isinstance(v, list):
            v = wl.as_abs(e, v)
        if not isinstance(v, wl.AbsList):
            return [False]
        return [('C12', z3.Concat(p.ghost['out'], den(v)) ==
                 p.ghost['target'])]

    def covers(e, env_, p):
        x = env_.vars.get('expr')
        if is_node(e, x):
            kind = 'leaf' if isinstance(x.attrs.get('data'), (
                str, sym.SStr)) else 'list'
            p.oblige(f'cover/dfs/visits-a-{kind}', False, kind='cover')

    eng.loop_specs[(DFS, 'while visit')] = LoopSpec(
        inv=inv, havoc={'effect:state': havoc}, sets=('visit', ),
        on_iter_end=covers)


def make_arg(eng, p, mode, one, many):
    """The argument of a traversal: a list of nodes or one node; the
    target of the invariant is many(F) resp. one(S(node))."""
    if mode == 'list':
        forest, F = wl.forest(eng, p)
        p.ghost['target'] = many(F)
        return forest
    n = nm.lazy_node(eng, p, 'root')
    p.ghost['target'] = one(nm.S(n))
    return n


def run_dfs(eng, p, mode='list'):
    nodes_mod = eng.load_module('ddsmt.nodes')
    arg = make_arg(eng, p, mode, PRE, PREL)
    if mode == 'node':
        unfold_pre(p, nm.S(arg))
    p.ghost['out'] = z3.Empty(SeqS)
    err = None
    try:
        for y in eng.call(nodes_mod.g['dfs'], [arg], {}):
            ok = is_node(eng, y)
            p.oblige('C12/dfs/yields-nodes', ok, info=repr(type(y)))
            if not ok:
                return
            p.ghost['out'] = z3.Concat(p.ghost['out'], z3.Unit(nm.S(y)))
    except PyRaise as ex:
        err = ex
    p.oblige('C04/dfs/raises-nothing', err is None,
             info={'outcome': repr(err.value) if err else '',
                   'signature': type(err.value).__name__ if err else ''})
    if err is None:
        p.oblige('C12/dfs/yields-every-node-once-in-preorder',
                 mk_bool(p.ghost['out'] == p.ghost['target']),
                 info={'signature': 'dfs does not yield the preorder '
                       'sequence of the forest'})


# ---------------------------------------------------------------------------
# dfs(exprs, max_depth) / bfs share the depth rule: a node at depth d is
# yielded; its children (depth d+1) are visited iff max_depth is falsy or
# d < max_depth.   PRED(s, d, md) / PREDL(seq, d, md): preorder limited that
# way (structural recursion).

PRED = z3.Function('PRED', Struct, z3.IntSort(), z3.IntSort(), SeqS)
PREDL = z3.Function('PREDL', SeqS, z3.IntSort(), z3.IntSort(), SeqS)


def expands(d, md):
    return z3.Or(md == 0, d < md)  # md == 0 stands for "no limit" (None / 0)


def unfold_pred(p, s, d, md):
    p.assume(PRED(s, d, md) == z3.If(
        z3.And(Struct.is_tup(s), expands(d, md)),
        z3.Concat(z3.Unit(s), PREDL(kids(s), d + 1, md)), z3.Unit(s)))


def setup_dfs_md(eng):
    setup(eng)

    def md_of(p):
        return p.ghost['md']

    def item_den(it):
        if isinstance(it, tuple) and len(it) == 2 and is_node(eng, it[1]):
            return PRED(nm.S(it[1]), sym._znum(it[0]), md_of(cur()))
        raise sym.Unsupported('work-list item that is not (depth, node)')

    def seg_den(sg):
        g = nm.lazy_node(eng, cur(), cur().fresh_name('probe'))
        w = sg.wrap(g) if sg.wrap else g
        if not (isinstance(w, tuple) and len(w) == 2 and w[1] is g):
            raise sym.Unsupported('work-list items are not (depth, node)')
        seq = sg.seq if sg.rev else REVSEQ(sg.seq)
        return PREDL(seq, sym._znum(w[0]), md_of(cur()))

    def den(lst):
        return den_seq(eng, lst, item_den, seg_den, cat)

    def split(e, D):
        p = cur()
        n = nm.lazy_node(e, p, p.fresh_name('popped'))
        d = p.fresh_int('depth')
        p.assume(d >= 1)
        rest = z3.Const(p.fresh_name('D'), SeqS)
        p.assume(D == z3.Concat(PRED(nm.S(n), d, md_of(p)), rest))
        unfold_pred(p, nm.S(n), d, md_of(p))
        return (SNum(d), n), rest

    def havoc(e, env_, p):
        D = z3.Const(p.fresh_name('D'), SeqS)
        env_.vars['visit'] = wl.AbsList(e, [wl.Opaque(
            D, split, lambda d: z3.Length(d) > 0)])
        p.ghost['out'] = z3.Const(p.fresh_name('O'), SeqS)

    def inv(e, env_):
        p = cur()
        v = env_.vars['visit']
        if isinstance(v, list):
            v = wl.as_abs(e, v)
        if not isinstance(v, wl.AbsList):
            return [False]
        return [('C12', z3.Concat(p.ghost['out'], den(v)) ==
                 p.ghost['target'])]

    eng.loop_specs[(DFS, 'while visit')] = LoopSpec(
        inv=inv, havoc={'effect:state': havoc}, sets=('visit', ))


def run_dfs_md(eng, p):
    nodes_mod = eng.load_module('ddsmt.nodes')
    forest, F = wl.forest(eng, p)
    if p.decide(p.fresh_bool('no_limit')):
        md_arg, md = None, z3.IntVal(0)
    else:
        md = p.fresh_int('max_depth')
        p.assume(md >= 1)
        md_arg = SNum(md)
    p.ghost['md'] = md
    p.ghost['target'] = PREDL(F, z3.IntVal(1), md)
    p.ghost['out'] = z3.Empty(SeqS)
    err = None
    try:
        for y in eng.call(nodes_mod.g['dfs'], [forest, md_arg], {}):
            ok = is_node(eng, y)
            p.oblige('C12/dfs[max_depth]/yields-nodes', ok,
                     info=repr(type(y)))
            if not ok:
                return
            p.ghost['out'] = z3.Concat(p.ghost['out'], z3.Unit(nm.S(y)))
    except PyRaise as ex:
        err = ex
    p.oblige('C04/dfs[max_depth]/raises-nothing', err is None,
             info={'outcome': repr(err.value) if err else '',
                   'signature': type(err.value).__name__ if err else ''})
    if err is None:
        p.oblige('C12/dfs[max_depth]/yields-the-depth-limited-preorder',
                 mk_bool(p.ghost['out'] == p.ghost['target']),
                 info={'signature': 'dfs with max_depth does not yield the '
                       'preorder sequence cut below max_depth'})


# ---------------------------------------------------------------------------
# count_nodes(list): the number of nodes

CN = 'ddsmt.nodes.count_nodes'


def setup_cn(eng):
    setup(eng)

    def den(lst):
        tot = z3.IntVal(0)
        for part in lst.parts:
            if isinstance(part, tuple):
                if not is_node(eng, part[1]):
                    raise sym.Unsupported('work-list item is not a node')
                tot = tot + SIZE(nm.S(part[1]))
            elif isinstance(part, wl.Seg):
                g = nm.lazy_node(eng, cur(), cur().fresh_name('probe'))
                if (part.wrap(g) if part.wrap else g) is not g:
                    raise sym.Unsupported('work-list items are not nodes')
                tot = tot + SIZEL(part.seq)
            else:
                tot = tot + part.den
        return tot

    def split(e, D):
        p = cur()
        n = nm.lazy_node(e, p, p.fresh_name('popped'))
        rest = p.fresh_int('D')
        p.assume(z3.And(D == SIZE(nm.S(n)) + rest, rest >= 0))
        unfold_size(p, nm.S(n))
        return n, rest

    def havoc(e, env_, p):
        D = p.fresh_int('D')
        p.assume(D >= 0)
        env_.vars['visit'] = wl.AbsList(e, [wl.Opaque(
            D, split, lambda d: d > 0)])
        env_.vars['res'] = SNum(p.fresh_int('res'))

    def inv(e, env_):
        p = cur()
        v = env_.vars['visit']
        if isinstance(v, list):
            v = wl.as_abs(e, v)
        if not isinstance(v, wl.AbsList):
            return [False]
        return [('C12', sym._znum(env_.vars['res']) + den(v) ==
                 p.ghost['target'])]

    def covers(e, env_, p):
        x = env_.vars.get('expr')
        if is_node(e, x):
            kind = 'leaf' if isinstance(x.attrs.get('data'), (
                str, sym.SStr)) else 'list'
            p.oblige(f'cover/count_nodes/counts-a-{kind}', False,
                     kind='cover')

    eng.loop_specs[(CN, 'while visit')] = LoopSpec(
        inv=inv, havoc={'effect:state': havoc}, sets=('visit', 'res'),
        on_iter_end=covers)


def run_cn(eng, p, mode='list'):
    nodes_mod = eng.load_module('ddsmt.nodes')
    arg = make_arg(eng, p, mode, SIZE, SIZEL)
    err = None
    r = None
    try:
        r = eng.call(nodes_mod.g['count_nodes'], [arg], {})
    except PyRaise as ex:
        err = ex
    p.oblige('C04/count_nodes/raises-nothing', err is None,
             info={'outcome': repr(err.value) if err else '',
                   'signature': type(err.value).__name__ if err else ''})
    if err is None:
        p.oblige('C12/count_nodes/is-the-number-of-nodes',
                 mk_bool(sym._znum(r) == p.ghost['target']),
                 info={'signature': 'count_nodes is not the number of nodes '
                       'of the forest'})


# ---------------------------------------------------------------------------
# count_exprs(list): the number of non-leaf nodes

CE = 'ddsmt.nodes.count_exprs'
EXPRS = z3.Function('EXPRS', Struct, z3.IntSort())
EXPRSL = z3.Function('EXPRSL', SeqS, z3.IntSort())


def setup_ce(eng):
    setup(eng)
    eng.spec_required.add(CE)

    def probe(kind):
        p = cur()
        g = nm.lazy_node(eng, p, p.fresh_name('probe'))
        p.assume(Struct.is_tup(nm.S(g)) if kind == 'list' else z3.Not(
            Struct.is_tup(nm.S(g))))
        return g

    def den(lst):
        tot = z3.IntVal(0)
        for part in lst.parts:
            if isinstance(part, tuple):
                if not is_node(eng, part[1]):
                    raise sym.Unsupported('work-list item is not a node')
                tot = tot + EXPRS(nm.S(part[1]))
            elif isinstance(part, wl.Seg):
                g = nm.lazy_node(eng, cur(), cur().fresh_name('probe'))
                if (part.wrap(g) if part.wrap else g) is not g:
                    raise sym.Unsupported('work-list items are not nodes')
                if part.cond is not None:
                    # leaves contribute nothing: the filter may only drop
                    # leaves
                    if part.cond(probe('list')) is not True:
                        raise sym.Unsupported('filter drops a list')
                tot = tot + EXPRSL(part.seq)
            else:
                tot = tot + part.den[0]
        return tot

    def split(e, d):
        D, cnt = d
        p = cur()
        n = nm.lazy_node(e, p, p.fresh_name('popped'))
        rest = p.fresh_int('D')
        cnt2 = p.fresh_int('items')
        s = nm.S(n)
        p.assume(z3.And(D == EXPRS(s) + rest, rest >= 0, cnt == cnt2 + 1,
                        cnt2 >= 0, z3.Implies(cnt2 == 0, rest == 0)))
        p.assume(EXPRS(s) == z3.If(Struct.is_tup(s), 1 + EXPRSL(kids(s)),
                                   0))
        p.assume(z3.Implies(Struct.is_tup(s), EXPRSL(kids(s)) >= 0))
        return n, (rest, cnt2)

    def havoc(e, env_, p):
        D = p.fresh_int('D')
        cnt = p.fresh_int('items')
        # D: what the cnt unknown items still contribute (nothing if none)
        p.assume(z3.And(D >= 0, cnt >= 0, z3.Implies(cnt == 0, D == 0)))
        env_.vars['visit'] = wl.AbsList(e, [wl.Opaque(
            (D, cnt), split, lambda d: d[1] > 0)])
        env_.vars['res'] = SNum(p.fresh_int('res'))

    def inv(e, env_):
        p = cur()
        v = env_.vars['visit']
        if isinstance(v, list):
            v = wl.as_abs(e, v)
        if not isinstance(v, wl.AbsList):
            return [False]
        return [('C12', sym._znum(env_.vars['res']) + den(v) ==
                 p.ghost['target'])]

    def covers(e, env_, p):
        x = env_.vars.get('expr')
        if is_node(e, x):
            kind = 'leaf' if isinstance(x.attrs.get('data'), (
                str, sym.SStr)) else 'list'
            p.oblige(f'cover/count_exprs/sees-a-{kind}', False, kind='cover')

    eng.loop_specs[(CE, 'while visit')] = LoopSpec(
        inv=inv, havoc={'effect:state': havoc}, sets=('visit', 'res'),
        on_iter_end=covers)


def run_ce(eng, p, mode='list'):
    nodes_mod = eng.load_module('ddsmt.nodes')
    arg = make_arg(eng, p, mode, EXPRS, EXPRSL)
    err = None
    r = None
    try:
        r = eng.call(nodes_mod.g['count_exprs'], [arg], {})
    except PyRaise as ex:
        err = ex
    p.oblige('C04/count_exprs/raises-nothing', err is None,
             info={'outcome': repr(err.value) if err else '',
                   'signature': type(err.value).__name__ if err else ''})
    if err is None:
        p.oblige('C12/count_exprs/is-the-number-of-lists',
                 mk_bool(sym._znum(r) == p.ghost['target']),
                 info={'signature': 'count_exprs is not the number of '
                       'non-leaf nodes of the forest'})


BFSQ = 'ddsmt.nodes.bfs'


def setup_bfs(eng):
    setup(eng)

    def unwrap_ok(sg):
        g = nm.lazy_node(eng, cur(), cur().fresh_name('probe'))
        w = sg.wrap(g) if sg.wrap else g
        return isinstance(w, tuple) and len(w) == 2 and w[1] is g

    def queue(lst):
        """The queue content, front first, as a sequence of structures."""
        out = []
        for part in lst.parts:
            if isinstance(part, tuple):
                it = part[1]
                if not (isinstance(it, tuple) and len(it) == 2 and is_node(
                        eng, it[1])):
                    raise sym.Unsupported('queue item is not (depth, node)')
                out.append(z3.Unit(nm.S(it[1])))
            elif isinstance(part, wl.Seg):
                if not unwrap_ok(part):
                    raise sym.Unsupported('queue items are not (depth, node)')
                out.append(part.seq if not part.rev else REVSEQ(part.seq))
            else:
                out.append(part.den)
        return cat(out)

    def split(e, Q):
        p = cur()
        n = nm.lazy_node(e, p, p.fresh_name('popped'))
        d = p.fresh_int('depth')
        rest = z3.Const(p.fresh_name('Q'), SeqS)
        p.assume(Q == z3.Concat(z3.Unit(nm.S(n)), rest))
        return (SNum(d), n), rest

    def havoc(e, env_, p):
        Q = z3.Const(p.fresh_name('Q'), SeqS)
        env_.vars['visit'] = wl.AbsList(e, [wl.Opaque(
            Q, split, lambda q: z3.Length(q) > 0, top_end=False)])
        p.ghost['out'] = z3.Const(p.fresh_name('O'), SeqS)

    def unfold_bfs(p, q):
        """BFS(x . r) = x . BFS(r ++ kids(x)),  BFS([]) = []"""
        x = q[0]
        r = z3.SubSeq(q, 1, z3.Length(q) - 1)
        p.assume(z3.If(
            z3.Length(q) == 0, BFS(q) == z3.Empty(SeqS),
            BFS(q) == z3.Concat(z3.Unit(x), BFS(z3.If(
                Struct.is_tup(x), z3.Concat(r, kids(x)), r)))))

    def start(e, env_, p):
        # the defining equation, for the queue at the start of the iteration
        v = env_.vars['visit']
        unfold_bfs(p, queue(v))

    def inv(e, env_):
        p = cur()
        v = env_.vars['visit']
        if isinstance(v, list):
            v = wl.as_abs(e, v)
        if not isinstance(v, wl.AbsList):
            return [False]
        return [('C12', z3.Concat(p.ghost['out'], BFS(queue(v))) ==
                 p.ghost['target'])]

    def covers(e, env_, p):
        x = env_.vars.get('expr')
        if is_node(e, x):
            kind = 'leaf' if isinstance(x.attrs.get('data'), (
                str, sym.SStr)) else 'list'
            p.oblige(f'cover/bfs/visits-a-{kind}', False, kind='cover')

    eng.loop_specs[(BFSQ, 'while visit')] = LoopSpec(
        inv=inv, havoc={'effect:state': havoc}, sets=('visit', ),
        on_iter_start=start, on_iter_end=covers)
    eng._unfold_bfs = unfold_bfs


def run_bfs(eng, p, mode='list'):
    nodes_mod = eng.load_module('ddsmt.nodes')
    # bfs(node) = node . BFS(children of node)
    arg = make_arg(eng, p, mode, lambda s: z3.Concat(z3.Unit(s), z3.If(
        Struct.is_tup(s), BFS(kids(s)), z3.Empty(SeqS))), BFS)
    p.ghost['out'] = z3.Empty(SeqS)
    err = None
    try:
        for y in eng.call(nodes_mod.g['bfs'], [arg], {}):
            ok = is_node(eng, y)
            p.oblige('C12/bfs/yields-nodes', ok, info=repr(type(y)))
            if not ok:
                return
            p.ghost['out'] = z3.Concat(p.ghost['out'], z3.Unit(nm.S(y)))
    except PyRaise as ex:
        err = ex
    p.oblige('C04/bfs/raises-nothing', err is None,
             info={'outcome': repr(err.value) if err else '',
                   'signature': type(err.value).__name__ if err else ''})
    if err is None:
        # exit: the queue is empty, BFS([]) = []
        p.assume(BFS(z3.Empty(SeqS)) == z3.Empty(SeqS))
        p.oblige('C12/bfs/yields-every-node-once-in-breadth-first-order',
                 mk_bool(p.ghost['out'] == p.ghost['target']),
                 info={'signature': 'bfs does not yield the breadth-first '
                       'sequence of the forest'})



# ---------------------------------------------------------------------------
# bfs(exprs, max_depth): the queue holds (depth, node) pairs; the ghost keeps
# the nodes Q and their depths DQ as two sequences of equal length.
#   BFSD([], [], md) = []
#   BFSD(x . q, d . dq, md) = x . BFSD(q ++ K, dq ++ CONST(|K|, d+1), md)
#       with K = kids(x) if x is a list and (md == 0 or d < md), else []

SeqI = z3.SeqSort(z3.IntSort())
BFSD = z3.Function('BFSD', SeqS, SeqI, z3.IntSort(), SeqS)
CONSTSEQ = z3.Function('CONSTSEQ', z3.IntSort(), z3.IntSort(), SeqI)


def setup_bfs_md(eng):
    setup(eng)

    def queue(lst):
        qs, ds = [], []
        for part in lst.parts:
            if isinstance(part, tuple):
                it = part[1]
                if not (isinstance(it, tuple) and len(it) == 2 and is_node(
                        eng, it[1])):
                    raise sym.Unsupported('queue item is not (depth, node)')
                qs.append(z3.Unit(nm.S(it[1])))
                ds.append(z3.Unit(sym._znum(it[0])))
            elif isinstance(part, wl.Seg):
                g = nm.lazy_node(eng, cur(), cur().fresh_name('probe'))
                w = part.wrap(g) if part.wrap else g
                if not (isinstance(w, tuple) and len(w) == 2 and
                        w[1] is g) or part.rev:
                    raise sym.Unsupported('queue items are not (depth, '
                                          'node) in order')
                qs.append(part.seq)
                cs = CONSTSEQ(z3.Length(part.seq), sym._znum(w[0]))
                cur().assume(z3.Length(cs) == z3.Length(part.seq))
                ds.append(cs)
            else:
                qs.append(part.den[0])
                ds.append(part.den[1])

        def c(xs, sort):
            if not xs:
                return z3.Empty(sort)
            return xs[0] if len(xs) == 1 else z3.Concat(*xs)

        return c(qs, SeqS), c(ds, SeqI)

    def split(e, den):
        Q, DQ = den
        p = cur()
        n = nm.lazy_node(e, p, p.fresh_name('popped'))
        d = p.fresh_int('depth')
        rest = z3.Const(p.fresh_name('Q'), SeqS)
        drest = z3.Const(p.fresh_name('DQ'), SeqI)
        p.assume(Q == z3.Concat(z3.Unit(nm.S(n)), rest))
        p.assume(DQ == z3.Concat(z3.Unit(d), drest))
        p.assume(z3.Length(rest) == z3.Length(drest))
        return (SNum(d), n), (rest, drest)

    def havoc(e, env_, p):
        Q = z3.Const(p.fresh_name('Q'), SeqS)
        DQ = z3.Const(p.fresh_name('DQ'), SeqI)
        p.assume(z3.Length(Q) == z3.Length(DQ))
        env_.vars['visit'] = wl.AbsList(e, [wl.Opaque(
            (Q, DQ), split, lambda d: z3.Length(d[0]) > 0, top_end=False)])
        p.ghost['out'] = z3.Const(p.fresh_name('O'), SeqS)

    def unfold(p, q, dq, md):
        x = q[0]
        d = dq[0]
        r = z3.SubSeq(q, 1, z3.Length(q) - 1)
        dr = z3.SubSeq(dq, 1, z3.Length(dq) - 1)
        K = z3.If(z3.And(Struct.is_tup(x), expands(d, md)), kids(x),
                  z3.Empty(SeqS))
        p.assume(z3.If(
            z3.Length(q) == 0, BFSD(q, dq, md) == z3.Empty(SeqS),
            BFSD(q, dq, md) == z3.Concat(z3.Unit(x), BFSD(
                z3.Concat(r, K),
                z3.Concat(dr, CONSTSEQ(z3.Length(K), d + 1)), md))))
        p.assume(CONSTSEQ(z3.IntVal(0), d + 1) == z3.Empty(SeqI))
        p.assume(z3.Concat(dr, z3.Empty(SeqI)) == dr)

    def start(e, env_, p):
        q, dq = queue(env_.vars['visit'])
        unfold(p, q, dq, p.ghost['md'])

    def inv(e, env_):
        p = cur()
        v = env_.vars['visit']
        if isinstance(v, list):
            v = wl.as_abs(e, v)
        if not isinstance(v, wl.AbsList):
            return [False]
        q, dq = queue(v)
        return [z3.Length(q) == z3.Length(dq),
                ('C12', z3.Concat(p.ghost['out'],
                                  BFSD(q, dq, p.ghost['md'])) ==
                 p.ghost['target'])]

    eng.loop_specs[(BFSQ, 'while visit')] = LoopSpec(
        inv=inv, havoc={'effect:state': havoc}, sets=('visit', ),
        on_iter_start=start)


def run_bfs_md(eng, p):
    nodes_mod = eng.load_module('ddsmt.nodes')
    forest, F = wl.forest(eng, p)
    if p.decide(p.fresh_bool('no_limit')):
        md_arg, md = None, z3.IntVal(0)
    else:
        md = p.fresh_int('max_depth')
        p.assume(md >= 1)
        md_arg = SNum(md)
    p.ghost['md'] = md
    p.ghost['target'] = BFSD(F, CONSTSEQ(z3.Length(F), z3.IntVal(1)), md)
    p.assume(z3.Length(CONSTSEQ(z3.Length(F), z3.IntVal(1))) ==
             z3.Length(F))
    p.ghost['out'] = z3.Empty(SeqS)
    err = None
    try:
        for y in eng.call(nodes_mod.g['bfs'], [forest, md_arg], {}):
            ok = is_node(eng, y)
            p.oblige('C12/bfs[max_depth]/yields-nodes', ok,
                     info=repr(type(y)))
            if not ok:
                return
            p.ghost['out'] = z3.Concat(p.ghost['out'], z3.Unit(nm.S(y)))
    except PyRaise as ex:
        err = ex
    p.oblige('C04/bfs[max_depth]/raises-nothing', err is None,
             info={'outcome': repr(err.value) if err else '',
                   'signature': type(err.value).__name__ if err else ''})
    if err is None:
        p.assume(BFSD(z3.Empty(SeqS), z3.Empty(SeqI), md) ==
                 z3.Empty(SeqS))
        p.oblige('C12/bfs[max_depth]/yields-the-depth-limited-breadth-'
                 'first-order',
                 mk_bool(p.ghost['out'] == p.ghost['target']),
                 info={'signature': 'bfs with max_depth does not yield the '
                       'breadth-first sequence cut below max_depth'})


# ---------------------------------------------------------------------------
# filter_nodes(exprs, pred, max_depth): the nodes of dfs(exprs, max_depth)
# for which pred holds, in that order (dfs through its contract)

FN = 'ddsmt.nodes.filter_nodes'


class DfsSeq(sym.Abstract):
    """what nodes.dfs(exprs, max_depth) yields, by its contract"""

    def __init__(self, exprs, md):
        self.exprs, self.md = exprs, md


def setup_fn(eng):
    setup(eng)
    eng.spec_required.add(FN)

    def dfs(e, exprs, max_depth=None):
        return DfsSeq(exprs, max_depth)

    eng.overrides[DFS] = dfs

    def entry(e, env_, p):
        it = env_.vars['__iter__']
        ok = isinstance(it, DfsSeq) and it.exprs is p.ghost['arg'] and \
            it.md is p.ghost['md_arg']
        p.oblige('C12/filter_nodes/walks-dfs-of-its-argument-with-its-depth-'
                 'limit', ok)
        if not ok:
            raise sym.PathAbort('unexpected iterable')

    def elem(e, env_, p):
        n = nm.lazy_node(e, p, p.fresh_name('visited'))
        p.ghost['cur'] = n
        p.ghost['cur_yields'] = []
        p.ghost['verdicts'] = []
        return n

    def end(e, env_, p):
        ys = p.ghost['cur_yields']
        vs = p.ghost['verdicts']
        n = p.ghost['cur']
        ok = len(vs) == 1 and vs[0][0] is n and (
            ys == [n] if vs[0][1] else ys == [])
        p.oblige('C12/filter_nodes/yields-a-node-iff-the-predicate-holds',
                 ok, info={'signature': 'filter_nodes yields a node the '
                           'predicate rejects, drops one it accepts, or asks '
                           'the predicate about something else'})

    eng.loop_specs[(FN, 'for expr in dfs(exprs, max_depth)')] = LoopSpec(
        inv=lambda e, env_: True, elem=elem, on_entry=entry, on_iter_end=end)


def run_fn(eng, p):
    nodes_mod = eng.load_module('ddsmt.nodes')
    forest, F = wl.forest(eng, p)
    p.ghost['arg'] = forest
    md = None
    if p.decide(p.fresh_bool('has_limit')):
        md = SNum(p.fresh_int('max_depth'))
    p.ghost['md_arg'] = md

    def pred(node):
        v = p.decide(p.fresh_bool('pred'))
        p.ghost.setdefault('verdicts', []).append((node, v))
        return v

    pred.__module__ = 'contracts.traversals'
    err = None
    try:
        for y in eng.call(nodes_mod.g['filter_nodes'], [forest, pred, md],
                          {}):
            p.ghost.setdefault('cur_yields', []).append(y)
    except PyRaise as ex:
        err = ex
    p.oblige('C04/filter_nodes/raises-nothing', err is None,
             info={'outcome': repr(err.value) if err else ''})


def contracts(tier):
    A = [ASSUME_SPEC, ASSUME_LIST, nm.ASSUME_LAZY]
    rp = wl.harness_replay('harness/nodes_native.py', ['traversal', 5],
                           ['C12'])
    return [
        Contract('dfs', [DFS], run_dfs, setup=setup_dfs, assumptions=A, replay=rp),
        Contract('dfs[node]', [DFS], lambda e, p: run_dfs(e, p, 'node'),
                 setup=setup_dfs, assumptions=A, replay=rp),
        Contract('dfs[max_depth]', [DFS], run_dfs_md, setup=setup_dfs_md,
                 assumptions=A, replay=rp),
        Contract('count_nodes', [CN], run_cn, setup=setup_cn, assumptions=A, replay=rp),
        Contract('count_nodes[node]', [CN],
                 lambda e, p: run_cn(e, p, 'node'), setup=setup_cn,
                 assumptions=A, replay=rp),
        Contract('count_exprs', [CE], run_ce, setup=setup_ce, assumptions=A,
                 replay=rp),
        Contract('count_exprs[node]', [CE],
                 lambda e, p: run_ce(e, p, 'node'), setup=setup_ce,
                 assumptions=A, replay=rp),
        Contract('bfs', [BFSQ], run_bfs, setup=setup_bfs, assumptions=A, replay=rp),
        Contract('bfs[max_depth]', [BFSQ], run_bfs_md, setup=setup_bfs_md,
                 assumptions=A + ['CONSTSEQ(n, v): the sequence of n copies '
                                  'of v (uninterpreted; only its length at '
                                  'the entry and CONSTSEQ(0, v) == [] are '
                                  'used)'], replay=rp),
        Contract('bfs[node]', [BFSQ], lambda e, p: run_bfs(e, p, 'node'),
                 setup=setup_bfs, assumptions=A, replay=rp),
        Contract('filter_nodes', [FN], run_fn, setup=setup_fn,
                 assumptions=A + ['nodes.dfs through its contract (dfs, '
                                  'dfs[max_depth]); the predicate is an '
                                  'arbitrary function']),
        Contract('Node.__eq__[any trees]', [EQ], run_eq, setup=setup_eq,
                 assumptions=A + [ASSUME_IDS],
                 replay=wl.harness_replay('harness/nodes_native.py',
                                          ['eq', 4], ['C12'])),
    ]


# ---------------------------------------------------------------------------
# Node.__eq__(self, other: Node): structural equality, trees of any size

EQ = 'ddsmt.nodes.Node.__eq__'
ASSUME_IDS = ('node invariants assumed for the operands and every node below '
              'them: equal ids imply equal structure (C13: ids designate one '
              'node), hash == hash of the structure (collisions between '
              'different structures allowed)')


def generic_operand(eng, p, name):
    """A node with an arbitrary id (equal ids imply equal structure)."""
    n = nm.lazy_node(eng, p, p.fresh_name(name))
    idv = p.fresh_int('id_' + name)
    p.assume(idv >= 1)
    n.attrs['id'] = SNum(idv)
    reg = p.ghost.setdefault('operands', [])
    for o in reg:
        p.assume(z3.Implies(idv == sym._znum(o.attrs['id']),
                            nm.S(n) == nm.S(o)))
    reg.append(n)
    return n


def setup_eq(eng):
    setup(eng)
    eng.spec_required.add(EQ)

    def den(lst):
        """Stack content, bottom first."""
        out = []
        for part in lst.parts:
            if isinstance(part, tuple):
                if not is_node(eng, part[1]):
                    raise sym.Unsupported('stack item is not a node')
                out.append(z3.Unit(nm.S(part[1])))
            elif isinstance(part, wl.Seg):
                g = nm.lazy_node(eng, cur(), cur().fresh_name('probe'))
                if (part.wrap(g) if part.wrap else g) is not g:
                    raise sym.Unsupported('stack items are not nodes')
                out.append(part.seq if not part.rev else REVSEQ(part.seq))
            else:
                out.append(part.den)
        return cat(out)

    def make_split(tag):

        def split(e, D):
            p = cur()
            n = generic_operand(e, p, tag)
            rest = z3.Const(p.fresh_name('D' + tag), SeqS)
            p.assume(D == z3.Concat(rest, z3.Unit(nm.S(n))))
            p.ghost.setdefault('eq_split', {})[tag] = (rest, nm.S(n))
            return n, rest

        return split

    def lemmas(e, env_, p):
        """Valid facts about sequences, instantiated for the two popped
        nodes; each is discharged on its own before it is used."""
        sp = p.ghost.get('eq_split', {})
        if 's' not in sp or 'o' not in sp:
            return
        (a, x), (b, y) = sp['s'], sp['o']
        same_len = z3.Length(a) == z3.Length(b)
        L = [z3.Implies(same_len, (z3.Concat(a, z3.Unit(x)) == z3.Concat(
            b, z3.Unit(y))) == z3.And(a == b, x == y))]
        kx, ky = kids(x), kids(y)
        L.append(z3.Implies(
            z3.And(same_len, z3.Length(kx) == z3.Length(ky)),
            (z3.Concat(a, kx) == z3.Concat(b, ky)) == z3.And(a == b,
                                                              kx == ky)))
        L.append(z3.Implies(z3.And(Struct.is_tup(x), Struct.is_tup(y)),
                            (x == y) == (kx == ky)))
        for i, f in enumerate(L):
            st, _, _, _, _ = verify_solve([], f)
            p.oblige(f'lemma/sequences-{i}', st == 'proved')
            if st == 'proved':
                p.assume(f)

    def havoc(e, env_, p):
        for var, tag in (('visit_self', 's'), ('visit_other', 'o')):
            D = z3.Const(p.fresh_name('D' + tag), SeqS)
            env_.vars[var] = wl.AbsList(e, [wl.Opaque(
                D, make_split(tag), lambda d: z3.Length(d) > 0)])

    def inv(e, env_):
        p = cur()
        vs, vo = env_.vars['visit_self'], env_.vars['visit_other']
        if isinstance(vs, list):
            vs = wl.as_abs(e, vs)
        if isinstance(vo, list):
            vo = wl.as_abs(e, vo)
        if not isinstance(vs, wl.AbsList) or not isinstance(vo, wl.AbsList):
            return [False]
        ds, do = den(vs), den(vo)
        return [('C12', z3.Length(ds) == z3.Length(do)),
                ('C12', p.ghost['target'] == (ds == do))]

    def covers(e, env_, p):
        lemmas(e, env_, p)
        x = env_.vars.get('ns')
        if is_node(e, x):
            kind = 'leaf' if isinstance(x.attrs.get('data'), (
                str, sym.SStr)) else 'list'
            p.oblige(f'cover/__eq__/compares-a-{kind}', False, kind='cover')

    eng.loop_specs[(EQ, 'while visit_self')] = LoopSpec(
        inv=inv, havoc={'effect:state': havoc},
        sets=('visit_self', 'visit_other'), on_iter_end=covers)


def run_eq(eng, p):
    a = generic_operand(eng, p, 'self')
    b = generic_operand(eng, p, 'other')
    target = nm.S(a) == nm.S(b)
    p.ghost['target'] = target
    cls = nm.node_class(eng)
    f, _ = cls.lookup('__eq__')
    err = None
    r = None
    try:
        r = eng.call_real(f, [a, b]) if hasattr(eng, 'call_real') else \
            eng.call(f, [a, b], {})
    except PyRaise as ex:
        err = ex
    p.oblige('C04/__eq__/raises-nothing', err is None,
             info={'outcome': repr(err.value) if err else ''})
    if err is not None:
        return
    t = eng.truth(r)
    p.oblige('C12/__eq__/true-exactly-for-equal-structure',
             mk_bool(target if t else z3.Not(target)),
             info={'result': t, 'signature': 'Node.__eq__ disagrees with '
                   'structural equality'})
