"""C09 -- a candidate is accepted iff it matches the golden run as documented.

Functions under contract: checker.matches_golden, checker.check,
checker.execute, checker.check_exprs, tmpfiles.init/get_tmp_filename.
All inputs symbolic, no loops: tier P.
"""
import z3

from pyvc import mk, sym
from pyvc.api import Contract, NativeCheck, outcome
from pyvc.sym import SBool, SNum, SStr, SOpt, mk_bool, force
from . import env
from .env import as_opt, opt_eq, zb

PROPERTY = 'C09'


# ---------------------------------------------------------------------------
# the acceptance rule, written from the property statement


def spec_stream_ok(ignore, match, golden_s, run_s):
    """stream ignored, or contains the match string, or (absent a match
    string) equals the golden stream.  An empty match string counts as
    absent (it is falsy for argparse users and for the code alike)."""
    m_none, m = as_opt(match)
    r_none, r = as_opt(run_s)
    has_match = z3.And(z3.Not(m_none), z3.Length(m) > 0)
    return z3.Or(
        zb(ignore),
        z3.And(has_match, z3.Not(r_none), z3.Contains(r, m)),
        z3.And(z3.Not(has_match), opt_eq(golden_s, run_s)))


def spec_matches(golden, run, ignore_out, ignore_err, match_out, match_err):
    return z3.And(
        opt_eq(golden.exit, run.exit, 'int'),
        spec_stream_ok(ignore_out, match_out, golden.out, run.out),
        spec_stream_ok(ignore_err, match_err, golden.err, run.err))


def sym_record(p, RunInfo, tag):
    """A record as ``execute`` produces them: either (exit, out, err, rt) with
    text streams or the timed-out record (exit, None, None, timeout)."""
    timed_out = p.fresh_bool(f'{tag}_timed_out')
    return RunInfo(
        mk.opt_int(p, f'{tag}_exit'),
        SOpt(timed_out, mk.sstr(p, f'{tag}_out')),
        SOpt(timed_out, mk.sstr(p, f'{tag}_err')),
        mk.sreal(p, f'{tag}_rt'))


# ---------------------------------------------------------------------------


def setup(eng, with_prlimit=True):
    # checker.py logs the golden streams / exit codes (symbolic None-or-value
    # here): formatting them forks without adding anything -- not evaluated
    eng.eval_log_args = False
    env.install_checker_env(eng, with_prlimit)
    eng._ns = None
    env.install_options(eng, lambda: eng._ns)


def run_matches_golden(eng, p, P='C09'):
    chk = eng.load_module('ddsmt.checker')
    RunInfo = chk.g['RunInfo']
    f = chk.g['matches_golden']
    g = sym_record(p, RunInfo, 'golden')
    r = sym_record(p, RunInfo, 'run')
    io, ie = mk.sbool(p, 'ignore_out'), mk.sbool(p, 'ignore_err')
    mo, me = mk.opt_str(p, 'match_out'), mk.opt_str(p, 'match_err')
    out = outcome(eng, f, [g, r, io, ie, mo, me])
    p.oblige(f'{P}/matches_golden/raises-nothing', out.kind == 'return',
             info=repr(out))
    if out.kind == 'return':
        res = eng.truth_sym(out.value)
        p.oblige(f'{P}/matches_golden/post',
                 zb(res) == spec_matches(g, r, io, ie, mo, me))


def replay_matches_golden(name, model, detail):
    def opt(tag, kind):
        if model.get(f'{tag}_is_none', False):
            return None
        return model.get(tag, '' if kind == 'str' else 0)

    def stream(tag, s):
        if model.get(f'{tag}_timed_out', False):
            return None
        return model.get(f'{tag}_{s}', '')

    args = {
        'golden': [opt('golden_exit', 'int'), stream('golden', 'out'),
                   stream('golden', 'err'), 0.0],
        'run': [opt('run_exit', 'int'), stream('run', 'out'),
                stream('run', 'err'), 0.0],
        'io': bool(model.get('ignore_out', False)),
        'ie': bool(model.get('ignore_err', False)),
        'mo': opt('match_out', 'str'),
        'me': opt('match_err', 'str'),
    }
    script = f'''
import sys
sys.argv = ['ddsmt', 'in.smt2', 'out.smt2', 'cmd']
from ddsmt import checker
A = {args!r}
g = checker.RunInfo(*A['golden']); r = checker.RunInfo(*A['run'])
def ok(ignore, match, gs, rs):
    return bool(ignore or (match and rs is not None and match in rs)
                or (not match and gs == rs))
want = (g.exit == r.exit and ok(A['io'], A['mo'], g.out, r.out)
        and ok(A['ie'], A['me'], g.err, r.err))
try:
    got = checker.matches_golden(g, r, A['io'], A['ie'], A['mo'], A['me'])
except Exception as e:
    print('matches_golden raised', type(e).__name__, e, 'on', A); sys.exit(1)
print('input', A, 'got', got, 'documented rule gives', want)
sys.exit(1 if bool(got) != want else 0)
'''
    return {'script': script, 'input': args}


# -- check(): wiring of options, golden records and the cross check -------------


def run_check(eng, p, P='C09'):
    chk = eng.load_module('ddsmt.checker')
    RunInfo = chk.g['RunInfo']
    ns = env.symbolic_options(p)
    eng._ns = ns
    G = sym_record(p, RunInfo, 'G')
    GCC = sym_record(p, RunInfo, 'GCC')
    chk.g['__GOLDEN'] = G
    chk.g['__GOLDEN_CC'] = GCC
    calls = []

    def execute_stub(e, cmd, filename, timeout):
        r = sym_record(p, RunInfo, f'r{len(calls)}')
        calls.append((cmd, filename, timeout, r))
        return r

    def mg_stub(e, golden, run, io, ie, mo, me):
        # callee used through its contract (C09/matches_golden/post)
        return mk_bool(spec_matches(golden, run, eng.truth_sym(io),
                                    eng.truth_sym(ie), mo, me))

    eng.overrides['ddsmt.checker.execute'] = execute_stub
    eng.overrides['ddsmt.checker.matches_golden'] = mg_stub
    fname = mk.sstr(p, 'filename')
    out = outcome(eng, chk.g['check'], [fname])
    p.oblige(f'{P}/check/raises-nothing', out.kind == 'return',
             info=repr(out))
    if out.kind != 'return':
        return
    res = zb(eng.truth_sym(out.value))
    # first run: the command itself, on the file, with the main time limit
    p.oblige(f'{P}/check/runs-cmd-first',
             len(calls) >= 1 and calls[0][0] is ns.cmd and
             calls[0][1] is fname and calls[0][2] is ns.timeout)
    io = z3.Or(zb(ns.ignore_output), zb(ns.ignore_out))
    ie = z3.Or(zb(ns.ignore_output), zb(ns.ignore_err))
    main_ok = spec_matches(G, calls[0][3], io, ie, ns.match_out,
                           ns.match_err)
    has_cc = zb(eng.truth_sym(ns.cmd_cc))
    if len(calls) == 1:
        # no cross-check run happened: either none configured or main failed
        p.oblige(f'{P}/check/wiring',
                 res == z3.And(main_ok, z3.Not(has_cc)))
        p.oblige(f'{P}/check/cc-skipped-only-if-unneeded',
                 z3.Or(z3.Not(main_ok), z3.Not(has_cc)))
    else:
        p.oblige(f'{P}/check/runs-cc-second',
                 len(calls) == 2 and calls[1][1] is fname and
                 calls[1][2] is ns.timeout_cc and
                 calls[1][0] is ns.cmd_cc)
        cc_ok = spec_matches(GCC, calls[1][3], zb(ns.ignore_output_cc),
                             zb(ns.ignore_output_cc), ns.match_out_cc,
                             ns.match_err_cc)
        p.oblige(f'{P}/check/wiring',
                 res == z3.And(main_ok, has_cc, cc_ok))
        p.oblige(f'{P}/check/cc-skipped-only-if-unneeded',
                 z3.And(main_ok, has_cc))


def replay_check(name, model, detail):
    def opt(tag, kind):
        if model.get(f'{tag}_is_none', False):
            return None
        return model.get(tag, '' if kind == 'str' else 0)

    def rec(tag):
        to = model.get(f'{tag}_timed_out', False)
        return [opt(f'{tag}_exit', 'int'),
                None if to else model.get(f'{tag}_out', ''),
                None if to else model.get(f'{tag}_err', ''), 0.0]

    A = {
        'opts': {
            'cmd': ['cmd'],
            'cmd_cc': None if model.get('cmd_cc_is_none', False) else ['cc'],
            'timeout': 1.0, 'timeout_cc': 2.0, 'unchecked': False,
            'ignore_output': bool(model.get('ignore_output', False)),
            'ignore_out': bool(model.get('ignore_out', False)),
            'ignore_err': bool(model.get('ignore_err', False)),
            'match_out': opt('match_out', 'str'),
            'match_err': opt('match_err', 'str'),
            'ignore_output_cc': bool(model.get('ignore_output_cc', False)),
            'match_out_cc': opt('match_out_cc', 'str'),
            'match_err_cc': opt('match_err_cc', 'str'),
        },
        'G': rec('G'), 'GCC': rec('GCC'), 'r0': rec('r0'), 'r1': rec('r1'),
    }
    script = f'''
import sys, types
sys.argv = ['ddsmt', 'in.smt2', 'out.smt2', 'cmd']
from ddsmt import checker, options
A = {A!r}
ns = types.SimpleNamespace(**A['opts'])
setattr(options, '__PARSED_ARGS', ns)
R = checker.RunInfo
setattr(checker, '__GOLDEN', R(*A['G'])); setattr(checker, '__GOLDEN_CC', R(*A['GCC']))
calls = []
def fake_execute(cmd, filename, timeout):
    calls.append((list(cmd), filename, timeout))
    return R(*A['r0']) if cmd == ['cmd'] else R(*A['r1'])
checker.execute = fake_execute
def ok(ignore, match, gs, rs):
    return bool(ignore or (match and rs is not None and match in rs)
                or (not match and gs == rs))
def mg(g, r, io, ie, mo, me):
    return g[0] == r[0] and ok(io, mo, g[1], r[1]) and ok(ie, me, g[2], r[2])
o = ns
want = mg(A['G'], A['r0'], o.ignore_output or o.ignore_out,
          o.ignore_output or o.ignore_err, o.match_out, o.match_err)
if want and o.cmd_cc:
    want = mg(A['GCC'], A['r1'], o.ignore_output_cc, o.ignore_output_cc,
              o.match_out_cc, o.match_err_cc)
try:
    got = checker.check('f.smt2')
except Exception as e:
    print('check raised', type(e).__name__, e, 'on', A); sys.exit(1)
print('input', A, 'calls', calls, 'got', got, 'documented rule gives', want)
bad = bool(got) != bool(want)
if calls and calls[0] != (['cmd'], 'f.smt2', 1.0): bad = True
if len(calls) > 1 and calls[1] != (['cc'], 'f.smt2', 2.0): bad = True
sys.exit(1 if bad else 0)
'''
    return {'script': script, 'input': A}


# -- execute(): invocation -----------------------------------------------------


def make_run_execute(with_prlimit):

    def run_execute(eng, p):
        chk = eng.load_module('ddsmt.checker')
        ns = env.symbolic_options(p)
        eng._ns = ns
        cmd = [mk.sstr(p, 'a0'), mk.sstr(p, 'a1')]
        fname = mk.sstr(p, 'filename')
        tmo = mk.opt_real(p, 'tmo')
        # time limits given to execute() are positive when present
        p.assume(z3.Or(tmo.is_none, tmo.val.z > 0))
        tag = 'prlimit' if with_prlimit else 'setrlimit'
        out = outcome(eng, chk.g['execute'], [cmd, fname, tmo])
        p.oblige(f'C09/execute[{tag}]/raises-nothing', out.kind == 'return',
                 info=repr(out))
        if out.kind != 'return':
            return
        procs = p.ghost.get('procs', [])
        unchecked = zb(ns.unchecked)
        if not procs:
            p.oblige(f'C09/execute[{tag}]/no-process-only-if-unchecked',
                     unchecked)
            r = out.value
            p.oblige(f'C09/execute[{tag}]/unchecked-record',
                     r.exit == 0 and r.out == 'unchecked' and
                     r.err == 'unchecked')
            return
        p.oblige(f'C09/execute[{tag}]/unchecked-runs-nothing',
                 z3.Not(unchecked))
        pr = procs[0]
        argv = pr.argv
        ok = (len(procs) == 1 and isinstance(argv, list) and
              len(argv) == 3 and argv[0] is cmd[0] and argv[1] is cmd[1] and
              argv[2] is fname)
        p.oblige(f'C09/execute[{tag}]/argv', ok, info=repr(argv))
        p.oblige(f'C09/execute[{tag}]/cmd-not-mutated',
                 len(cmd) == 2)
        # the record reports what the process did
        r = out.value
        timed_out = ('timeout', 0) in p.ghost.get('events', [])
        if timed_out:
            p.oblige(f'C09/execute[{tag}]/timeout-record',
                     r.out is None and r.err is None)
        else:
            p.oblige(f'C09/execute[{tag}]/record',
                     r.exit is pr.returncode and
                     isinstance(r.out, SStr) and isinstance(r.err, SStr) and
                     eng.truth(r.out == SStr([('v', z3.String('out0'))])) and
                     eng.truth(r.err == SStr([('v', z3.String('err0'))])))

    return run_execute


def replay_execute(name, model, detail):
    """Replay of a refuted execute() obligation whose failing input is a
    child that writes ill-formed UTF-8: the real execute() runs such a child.
    Other counter-models have no native replay (None)."""
    bad = [k for k in ('out0', 'err0')
           if model.get(f'valid_utf8_{k}', True) is False]
    if not bad or not name.endswith('/raises-nothing'):
        return None
    A = {'stream': bad[0], 'bytes': [0xff, 0xfe, 0x80]}
    script = f'''
import sys, types
sys.argv = ['ddsmt', 'in.smt2', 'out.smt2', 'cmd']
from ddsmt import checker, options
A = {A!r}
setattr(options, '__PARSED_ARGS',
        types.SimpleNamespace(unchecked=False, memout=0))
fd = 'stdout' if A['stream'] == 'out0' else 'stderr'
child = ('import sys; sys.' + fd + '.buffer.write(bytes(' +
         repr(A['bytes']) + '))')
try:
    r = checker.execute([sys.executable, '-c', child], '/dev/null', None)
except Exception as e:
    print('execute() raised', type(e).__name__, e,
          'for a child writing bytes', A['bytes'], 'to', fd)
    sys.exit(1)
print('execute() returned', r)
sys.exit(0)
'''
    return {'script': script, 'input': A}


# -- temp file name and check_exprs ---------------------------------------------


def setup_tmp(eng):
    import os
    import types
    setup(eng)
    EXT = z3.Function('splitext_ext', z3.StringSort(), z3.StringSort())
    eng._EXT = EXT

    osm = env.ModelNS()
    osp = env.ModelNS()

    def splitext(s):
        s = force(s)
        if isinstance(s, SStr):
            ext = SStr([('v', EXT(s.z))])
            return (mk.sstr(sym.cur(), 'root'), ext)
        return os.path.splitext(s)

    def join(a, *rest):
        out = a
        for b in rest:
            b = force(b)
            # second component is relative in ddSMT (starts with a literal)
            if isinstance(b, SStr) and not b._concrete_prefix():
                raise sym.Unsupported('os.path.join with opaque component')
            bs = b if isinstance(b, str) else b._concrete_prefix()
            if bs.startswith('/'):
                out = b
            elif sym.cur().decide(sym.zbool(
                    _ends_with_slash_or_empty(out))):
                out = out + b
            else:
                out = out + '/' + b
        return out

    def _ends_with_slash_or_empty(a):
        if isinstance(a, str):
            return a == '' or a.endswith('/')
        return sym.s_or(a.endswith('/'), a == '')

    osp.splitext = splitext
    osp.join = join
    osm.path = osp
    def pos(name):
        v = sym.cur().fresh_int(name)
        sym.cur().assume(v > 0)
        return SNum(v)

    osm.getpid = lambda: pos('getpid')
    eng.native_modules['os'] = osm

    tf = env.ModelNS()

    class TemporaryDirectory:

        def __init__(self, prefix=None, **k):
            p = sym.cur()
            self.name = mk.sstr(p, 'tmpdir')
            p.ghost['tmpdir_obj'] = self

        def cleanup(self):
            pass

    TemporaryDirectory.__module__ = 'contracts.env'
    tf.TemporaryDirectory = TemporaryDirectory
    eng.native_modules['tempfile'] = tf
    th = env.ModelNS()
    th.get_ident = lambda: pos('tid')
    eng.native_modules['threading'] = th


def run_tmpname(eng, p, P='C09'):
    eng.modules.pop('ddsmt.tmpfiles', None)
    tmp = eng.load_module('ddsmt.tmpfiles')
    ns = env.symbolic_options(p)
    eng._ns = ns
    o1 = outcome(eng, tmp.g['init'], [])
    o2 = outcome(eng, tmp.g['get_tmp_filename'], [])
    p.oblige(f'{P}/get_tmp_filename/raises-nothing',
             o1.kind == 'return' and o2.kind == 'return',
             info=repr((o1, o2)))
    if o2.kind != 'return':
        return
    name = o2.value
    ext = SStr([('v', eng._EXT(ns.infile.z))])
    p.oblige(f'{P}/get_tmp_filename/has-input-extension',
             isinstance(name, SStr) and name.endswith(ext))
    o3 = outcome(eng, tmp.g['get_tmp_filename'], [])
    td = p.ghost['tmpdir_obj']
    p.oblige(f'{P}/get_tmp_filename/inside-tmpdir',
             isinstance(name, SStr) and name.startswith(td.name))
    # process-private: the decimal renderings of os.getpid() and
    # threading.get_ident() are parts of the name, separated by literals
    nums = [str(t) for k, t in name.parts if k == 'n'] \
        if isinstance(name, SStr) else []
    p.oblige(f'{P}/get_tmp_filename/embeds-pid-and-thread-id',
             nums == ['getpid', 'tid'], info=repr(name))
    # a later call -- e.g. in a forked worker -- uses the pid / thread id of
    # *that* call (nothing is cached across calls)
    if o3.kind == 'return' and isinstance(o3.value, SStr):
        nums3 = [str(t) for k, t in o3.value.parts if k == 'n']
        p.oblige(f'{P}/get_tmp_filename/private-per-process-on-every-call',
                 nums3 == ['getpid!1', 'tid!1'],
                 info={'name': repr(o3.value), 'signature':
                       'candidate file name is not recomputed per process'})


def run_check_exprs(eng, p):
    chk = eng.load_module('ddsmt.checker')
    ns = env.symbolic_options(p)
    eng._ns = ns
    log = []
    fname = mk.sstr(p, 'tmpname')
    verdict = mk.sbool(p, 'verdict')
    exprs = object()
    eng.overrides['ddsmt.tmpfiles.get_tmp_filename'] = \
        lambda e: (log.append(('name', )), fname)[1]
    eng.overrides['ddsmt.nodeio.write_smtlib_for_checking'] = \
        lambda e, f, x: log.append(('write', f, x))
    eng.overrides['ddsmt.checker.check'] = \
        lambda e, f: (log.append(('check', f)), verdict)[1]
    out = outcome(eng, chk.g['check_exprs'], [exprs])
    p.oblige('C09/check_exprs/raises-nothing', out.kind == 'return',
             info=repr(out))
    if out.kind != 'return':
        return
    p.oblige('C09/check_exprs/writes-then-checks-same-file',
             log == [('name', ), ('write', fname, exprs), ('check', fname)])
    p.oblige('C09/check_exprs/returns-verdict', out.value is verdict)


def contracts(tier):
    A = [env.ASSUME_OPTIONS]
    return [
        Contract('C09/matches_golden', ['ddsmt.checker.matches_golden'],
                 run_matches_golden, setup=setup, assumptions=A,
                 replay=replay_matches_golden),
        Contract('C09/check', ['ddsmt.checker.check'], run_check,
                 setup=setup, replay=replay_check, assumptions=A + [
                     'matches_golden used through its contract '
                     'C09/matches_golden/post; execute() abstracted: returns '
                     'an arbitrary record'
                 ]),
        Contract('C09/execute[prlimit]', ['ddsmt.checker.execute',
                                          'ddsmt.checker.limit_resources'],
                 make_run_execute(True), setup=setup, replay=replay_execute,
                 assumptions=A + [env.ASSUME_SUBPROCESS, env.ASSUME_RESOURCE,
                                  env.ASSUME_TIME,
                                  'cmd has two elements (list concatenation '
                                  'is length-generic in Python)']),
        Contract('C09/execute[setrlimit]', ['ddsmt.checker.execute',
                                            'ddsmt.checker.limit_resources'],
                 make_run_execute(False),
                 setup=lambda e: setup(e, False), replay=replay_execute,
                 assumptions=A + [env.ASSUME_SUBPROCESS, env.ASSUME_RESOURCE,
                                  env.ASSUME_TIME]),
        Contract('C09/get_tmp_filename', ['ddsmt.tmpfiles.init',
                                          'ddsmt.tmpfiles.get_tmp_filename'],
                 run_tmpname, setup=setup_tmp,
                 assumptions=A + [
                     'os.path.splitext(p)[1] is a function of p '
                     '(uninterpreted); os.path.join(a, rel) == a + "/" + rel '
                     '(or a + rel when a ends with "/"); '
                     'tempfile.TemporaryDirectory().name is a directory path'
                 ]),
        Contract('C09/check_exprs', ['ddsmt.checker.check_exprs'],
                 run_check_exprs, setup=setup, assumptions=A),
    ]
