SETUP = 'python3-vt -B -m pyvc.selfcheck --fast'
HOOKS = {
    'guard': 'DDSMT_VERIF',
    'enable': 'no hooks: contracts are sidecar files under /verif/contracts keyed by qualified function name; /repo sources are re-read and interpreted on every run, never edited',
    'baseline_off_cmd': 'cd /repo && /venv/bin/python -m pytest -q -p no:cacheprovider --timeout=900',
    'source_commits': [],
    'add_only': True,
}
ENGINES = [{
    'name': 'pyvc',
    'path': 'pyvc/',
    'serves_properties': [],
    'kind_free_text': 'self-built verification-condition generator: AST interpreter of the real /repo/ddsmt sources with symbolic values (z3 Int/Real/Bool/String), path-wise weakest-precondition style obligations against sidecar contracts, loop invariants, callee contracts at call sites; obligations discharged by z3 5.1 (cvc5 1.0.3 for z3 unknowns). Bounded stand-ins (native run-time contracts over enumerated domains) are reported separately and never counted as proved.',
}]
NOTES = 'Exit codes of ./check: 0 held, 1 violation (VIOLATION line), 2 undecided (solver unknown / unsupported construct / spurious counterexample, no VIOLATION line), 3 checker problem. Genuine defects repaired in /repo are listed in known_findings.json under "fixed".'
NOT_APPLICABLE = {}
CHECKS = {
    'C09': {
        'category': 'proof',
        'text': 'All obligations are discharged by z3 for every value of the exit codes, streams (text or None), match strings, ignore flags, cross-check options: matches_golden() returns exactly the documented rule, check() wires options/golden records/cross check as documented (callee matches_golden used through its contract), execute() starts cmd+[file] exactly once unless --unchecked, get_tmp_filename() keeps the input extension and is process-private. Loop-free code, so the proof is complete, not bounded.',
        'note': 'Assumed: argparse gives option attributes their declared types; subprocess.Popen starts argv as given; os.path.splitext/join modelled (uninterpreted extension function); an empty match string counts as absent; floats as reals.',
        'technique': 'contract-based deductive verification: path-wise VCs from the real AST, z3',
    },
    'C10': {
        'category': 'proof',
        'text': 'Wiring proved for all option values, outcomes and both limit mechanisms (prlimit / preexec setrlimit): execute() hands the time limit to communicate(), kills the child on TimeoutExpired and performs no blocking call afterwards, records (returncode, None, None, limit); RLIMIT_AS = memout*2^20 iff --memout, RLIMIT_CPU = ceil(timeout) iff a time limit, both applied to the child; matches_golden() rejects a timed-out record and any record with another exit status against a finished golden run; do_golden_runs() derives round((runtime+1)*1.5, 2) when no --timeout is given, records the golden records from the input file and raises SystemExit(1) exactly when a configured match string is absent from the golden output. That the OS enforces the limits is assumed, not proved.',
        'note': 'Assumed (listed in evidence): kernel enforcement of rlimits, SIGKILL delivery and reaping, communicate(timeout) returning within the limit, floats as reals, round(x,2) within 0.005, execute() abstracted in do_golden_runs. Total-running-time bound follows from these assumptions per call; it is a lemma over call counts, not measured.',
        'technique': 'contract-based deductive verification: path-wise VCs from the real AST with environment contracts for subprocess/resource, z3',
    },
    'C04': {
        'category': 'proof',
        'text': 'Exception-freedom is proved with lazy symbolic s-expression nodes (any shape, any arity, any leaf text) for the five is_relevant() functions, for collect_information() (loops over commands / sub-terms / children verified for an arbitrary element with havocked symbol tables) and for get_sort() with an adversarial _get_sort_aux; containment of mutator failures in ddmin task generation is checked with adversarial mutators; __main__.main() maps each ending to the documented return value and one diagnostic line; bin/ddsmt exits with that value. Parts that unroll a comprehension over children are labelled bounded (arity <= 6) in the evidence and not counted as proved.',
        'note': 'Not yet under contract (work in progress): parse_smtlib, writers, auto_detect_theories wiring, Producer/Consumer containment. Assumed: Node.__eq__/__hash__ contract (C12), leaf texts non-empty, nodes.contains contract, logging calls dropped (arguments not evaluated).',
        'technique': 'contract-based deductive verification: path-wise VCs from the real AST over lazy symbolic trees (z3 datatype+sequence theory), adversarial callee models',
    },
    'C11': {
        'category': 'exploration',
        'text': 'Bounded: the real nodes.substitute is run on every forest with <= 4 nodes (5 thorough) for every choice of <= 2 identity keys, one structural key and five replacement forms (incl. replacements containing their key, deletions, top-level positions, single-Node arguments) under a run-time contract: result equals a recursive reference substitution that never looks inside a replacement, the argument is not modified, untouched subtrees are the same objects, it terminates. Symbolic contracts (contents unbounded, list length bounded): introduce_variables inserts the declarations, by identity, right after the maximal set-info/set-logic prefix and does not modify its argument; apply_simp wires substitute/introduce_variables as documented (inserts only if something changed).',
        'note': 'Decisive part for substitute is bounded (shape <= 4/5 nodes, alphabet {a,b}), never counted as proved. introduce_variables is proved for arbitrary commands but lists of <= 3 (5) commands. Node.__eq__ used through its contract.',
        'technique': 'run-time contracts on the real function over an exhaustively enumerated domain (bounded stand-in) + path-wise VCs (z3) for introduce_variables/apply_simp',
    },
    'C12': {
        'category': 'exploration',
        'text': 'The real Node.__eq__/__hash__ are executed symbolically on every pair of tree shapes with <= 4 nodes each (5 thorough) with symbolic ids, symbolic leaf texts and uninterpreted hash functions, i.e. including hash collisions between different structures and shared ids, and shown to agree with structural equality; binary_search is proved for all input lengths (bounds, no division by zero, ranking function) with loop invariants; deepcopy, pickling in-process and through a fork pool, dfs/bfs/count_*/filter_nodes are checked natively against nested-list references on all trees/forests up to 5-7 nodes.',
        'note': 'Shape-bounded, content-unbounded for equality; copy/pickle/traversal bounded natively. Assumed: class invariant hash == hash(data) for operands, fork start method (shared id counter and hash seed), ids < 2**31, floats as reals in binary_search.',
        'technique': 'shape-bounded symbolic execution of the real methods against a structural contract (z3) + bounded native run-time contracts; loop-invariant proof for binary_search',
    },
    'C13': {
        'category': 'exploration',
        'text': 'The real nodes.reduplicate is run on every DAG obtained from a forest with <= 6 nodes (7 thorough) by sharing one object at any set of structurally equal positions (incl. shared empty lists, whole shared trees) under a run-time contract: ids pairwise distinct over positions afterwards, rendered tokens unchanged, argument not modified, nodes that were already unique are the same objects.',
        'note': 'reduplicate itself: bounded stand-in. Call-site obligations are proved on the real strategy code with abstract inputs: TREE(input) holds at every Producer(...) and TaskGenerator(...) construction, for the list ddmin hands to hierarchical, and is re-established by reduplicate after every adoption (loop invariants, all schedules). Assumed: parser output is a tree (fresh constructor calls), pool/event contracts.',
        'technique': 'run-time contract on the real function over an enumerated domain (bounded) + loop-invariant VCs (z3) for the call sites',
    },
    'C01': {
        'category': 'proof',
        'text': 'The real reduce functions of both strategies, _check_seq/_check_par, _apply_mutator, _worker, Consumer.check, Producer.generate and cli.ddsmt_main are interpreted with abstract inputs (uninterpreted sort with ghost functions FLAT/ACC/AS/REDUP) and loop invariants; every result delivered by the pool is an arbitrary value satisfying the worker contract, so all completion orders and -j values are covered. Discharged: every call of write_smtlib_to_file writes a list the command accepted, to the output file only; the returned list is the last one written (or the input if nothing was written); workers report success only for the very list check_exprs accepted; the input file is only opened for reading; hybrid hands ddmin\'s result to hierarchical. The final lemma (file tokens == FLAT(c), ACC(FLAT(c)), deterministic command => matches golden) is a z3 lemma over these. A scripted-pool harness runs the real code natively as bounded cross-check and replay vehicle.',
        'note': 'Assumed: multiprocessing pool/event/pickle contracts, renderers emit FLAT(x) (C07, bounded there), check_exprs true only for accepted token sequences (C09 proves the rule and that the checked file is the written one), command deterministic on token sequences.',
        'technique': 'contract-based deductive verification: loop invariants + ghost state on the real strategy code, callee contracts at call sites, z3; native scripted-pool harness as bounded stand-in',
    },
    'C02': {
        'category': 'proof',
        'text': 'On the real strategy_hierarchical.reduce (loop invariants, all schedules by havocked results and flag reads): a pass is left (break) only at a point where the flag was never set during the sweep, the sweep started at node 0 and the input is the one the Producer was built from, which under the pool/producer/consumer contracts means every proposal of the pass was generated, checked and genuinely rejected; the returned input is the one the last pass ended on. The contracts used there are verified separately: Consumer.check returns the command\'s verdict whenever the flag is not seen set and reports aborted results as failures without runtime; Producer.generate yields exactly every proposal of every mutator for every BFS position > skip when the flag is clear, contains mutator failures, and every task carries the base (scripted mutators, inputs <= 3 nodes: shape-bounded part).',
        'note': 'Assumed: imap_unordered ends only after every submitted task reported; Event semantics; last pass contains every enabled mutator is C14\'s claim. Producer.generate completeness is shape-bounded (tier S), the bookkeeping proof on reduce is unbounded. Prelude passes are not claimed to be subsumed by the last pass (BinaryReduction with ident=assert is deliberately different).',
        'technique': 'contract-based deductive verification: loop invariants on the real reduce(), worker/producer contracts checked on the real methods, z3; scripted-pool native harness enumerating schedules as bounded stand-in',
    },
    'C05': {
        'category': 'proof',
        'text': 'Ghost chain over both strategies: at every write the written list is the accepted candidate, the candidate equals AS(base, sigma) for a task of the current batch/sweep, and the tokens of that base are the previously written tokens (or the input); a second success of the same sweep/batch, or one arriving after the flag/skip was set, cannot be adopted (the obligation base-is-chain-predecessor fails otherwise); ddmin restarts a batch only after the generator was updated; tasks generated by the feeder thread after an update are covered (base = new input, result discarded); workers and producers never write the abort flag; hybrid continues the chain. All completion orders by havoc.',
        'note': 'Assumed: pool/event/pickle contracts (listed in evidence). Bounded cross-check: scripted pool exploring pull/run/deliver interleavings with stale flag views on 5 inputs x 6 commands.',
        'technique': 'contract-based deductive verification: loop invariants + ghost chain state on the real code, z3; native scripted-pool harness as bounded stand-in',
    },
    'C06': {
        'category': 'proof',
        'text': 'The real write_smtlib_to_file/write_smtlib are interpreted over a ghost file system in which every effect (open-truncate, each write, replace, unlink) is a possible crash / observation point: discharged for the three output modes that the content visible under the output path is the old content or the complete rendering after every effect, that the final content is the rendering, that the input file is untouched and only a sibling temporary in the same directory is used and none is left behind. __main__.main\'s KeyboardInterrupt/MemoryError handlers perform no file-system effect; static obligations: no os._exit in the sources, the TemporaryDirectory object is owned by a module global assigned only in init(), no new open(...,\'w\') site. With C01/C05 (old content is an accepted input from the first write on) this gives the property. Native stand-in: KeyboardInterrupt injected at every low-level write, and a concurrent reader during 200 rewrites.',
        'note': 'Assumed: POSIX atomic rename within a directory, TemporaryDirectory finaliser at interpreter exit, unbuffered visibility model (stronger than reality), signals inside multiprocessing internals leave no child writing the output file (workers never write it). The rendering uses one concrete input of two commands: the protocol does not depend on the content.',
        'technique': 'contract-based deductive verification: crash-point invariant over a ghost file-system model of the real function, z3/structural; native interrupt injection as bounded stand-in',
    },
    'C07': {
        'category': 'exploration',
        'text': 'Bounded: every forest of <= 2 trees with <= 5 nodes (6 thorough) whose leaves range over 12 lexemes chosen for the boundaries the property names (100-character token, hyphenated token, literals containing space, doubled quote, parenthesis, semicolon; quoted symbols with space and newline; comment; #b literal; keyword), plus 8 wide inputs that force line wrapping, is rendered by the four real renderers; each rendering is tokenised by an independent reference SMT-LIB reader and must equal the flat token sequence of the input, and is re-parsed by ddSMT and must be structurally the input.',
        'note': 'Bounded stand-in only: the renderers are explicit-stack loops and the scanner a character loop; an unbounded proof needs a forest-recursive specification plus induction outside what z3 does unprompted (DESIGN section 4). Not counted as proved.',
        'technique': 'run-time contracts on the real renderers/parser over an exhaustively enumerated domain against a reference reader (bounded stand-in)',
    },
    'C08': {
        'category': 'exploration',
        'text': 'Bounded, exhaustive: every string of length <= 6 (7 thorough) over 11 representative characters - one per lexical class the scanner distinguishes, two for ordinary token characters - that is a balanced, complete and separated lexeme sequence for the reference reader is parsed by the real parser and compared (structure and token texts, comments as leaves); the parser must raise nothing on any of the ~2 million strings. That one representative per class suffices is a mechanically checked obligation on the AST of parse_smtlib (every branch condition tests the current character against literal character sets covered by the alphabet, or positions / emptiness flags).',
        'note': 'Length bound 6/7; the finite-state argument that disagreements show on short strings is stated, not machine-checked. Domain: lexemes separated by white space except next to parentheses and before comments.',
        'technique': 'exhaustive bounded comparison of the real parser with a reference reader + mechanically checked class-abstraction obligation on the AST',
    },
    'C14': {
        'category': 'proof',
        'text': 'Step contracts, on a namespace whose ~70 attributes hold arbitrary symbolic prior values: ToggleAction sets exactly its destination to not-negated, TheoryToggleAction sets its group attribute and exactly the mutator attributes of its group, DisableAllTheoriesAction sets every group and mutator attribute to false; nothing else changes (frame). Registry obligations on the real registries: destinations pairwise distinct, every registered class exists, every mutator has an option registered by collect_mutator_options with default true (so the permissive getattr(..., True) default of get_mutators is never taken). get_mutators: for every registered name, an instance of exactly that class is returned iff its (symbolic) flag is set; lists are concatenations; unknown names yield nothing. auto_detect_theories per group: disables the group iff it was unset, has is_relevant, and is_relevant is false on every top-level node; other groups untouched. Pass construction: ddmin passes contain exactly the enabled mutators minus BinaryReduction, the last hierarchical pass exactly the enabled ones (default-constructed), no pass uses a disabled one - checked on the configurations all-on, all-off, each single flag off/on (shape-bounded part, flags act independently by the get_mutators contract).',
        'note': 'Assumed: argparse applies actions left to right (then the value of an option is the one written by the last option touching it, by induction over the step contracts); cross-checked natively through the real argparse on all single options, 182 ordered pairs and random sequences.',
        'technique': 'contract-based deductive verification: step contracts with frame conditions on symbolic namespaces, registry obligations, z3; native argparse harness as bounded stand-in',
    },
    'C16': {
        'category': 'proof',
        'text': 'For each of 157 operator / constant schemas of a typing table written from the SMT-LIB theory definitions (Core, Ints, Reals, bit-vectors incl. all indexed operators, FloatingPoint, Strings, ArraysEx) a schematic term with opaque well-sorted operands (lazy symbolic nodes, symbolic widths and indices) is built, and the real _get_sort_aux / get_bv_width are executed on it; recursive calls on operands are answered by the contract itself (unknown, or the true sort/width - both explored), which is structural induction over terms. Discharged by z3: the result is unknown or exactly the sort / width of the table (linear integer arithmetic over widths and indices; one named product for repeat). get_default_constants returns constants of the requested sort. A typed term generator over the same table runs the real collect_information + get_sort + get_bv_width natively on well-sorted scripts (bounded stand-in and source of concrete counterexamples).',
        'note': 'The typing table is the specification (trusted). n-ary operators at arities 2 and 3; user-defined functions, datatypes, let and quantifier binders are covered only through the table-lookup schemas (variable of declared sort) - the construction of the tables by collect_information for let/quantifier binders is not under contract yet. Node.__eq__ used through its contract.',
        'technique': 'contract-based deductive verification: per-schema VCs from the real AST with inductive contracts for recursive calls, z3; native typed-term generator as bounded stand-in',
    },
    'C17': {
        'category': 'proof',
        'text': 'Proved by z3 for every operand, width, index and environment: schematic accepted instances (opaque well-sorted operands, symbolic widths / indices / constant values) are pushed through the real filter and mutations of BoolDoubleNegation, BoolDeMorgan (arities 1-4), BoolEliminateFalseEquality (both orders), BoolXOREliminateBinary, BoolEliminateImplication, BoolNegateQuantifier (body an uninterpreted predicate), ArithmeticNegateRelation (six relations, Int and Real), BVDoubleNegation, BVReflexiveNand, BVIteToBVComp, BVElimBVComp, BvMergeExtend (chains of 2 and 3), BVExtractZeroExtend (all three index cases) and BVEvalExtend on (_ bvN w); both sides are denoted in z3 and shown to have equal sort and value; a cover obligation per schema guards against vacuity. Bounded (native evaluator, widths <= 4/5, all constants in the three notations, all indices, all assignments): BVNormalizeConstants, BVEvalExtend, BVExtractConstants, BVMergeReducedBW, InlineDefinedFuns (actuals mentioning formal names), LetSubstitution, RemoveDatatypeIdentity, FPShortSort and again every rewrite above.',
        'note': 'The denotation (contracts/c17.py Den, harness/smt_eval.py) is the specification. Bit-vector laws used as axioms in the symbolic part (involution of bvnot/bvneg, idempotence of bvand, composition of sign extension, extraction from a value that fits in fewer bits) are validated exhaustively for small widths, not proved. Bit-string constant evaluation and inlining/let substitution are bounded, not proved (value preservation of inlining rests on C11 substitute, bounded there). BVZeroExtendPredicate on signed predicates is outside the anchored list.',
        'technique': 'contract-based deductive verification: per-rewrite VCs from the real AST with a z3 denotation; native SMT-LIB evaluator as bounded stand-in',
    },
}
