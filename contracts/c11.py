"""C11 -- applying a simplification changes exactly the designated subtrees.

introduce_variables / apply_simp: symbolic contracts (commands are lazy
symbolic nodes; list length bounded).  substitute: bounded native run-time
contracts against a recursive reference (harness/nodes_native.py).
"""
import z3

from pyvc import mk, sym
from pyvc.api import Contract, NativeCheck, outcome
from pyvc.interp import LoopSpec
from pyvc.sym import SBool, SNum, SStr, mk_bool
from . import env, nodemodel as nm
from .nodemodel import Struct

PROPERTY = 'C11'


def setup(eng):
    env.static_options(eng)
    nm.install(eng)
    nm.use_eq_contract(eng)


def is_header(s):
    """z3: the command is (set-info ...) or (set-logic ...)"""
    k0 = Struct.kids(s)[0]
    return z3.And(
        Struct.is_tup(s), z3.Length(Struct.kids(s)) >= 1,
        Struct.is_leaf(k0),
        z3.Or(Struct.text(k0) == z3.StringVal('set-info'),
              Struct.text(k0) == z3.StringVal('set-logic')))


def make_run_intro(k, nvars):

    def run(eng, p):
        sm = eng.load_module('ddsmt.smtlib')
        exprs = [nm.lazy_node(eng, p, f'e{i}') for i in range(k)]
        orig = list(exprs)
        vars_ = [nm.lazy_node(eng, p, f'v{i}') for i in range(nvars)]
        out = outcome(eng, sm.g['introduce_variables'], [exprs, vars_])
        N = 'C11/introduce_variables'
        p.oblige(f'{N}/raises-nothing', out.kind == 'return', info=repr(out))
        if out.kind != 'return':
            return
        res = out.value
        p.oblige(f'{N}/argument-not-modified',
                 len(exprs) == k and all(a is b for a, b in zip(exprs, orig)))
        ok = isinstance(res, list) and len(res) == k + nvars
        p.oblige(f'{N}/result-length', ok)
        if not ok:
            return
        # find the insertion point (by identity of the inserted commands)
        pos = None
        for i in range(k + 1):
            if all(res[i + j] is vars_[j] for j in range(nvars)) and \
                    all(res[j] is orig[j] for j in range(i)) and \
                    all(res[i + nvars + j] is orig[i + j]
                        for j in range(k - i)):
                pos = i
                break
        p.oblige(f'{N}/is-an-insertion-of-vars', pos is not None)
        if pos is None or nvars == 0:
            return
        # ... after the maximal set-info/set-logic prefix, i.e. before the
        # first other command (hence before every use)
        pre = z3.And(*[is_header(nm.S(orig[j])) for j in range(pos)]) \
            if pos else z3.BoolVal(True)
        stop = z3.Not(is_header(nm.S(orig[pos]))) if pos < k \
            else z3.BoolVal(True)
        p.oblige(f'{N}/after-header-prefix', z3.And(pre, stop),
                 info={'pos': pos, 'signature': 'declarations not placed '
                       'right after the set-info/set-logic prefix'})

    return run


def run_apply_simp(eng, p):
    mu = eng.load_module('ddsmt.mutator_utils')
    S = mu.g['Simplification']
    exprs = [nm.lazy_node(eng, p, 'e0'), nm.lazy_node(eng, p, 'e1')]
    nvars = p.choose(2, 'nvars')
    vars_ = [nm.lazy_node(eng, p, 'v0')] if nvars else []
    changed = p.decide(p.fresh_bool('substitution_changes_something'))
    new_list = [nm.lazy_node(eng, p, 'm0')]
    calls = []

    def substitute(e, ex, repl):
        calls.append((ex, repl))
        return new_list if changed else ex

    intro = []

    def introduce(e, ex, vs):
        intro.append((ex, vs))
        return ['<introduced>']

    eng.overrides['ddsmt.nodes.substitute'] = substitute
    eng.overrides['ddsmt.smtlib.introduce_variables'] = introduce
    substs = {1: None}
    simp = eng.call(S, [substs, vars_], {})
    out = outcome(eng, mu.g['apply_simp'], [exprs, simp])
    N = 'C11/apply_simp'
    p.oblige(f'{N}/raises-nothing', out.kind == 'return', info=repr(out))
    if out.kind != 'return':
        return
    p.oblige(f'{N}/substitutes-the-given-map-once',
             len(calls) == 1 and calls[0][0] is exprs and
             calls[0][1] is simp.substs)
    if not changed:
        p.oblige(f'{N}/unchanged-input-returned-as-is',
                 out.value is exprs and not intro)
    elif nvars:
        p.oblige(f'{N}/declarations-inserted-into-result',
                 len(intro) == 1 and intro[0][0] is new_list and
                 intro[0][1] is vars_ and out.value == ['<introduced>'])
    else:
        p.oblige(f'{N}/no-declarations-no-insertion',
                 out.value is new_list and not intro)


# -- introduce_variables on a list of any length -------------------------------------

IV = 'ddsmt.smtlib.introduce_variables'


def setup_iv(eng):
    from . import worklist as wl
    wl.pre_install(eng)
    setup(eng)
    wl.install(eng)
    eng.spec_required.add(IV)
    S_ = nm.Struct

    def prelude(s):
        """s is a (set-info ...) / (set-logic ...) command"""
        k = S_.kids(s)
        return z3.And(S_.is_tup(s), z3.Length(k) > 0,
                      S_.is_leaf(k[0]),
                      z3.Or(S_.text(k[0]) == z3.StringVal('set-info'),
                            S_.text(k[0]) == z3.StringVal('set-logic')))

    eng._prelude = prelude

    def havoc(e, env_, p):
        env_.vars['pos'] = SNum(p.fresh_int('pos'))
        # the loop is left (exit or break) with this value: the witness of
        # the postcondition
        p.ghost['pos'] = env_.vars['pos'].z

    def inv(e, env_):
        p = sym.cur()
        F = p.ghost['F']
        pos = sym._znum(env_.vars['pos'])
        i = z3.Int('i!iv')
        return [z3.And(pos >= 0, pos <= z3.Length(F)),
                ('C11', z3.ForAll([i], z3.Implies(
                    z3.And(0 <= i, i < pos), prelude(F[i]))))]

    eng.loop_specs[(IV, 'while pos < len(exprs)')] = LoopSpec(
        inv=inv, havoc={'effect:state': havoc}, sets=('pos', ),
        decreases=lambda e, env_: SNum(
            z3.Length(sym.cur().ghost['F']) - sym._znum(env_.vars['pos'])))


def run_iv(eng, p):
    from . import worklist as wl
    sm = eng.load_module('ddsmt.smtlib')
    exprs, F = wl.forest(eng, p, 'F')
    decls, V = wl.forest(eng, p, 'V')
    p.ghost['F'] = F
    out = outcome(eng, sm.g['introduce_variables'], [exprs, decls])
    N = 'C11/introduce_variables'
    p.oblige(f'{N}/raises-nothing', out.kind == 'return', info=repr(out))
    if out.kind != 'return':
        return
    r = out.value
    ok = isinstance(r, wl.AbsList)
    p.oblige(f'{N}/returns-a-list', ok)
    if not ok:
        return
    R = eng.whole_seq(eng, r)
    k = p.ghost['pos']
    i = z3.Int('i!iv2')
    n = z3.Length(F)
    pre = eng._prelude
    # there is a position k: the result is F[:k] ++ decls ++ F[k:], all of
    # F[:k] are set-info / set-logic commands and F[k] (if any) is not
    p.oblige(f'{N}/declarations-inserted-right-after-the-prelude',
             mk_bool(z3.And(
                 0 <= k, k <= n,
                 R == z3.Concat(z3.SubSeq(F, 0, k), V,
                                z3.SubSeq(F, k, n - k)),
                 z3.ForAll([i], z3.Implies(z3.And(0 <= i, i < k),
                                           pre(F[i]))),
                 z3.Or(k == n, z3.Not(pre(F[k]))))),
             info={'signature': 'the declarations are not inserted exactly '
                   'after the maximal set-info / set-logic prefix, or '
                   'something else changed'})
    p.oblige(f'{N}/argument-not-modified',
             len(exprs.parts) == 1 and z3.eq(exprs.parts[0].seq, F))
    # C15: nothing that could use a symbol (anything but set-info /
    # set-logic) comes before the declarations
    p.oblige('C15/introduce_variables/declarations-precede-every-command-'
             'that-could-use-them',
             mk_bool(z3.And(
                 0 <= k, k <= n,
                 z3.PrefixOf(z3.Concat(z3.SubSeq(F, 0, k), V), R),
                 z3.ForAll([i], z3.Implies(z3.And(0 <= i, i < k),
                                           pre(F[i]))))),
             info={'signature': 'a declaration is inserted behind a command '
                   'that is not a set-info / set-logic command'})


def contracts(tier):
    from . import rebuild
    kmax = 5 if tier == 'thorough' else 3
    cs = list(rebuild.substitute_contracts(tier))
    cs.append(Contract('introduce_variables[any list]', [IV], run_iv,
                       setup=setup_iv, assumptions=[
                           nm.ASSUME_LAZY, 'the lists of commands and of '
                           'declarations are abstract lists of arbitrary '
                           'length (contracts/worklist.py): indexing checks '
                           'the bounds, slices and + per Python semantics']))
    for k in range(0, kmax + 1):
        for nv in (0, 1, 2):
            cs.append(
                Contract(f'C11/introduce_variables[{k} commands,{nv} decls]',
                         ['ddsmt.smtlib.introduce_variables'],
                         make_run_intro(k, nv), setup=setup, tier='S',
                         bound=f'lists of <= {kmax} commands; the commands '
                         'themselves are arbitrary (lazy symbolic nodes)',
                         assumptions=[nm.ASSUME_LAZY, nm.ASSUME_EQ_CONTRACT]))
    cs.append(
        Contract('C11/apply_simp', ['ddsmt.mutator_utils.apply_simp'],
                 run_apply_simp, setup=setup,
                 assumptions=['nodes.substitute and '
                              'smtlib.introduce_variables used through their '
                              'contracts (C11/native/substitute, '
                              'C11/introduce_variables)']))
    cs.extend(substitute_contracts(tier))
    return cs


def native_checks(tier):
    t = tier == 'thorough'
    S = 'harness/nodes_native.py'
    return [
        NativeCheck('C11/native/substitute', ['ddsmt.nodes.substitute'], S,
                    ['substitute', 5 if t else 4],
                    bound=f'forests <= {5 if t else 4} nodes, <= 2 identity '
                    'keys + 1 structural key, 5 replacement forms'),
        NativeCheck('C11/native/apply_simp',
                    ['ddsmt.mutator_utils.apply_simp',
                     'ddsmt.smtlib.introduce_variables'], S,
                    ['apply_simp', 4 if t else 3],
                    bound='command lists <= 4'),
    ]


# ---------------------------------------------------------------------------
# nodes.substitute, tier S: every forest shape up to a bound, symbolic ids,
# hashes (collisions allowed) and leaf texts, against the reference
# substitution (replace / delete the designated nodes, never look inside a
# replacement, keep untouched subtrees as they are)

import itertools  # noqa: E402

from pyvc.interp import ObjVal, SymDict, PyRaise  # noqa: E402
from . import c12  # noqa: E402


def forest_shapes(maxn, max_trees=2):
    out = [[]]
    for k in range(1, max_trees + 1):
        for parts in itertools.product(range(1, maxn + 1), repeat=k):
            if sum(parts) > maxn:
                continue
            for combo in itertools.product(*[list(c12.shapes(n))
                                             for n in parts]):
                out.append(list(combo))
    return out


def build_forest(eng, p, shapes_):
    trees = []
    allnodes = []
    for i, sh in enumerate(shapes_):
        t = c12.Shaped(eng, p, sh, f't{i}')
        trees.append(t.root)
        allnodes.extend(t.nodes)
    # a tree: ids pairwise distinct
    for (x, _), (y, _) in itertools.combinations(allnodes, 2):
        p.assume(x.attrs['id'].z != y.attrs['id'].z)
    return trees, allnodes


REPL_FORMS = ['delete', 'leaf', 'tree-with-key']


def make_replacement(eng, p, form, tag, keytext):
    if form == 'delete':
        return None, None
    if form == 'leaf':
        r = c12.Shaped(eng, p, None, f'r{tag}')
        return r.root, r.nodes
    # (g <leaf with the text of the structural key / a fresh text>)
    r = c12.Shaped(eng, p, [None, None], f'r{tag}')
    if keytext is not None:
        p.assume(r.nodes[1][0].attrs['data'].z == keytext)
    return r.root, r.nodes


def make_run_subst(shapes_, id_pos, id_form, with_skey, s_form):

    def run(eng, p):
        nodes_mod = eng.load_module('ddsmt.nodes')
        eng.max_steps = eng.steps + 60000
        trees, allnodes = build_forest(eng, p, shapes_)
        repl = SymDict()
        designated = {}
        skey = None
        keytext = None
        if with_skey:
            k = c12.Shaped(eng, p, None, 'key')
            skey = k.root
            keytext = skey.attrs['data'].z
        sk_repl = None
        extra_nodes = []
        if id_pos is not None:
            tgt = allnodes[id_pos][0]
            r, rn = make_replacement(eng, p, id_form, 'i', keytext)
            repl.set(eng, tgt.attrs['id'], r)
            designated[id(tgt)] = ('id', r)
            extra_nodes += rn or []
        if with_skey:
            sk_repl, rn = make_replacement(eng, p, s_form, 's', keytext)
            repl.set(eng, skey, sk_repl)
            extra_nodes += rn or []
            extra_nodes += k.nodes
        # ids of all nodes involved are pairwise distinct
        for (x, _), (y, _) in itertools.product(allnodes, extra_nodes):
            p.assume(x.attrs['id'].z != y.attrs['id'].z)
        for (x, _), (y, _) in itertools.combinations(extra_nodes, 2):
            p.assume(x.attrs['id'].z != y.attrs['id'].z)
        snapshot = [(n, n.attrs['data'], n.attrs['id']) for n, _ in allnodes]
        N = 'C11/substitute'
        try:
            out = outcome(eng, nodes_mod.g['substitute'], [trees, repl])
        except sym.Unsupported as u:
            if 'step budget' in str(u):
                p.oblige(f'{N}/terminates', False,
                         info={'signature': 'substitute does not terminate',
                               'shapes': repr(shapes_)})
                return
            raise
        p.oblige(f'{N}/terminates', True)
        p.oblige(f'{N}/raises-nothing', out.kind == 'return',
                 info=repr(out))
        if out.kind != 'return':
            return
        p.oblige(f'{N}/argument-not-modified',
                 all(n.attrs['data'] is d and n.attrs['id'] is i
                     for n, d, i in snapshot) and len(trees) == len(shapes_))

        # reference, evaluated under the path condition
        def matches_key(n, sh):
            if skey is None:
                return False
            return eng.truth(mk_bool(c12.struct_eq(n, sh, skey, None)))

        def ref(items):
            res = []
            changed = False
            for n, sh in items:
                if id(n) in designated:
                    r = designated[id(n)][1]
                    changed = True
                    if r is not None:
                        res.append(('given', r))
                    continue
                if matches_key(n, sh):
                    changed = True
                    if sk_repl is not None:
                        res.append(('given', sk_repl))
                    continue
                if sh is None:
                    res.append(('same', n))
                    continue
                sub, ch = ref(list(zip(n.attrs['data'], sh)))
                if ch:
                    changed = True
                    res.append(('new', sub))
                else:
                    res.append(('same', n))
            return res, changed

        want, changed = ref(list(zip(trees, shapes_)))

        def agrees(w, got):
            if not isinstance(got, (list, tuple)) or len(got) != len(w):
                return False
            for (kind, v), g in zip(w, got):
                if kind == 'same':
                    if g is not v:
                        return False
                elif kind == 'given':
                    # the replacement as given: the same structure
                    if not isinstance(g, ObjVal):
                        return False
                    if g is not v and not same_text(g, v):
                        return False
                else:
                    if not isinstance(g, ObjVal) or isinstance(
                            g.attrs['data'], (str, SStr)):
                        return False
                    if not agrees(v, list(g.attrs['data'])):
                        return False
            return True

        def same_text(a, b):
            da, db = a.attrs['data'], b.attrs['data']
            la, lb = isinstance(da, (str, SStr)), isinstance(db, (str, SStr))
            if la != lb:
                return False
            if la:
                return eng.truth(da == db)
            return len(da) == len(db) and all(
                same_text(x, y) for x, y in zip(da, db))

        res = out.value
        if not changed:
            p.oblige(f'{N}/nothing-designated-returns-the-argument',
                     res is trees)
        else:
            p.oblige(f'{N}/result-is-the-reference-substitution',
                     agrees(want, res),
                     info={'shapes': repr(shapes_), 'signature':
                           'result differs from the reference substitution',
                           'want': repr([(k, nm.render(v) if isinstance(
                               v, ObjVal) else repr(v)) for k, v in want]),
                           'got': repr([nm.render(x) if isinstance(
                               x, ObjVal) else repr(x) for x in (
                                   res if isinstance(res, list) else [])])})

    return run


def substitute_contracts(tier):
    maxn = 4 if tier == 'thorough' else 3
    configs = []
    for sh in forest_shapes(maxn):
        nn = sum(_size(s) for s in sh)
        # identity key on every position: deletion / leaf replacement
        for id_pos in range(nn):
            for form in ('delete', 'leaf'):
                configs.append((sh, id_pos, form, False, None))
        # structural leaf key: leaf replacement / replacement containing
        # the key; alone and together with an identity key on the first node
        for s_form in ('leaf', 'tree-with-key', 'delete'):
            configs.append((sh, None, None, True, s_form))
        if nn:
            configs.append((sh, 0, 'tree-with-key', True, 'leaf'))
    nchunks = 16
    cs = []
    for c in range(nchunks):
        chunk = configs[c::nchunks]
        if not chunk:
            continue

        def run(eng, p, chunk=chunk):
            k = p.choose(len(chunk), 'config')
            make_run_subst(*chunk[k])(eng, p)

        cs.append(Contract(
            f'C11/substitute[configs {c}]', ['ddsmt.nodes.substitute'],
            run, setup=c12.setup, tier='S', max_paths=400000,
            bound=f'forests of <= 2 trees with <= {maxn} nodes; one identity '
            'key on any position and/or one structural leaf key; '
            'replacements: deletion / leaf / tree containing the structural '
            'key; ids, hashes (collisions allowed), leaf texts symbolic',
            assumptions=['operands satisfy the class invariant '
                         'hash == hash(data); ids pairwise distinct (tree)']))
    return cs


def _size(s):
    return 1 if s is None else 1 + sum(_size(c) for c in s)
