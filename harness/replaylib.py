"""Helpers for native replay scripts (run under /venv/bin/python with
PYTHONPATH=<repo>:/verif)."""
import sys


def init_ddsmt(argv=None):
    """Import ddsmt with a harmless command line (options are parsed lazily
    from sys.argv)."""
    sys.argv = argv or ['ddsmt', 'in.smt2', 'out.smt2', 'cmd']
    import ddsmt.options as options
    options.args()
    # logging.chat / logging.trace are defined by the CLI set-up
    from ddsmt import cli
    cli.setup_logging()
    import logging
    logging.getLogger().setLevel(logging.CRITICAL)
    return options


def build(plain):
    """nested lists / strings -> ddsmt.nodes.Node"""
    from ddsmt.nodes import Node
    if isinstance(plain, str):
        return Node(plain)
    return Node(*[build(x) for x in plain])


def plain(node):
    if node is None:
        return None
    if isinstance(node, (list, tuple)):
        return [plain(x) for x in node]
    if node.is_leaf():
        return node.data
    return [plain(x) for x in node.data]


def sexpr(pl):
    if isinstance(pl, str):
        return pl
    return '(' + ' '.join(sexpr(x) for x in pl) + ')'


def _positions(t, path=()):
    yield path
    if isinstance(t, list):
        for i, c in enumerate(t):
            yield from _positions(c, path + (i, ))


def _replace(t, path, new, insert=False):
    if not path:
        return new
    i = path[0]
    c = list(t)
    if len(path) == 1 and insert:
        c.insert(i, new)
        return c
    c[i] = _replace(c[i], path[1:], new, insert)
    return c


def compose_candidates(values, limit=4000):
    """Counterexample pieces (model values of independently chosen generic
    nodes) -> candidate inputs: each piece alone, and pieces plugged into /
    appended to positions of other pieces (two levels)."""
    seen = set()
    out = []

    def add(t):
        k = repr(t)
        if k not in seen and len(out) < limit:
            seen.add(k)
            out.append(t)

    vals = [v for v in values if v is not None]
    for v in vals:
        add(v)

    def plug(parent, child):
        res = []
        for pos in _positions(parent):
            if pos:
                res.append(_replace(parent, pos, child))
                res.append(_replace(parent, pos, child, insert=True))
            sub = parent
            for i in pos:
                sub = sub[i]
            if isinstance(sub, list):
                res.append(_replace(parent, pos, sub + [child]))
        return res

    level1 = []
    for a in vals:
        for b in vals:
            if a is not b and isinstance(a, list):
                for t in plug(a, b):
                    add(t)
                    level1.append(t)
    for t in level1[:400]:
        for c in vals:
            if isinstance(t, list):
                for u in plug(t, c):
                    add(u)
    return out
