"""C04 -- no internal failure on any input, meaningful exit status.

Exception-freedom obligations on the functions that run in the main process,
for *all* s-expression shapes (lazy symbolic nodes), plus the exit-status
contract of main()/bin/ddsmt.
"""
import z3

from pyvc import mk, sym
from pyvc.api import Contract, NativeCheck, outcome
from pyvc.interp import LoopSpec
from pyvc.sym import SBool, SNum, SStr, SOpt, mk_bool, force
from . import env, nodemodel as nm

PROPERTY = 'C04'
A_NODES = [nm.ASSUME_LAZY, nm.ASSUME_EQ_CONTRACT]


def setup_nodes(eng):
    env.static_options(eng)
    nm.install(eng)
    nm.use_eq_contract(eng)
    contains_contract(eng)


def generic_node_loop(tag):
    """Loop over the children / sub-terms of a symbolic node: the body is
    verified for an arbitrary node (covers every iteration of every input)."""
    return LoopSpec(
        inv=lambda e, env_: True,
        elem=lambda e, env_, p: node_or_char(e, p, tag))


def node_or_char(eng, p, tag):
    """Element of a loop over a Node: a child node, or -- when the node is
    a leaf -- one character of its text."""
    if p.decide(p.fresh_bool(f'{tag}_is_char')):
        c = p.fresh_str(f'{tag}_char')
        p.assume(z3.Length(c) == 1)
        return sym.mk_str([('v', c)])
    return nm.lazy_node(eng, p, tag)


def node_replay(call_expr, var='S_n', imports='', prelude=''):
    """Replay script: rebuild the counterexample node and call the real
    function; reproduced (exit 1) iff it raises."""

    def replay(name, model, detail):
        v = model.get(var)
        if not isinstance(v, dict) or 'sexpr' not in v:
            return None
        script = f"""
import sys
from harness import replaylib as R
R.init_ddsmt()
{imports}
node = R.build({v['sexpr']!r})
{prelude}
try:
    {call_expr}
except Exception as e:
    print('raised', type(e).__name__, e, 'on', R.sexpr(R.plain(node)))
    sys.exit(1)
print('no exception on', R.sexpr(R.plain(node)))
sys.exit(0)
"""
        return {'script': script, 'input': v['sexpr']}

    return replay


def contains_contract(eng):
    """nodes.contains(node, func) used through its contract: it applies func
    to nodes of dfs(node) only, raises only what func raises, returns a
    Boolean.  (func is checked on an arbitrary node.)"""

    def contains(e, node, func):
        p = sym.cur()
        e.call(func, [nm.lazy_node(e, p, 'sub')], {})
        return mk.sbool(p, 'contains')

    eng.overrides['ddsmt.nodes.contains'] = contains


def make_is_relevant(theory):

    def run(eng, p):
        mod = eng.load_module(f'ddsmt.mutators_{theory}')
        node = nm.lazy_node(eng, p, 'n')
        out = outcome(eng, mod.g['is_relevant'], [node])
        p.oblige(f'C04/mutators_{theory}.is_relevant/raises-nothing',
                 out.kind == 'return',
                 info={'outcome': repr(out), 'node': nm.render(node),
                       'signature': out.exc_name()
                       if out.kind == 'raise' else ''})

    return run


# -- smtlib.collect_information ------------------------------------------------

CI = 'ddsmt.smtlib.collect_information'


def get_sort_contract(eng):
    """get_sort / get_bv_width used through their exception-freedom contract
    (verified by C04/get_sort, C04/get_bv_width): no exception, result is
    None or a sort term / an integer."""

    def get_sort(e, node):
        p = sym.cur()
        return SOpt(p.fresh_bool('sort_unknown'),
                    nm.lazy_node(e, p, 'sort'))

    def get_bv_width(e, node):
        return SNum(sym.cur().fresh_int('bw'))

    eng.overrides['ddsmt.smtlib.get_sort'] = get_sort
    eng.overrides['ddsmt.smtlib.get_bv_width'] = get_bv_width


def setup_collect(eng):
    setup_nodes(eng)
    nm.install_abs(eng)
    get_sort_contract(eng)

    def havoc(e, env_, p):
        nm.havoc_tables(e, p)

    top = LoopSpec(inv=lambda e, env_: True,
                   elem=lambda e, env_, p: nm.lazy_node(e, p, 'cmd'),
                   havoc={'effect:tables': havoc})
    sub = LoopSpec(inv=lambda e, env_: True,
                   elem=lambda e, env_, p: nm.lazy_node(e, p, 'node'),
                   havoc={'effect:tables': havoc})
    eng.loop_specs[(CI, 'for cmd in exprs')] = top
    eng.loop_specs[(CI, 'for node in nodes.dfs(exprs)')] = sub
    for hdr in ('for constr in cmd[2][id]', 'for var in node[1]',
                'for var in node[1]#2'):
        eng.loop_specs[(CI, hdr)] = generic_node_loop('child')
    # iterated object is known not to be a leaf here: elements are nodes
    for hdr in ('for constr in cmd[2]', 'for num in node[2:]'):
        eng.loop_specs[(CI, hdr)] = LoopSpec(
            inv=lambda e, env_: True,
            elem=lambda e, env_, p: nm.lazy_node(e, p, 'child'))
    for hdr in ('for (id, sel) in enumerate(constr[1:])',
                'for (i, sel) in enumerate(constr[1:])'):
        eng.loop_specs[(CI, hdr)] = LoopSpec(
            inv=lambda e, env_: True,
            elem=lambda e, env_, p: (nm._nonneg(p),
                                     node_or_char(e, p, 'sel')))


def run_collect(eng, p):
    sm = eng.load_module('ddsmt.smtlib')
    n = nm.lazy_node(eng, p, 'n')
    out = outcome(eng, sm.g['collect_information'], [[n]])
    p.oblige('C04/collect_information/raises-nothing', out.kind == 'return',
             info={'outcome': repr(out), 'signature': out.exc_name()
                   if out.kind == 'raise' else '',
                   'where': str(out.where)})


def search_replay(call_expr, imports='', wrap_list=True):
    """Replay for contracts whose loops were verified on generic elements:
    the model gives independent pieces; candidate inputs are composed from
    them and run on the real function until one raises."""

    def replay(name, model, detail):
        cands = [v['sexpr'] for k, v in sorted(model.items())
                 if isinstance(v, dict) and 'sexpr' in v]
        want = detail.get('signature') if isinstance(detail, dict) else ''
        script = f"""
import sys
from harness import replaylib as R
R.init_ddsmt()
{imports}
pieces = {cands!r}
tried = 0
for pl in R.compose_candidates(pieces):
    for top in (pl, ['assert', pl]):
        node = R.build(top)
        exprs = [node]
        tried += 1
        try:
            {call_expr}
        except Exception as e:
            if {want!r} in ('', type(e).__name__):
                print('raised', type(e).__name__, e, 'on', R.sexpr(R.plain(node)))
                sys.exit(1)
print('no exception on', tried, 'candidate inputs composed from', pieces)
sys.exit(0)
"""
        return {'script': script, 'input': cands}

    return replay


collect_replay = search_replay('smtlib.collect_information(exprs)',
                               'from ddsmt import smtlib')


def contracts(tier):
    cs = []
    for th in ('arithmetic', 'bv', 'datatypes', 'fp', 'strings'):
        cs.append(
            Contract(f'C04/mutators_{th}.is_relevant',
                     [f'ddsmt.mutators_{th}.is_relevant'],
                     make_is_relevant(th), setup=setup_nodes,
                     assumptions=A_NODES + [
                         'nodes.contains used through its contract (applies '
                         'the predicate to sub-nodes only)'],
                     replay=node_replay(
                         f'mutators_{th}.is_relevant(node)',
                         imports=f'from ddsmt import mutators_{th}')))
    cs.append(
        Contract('C04/collect_information', [CI], run_collect,
                 setup=setup_collect, replay=collect_replay,
                 assumptions=A_NODES + [
                     'get_sort/get_bv_width used through their '
                     'exception-freedom contract; loops over commands, '
                     'sub-terms and children verified for an arbitrary '
                     'element with the symbol tables havocked'],
                 max_paths=20000))
    return cs
