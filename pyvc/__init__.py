"""pyvc -- verification-condition generator for the real ddSMT sources.

Reads /repo/ddsmt/*.py on every run, symbolically executes the functions named
by sidecar contracts (/verif/contracts) and discharges the obligations with z3
(cvc5 for string obligations z3 leaves open).  See /verif/DESIGN.md section 2.
"""
