"""Bounded stand-in for C03 (the per-call parts and short cycles):

* no proposal leaves the input unchanged (one-step cycle),
* every proposal is delivered and applied within a time and size bound,
* no two-step chain of proposals leads back to the input (searched
  exhaustively on small inputs; an adversarial command that accepts exactly
  the members of the cycle would loop forever).

usage: c03_native.py <max two-step inputs>
"""
import sys
import time

ARGS = sys.argv[1:]
from harness import replaylib as R  # noqa: E402
from harness.bounded import Recorder, with_timeout, Timeout  # noqa: E402
from harness import c15_native as C  # noqa: E402  (corpus, helpers)

from ddsmt import smtlib, nodes, nodeio, mutator_utils  # noqa: E402

SMALL = {
    'eq-const': '(declare-const x Int)\n(assert (= x 0))\n',
    'eq-var': '(declare-const x Int)\n(declare-const y Int)\n'
              '(assert (= x y))\n',
    'bool': '(declare-const p Bool)\n(assert (not (not p)))\n',
    'bv': '(declare-const v (_ BitVec 2))\n(assert (= v #b01))\n',
    'sorted': '(declare-const a Int)\n(assert (< (+ a 1) a))\n',
    'names': '(declare-const ab Int)\n(assert (> ab 1))\n',
    'let': '(declare-const a Int)\n(assert (let ((b a)) (> b 0)))\n',
    'fun': '(define-fun f ((a Int)) Int a)\n(assert (> (f 1) 0))\n',
    'fp-nan': '(assert (fp.isNaN (fp (_ bv0 1) (_ bv31 5) (_ bv1 10))))\n',
    'self-eq': '(declare-const x Int)\n(assert (= x (+ (* x 2) 1)))\n',
    'self-eq2': '(declare-const y Int)\n(declare-const x Int)\n'
                '(assert (= y (f (g y)) x))\n',
}


def occurs(pl, name):
    if isinstance(pl, str):
        return pl == name
    return any(occurs(c, name) for c in pl)


def guard_contracts(rec, iname, exprs, cname, kind, node, simp):
    """The per-mutator cycle guards the documentation promises."""
    by_id = {n.id: n for n in C.all_nodes(exprs)}
    case = {'input': iname, 'mutator': cname,
            'node': nodeio.write_smtlib_to_str([node]).strip()}
    if cname == 'EliminateVariable':
        # a variable is never replaced by a term that contains it
        for k, r in simp.substs.items():
            if isinstance(k, int) and k in by_id and r is not None and \
                    by_id[k].is_leaf():
                if occurs(C.plain(r), by_id[k].data):
                    rec.violation(
                        'C03/native/EliminateVariable/replacement-free-of-'
                        'target', case,
                        f'{by_id[k].data} replaced by '
                        f'{nodeio.write_smtlib_to_str([r]).strip()}, which '
                        'contains it')
                    return
    if cname in ('SimplifySymbolNames', 'StringSimplifyConstant'):
        for k, r in simp.substs.items():
            old = k if not isinstance(k, int) else by_id.get(k)
            if old is not None and r is not None and old.is_leaf() and \
                    r.is_leaf() and len(r.data) >= len(old.data):
                rec.violation(f'C03/native/{cname}/text-gets-shorter', case,
                              f'{old.data} -> {r.data}')
                return
    if cname == 'ReplaceByVariable' and node.is_leaf():
        for k, r in simp.substs.items():
            if r is not None and r.is_leaf() and not (r.data > node.data):
                rec.violation('C03/native/ReplaceByVariable/lexicographic',
                              case, f'{node.data} -> {r.data} (mode inc)')
                return
    if cname in ('ArithmeticSimplifyConstant', 'BVSimplifyConstants'):
        from ddsmt import smtlib as sl
        for k, r in simp.substs.items():
            old = k if not isinstance(k, int) else by_id.get(k)
            if old is None or r is None:
                continue
            try:
                if cname == 'BVSimplifyConstants':
                    v0 = sl.get_bv_constant_value(old)[0]
                    v1 = sl.get_bv_constant_value(r)[0]
                else:
                    v0, v1 = sl.get_arith_const(old), sl.get_arith_const(r)
            except Exception:  # noqa
                continue
            if not (v1 < v0 or (v1 == v0 and len(str(C.plain(r))) <
                                len(str(C.plain(old))))):
                rec.violation(f'C03/native/{cname}/value-decreases', case,
                              f'{v0} -> {v1}')
                return


def tokens_of(exprs):
    out = []
    for t in C.plain(exprs):
        out.extend(flat(t))
    return tuple(out)


def flat(t):
    if isinstance(t, str):
        return [t]
    out = ['(']
    for c in t:
        out.extend(flat(c))
    out.append(')')
    return out


def all_props(exprs, muts, rec, iname, timing=True):
    smtlib.collect_information(exprs)
    res = []
    for node in C.all_nodes(exprs):
        for cname, m in muts:
            t0 = time.time()
            try:
                props = with_timeout(5, lambda: C.proposals(m, node, exprs))
            except Timeout:
                rec.violation(f'C03/native/{cname}/delivers-in-time',
                              {'input': iname, 'mutator': cname,
                               'node': nodeio.write_smtlib_to_str([node])},
                              'no proposals within 5 s')
                continue
            except Exception:  # noqa
                continue
            dt = time.time() - t0
            if timing and dt > 1.0:
                rec.violation(f'C03/native/{cname}/delivers-in-time',
                              {'input': iname, 'mutator': cname}, f'{dt:.1f}s')
            for kind, simp in props:
                res.append((cname, kind, node, simp))
    return res


def apply(exprs, simp):
    return mutator_utils.apply_simp(
        exprs, mutator_utils.Simplification(dict(simp.substs),
                                            simp.fresh_vars))


def main():
    limit = int(ARGS[0])
    rec = Recorder('C03/native/per-call-and-short-cycles',
                   'corpus of C15 (10 inputs) for no-op freedom / time / '
                   f'size; two-step cycle search on {len(SMALL)} small '
                   f'inputs (at most {limit} first steps each)')
    muts = C.all_mutators()
    known_pairs = set()
    for iname, text in list(C.CORPUS.items()) + list(SMALL.items()):
        exprs = nodes.reduplicate(list(nodeio.parse_smtlib(text)))
        base = tokens_of(exprs)
        size0 = nodes.count_nodes(exprs)
        for cname, kind, node, simp in all_props(exprs, muts, rec, iname):
            rec.case((iname, cname, kind, node.id, id(simp)))
            guard_contracts(rec, iname, exprs, cname, kind, node, simp)
            try:
                new = with_timeout(5, apply, exprs, simp)
            except Timeout:
                rec.violation(f'C03/native/{cname}/applies-in-time',
                              {'input': iname, 'mutator': cname},
                              'apply_simp did not return within 5 s')
                continue
            except Exception:  # noqa  (C15's concern)
                continue
            if not isinstance(new, list):
                continue
            if tokens_of(new) == base:
                rec.violation(f'C03/native/{cname}/no-op-free',
                              {'input': iname, 'mutator': cname, 'kind': kind,
                               'node': nodeio.write_smtlib_to_str([node])},
                              'proposal leaves the input unchanged')
            size1 = nodes.count_nodes(new)
            if size1 > 4 * size0 + 32:
                rec.violation(f'C03/native/{cname}/size-bounded',
                              {'input': iname, 'mutator': cname},
                              f'{size0} -> {size1} nodes')
    # two-step cycles
    for iname, text in SMALL.items():
        exprs = nodes.reduplicate(list(nodeio.parse_smtlib(text)))
        base = tokens_of(exprs)
        first = all_props(exprs, muts, rec, iname, timing=False)[:limit]
        for c1, k1, n1, s1 in first:
            try:
                mid = apply(exprs, s1)
            except Exception:  # noqa
                continue
            if not isinstance(mid, list) or tokens_of(mid) == base:
                continue
            mid = nodes.reduplicate(mid)
            for c2, k2, n2, s2 in all_props(mid, muts, rec, iname,
                                            timing=False):
                rec.case((iname, c1, c2, n1.id, n2.id, id(s2)))
                try:
                    back = apply(mid, s2)
                except Exception:  # noqa
                    continue
                if isinstance(back, list) and tokens_of(back) == base:
                    pair = (c1, c2)
                    if pair in known_pairs:
                        continue
                    known_pairs.add(pair)
                    rec.violation(
                        'C03/native/two-step-cycle',
                        {'input': iname, 'first': c1, 'second': c2,
                         'via': ' '.join(tokens_of(mid))},
                        f'{c1} then {c2} lead back to the input '
                        f'{" ".join(base)}')
    rec.finish(exhaustive=False)


if __name__ == '__main__':
    main()
